// Package gate turns the sqlwrap hook into a transaction-boundary scheduler:
// tagged actors are parked before BEGIN and after the commit of each of their
// transactions (never in the middle: on SQLite a transaction holds the write
// lock, so whole transactions are the atoms) and released one step at a time
// by the replay controller.
package gate

import (
	"fmt"
	"sync"
	"time"

	"go.6river.tech/mmmbbb/verifharness/sqlwrap"
)

type Point string

const (
	AtBegin      Point = "begin"       // parked before BEGIN of its next transaction
	AtCommitDone Point = "commit-done" // parked after a commit became durable, before anything after it runs
)

type actor struct {
	parked  Point         // "" if running
	arrived chan struct{} // signalled each time the actor parks
	release chan struct{}
	free    bool // no longer gated: run to completion
	nBegin  int
}

type Sched struct {
	mu     sync.Mutex
	actors map[string]*actor
}

func New() *Sched {
	s := &Sched{actors: map[string]*actor{}}
	sqlwrap.SetHook(s.hook)
	return s
}

func (s *Sched) Stop() { sqlwrap.SetHook(nil) }

// Add registers an actor tag to be gated.
func (s *Sched) Add(name string) {
	s.mu.Lock()
	s.actors[name] = &actor{arrived: make(chan struct{}, 64), release: make(chan struct{})}
	s.mu.Unlock()
}

func (s *Sched) hook(ev sqlwrap.Event) error {
	var p Point
	switch ev.Kind {
	case sqlwrap.Begin:
		p = AtBegin
	case sqlwrap.CommitDone:
		p = AtCommitDone
	default:
		return nil
	}
	s.mu.Lock()
	a := s.actors[ev.Actor]
	if a == nil || a.free {
		s.mu.Unlock()
		return nil
	}
	a.parked = p
	if p == AtBegin {
		a.nBegin++
	}
	rel := a.release
	s.mu.Unlock()
	a.arrived <- struct{}{}
	<-rel
	return nil
}

// WaitParked waits until the actor is parked at point p (or done() is true).
func (s *Sched) WaitParked(name string, p Point, done func() bool, timeout time.Duration) error {
	dl := time.After(timeout)
	for {
		s.mu.Lock()
		a := s.actors[name]
		at := a.parked
		s.mu.Unlock()
		if at == p {
			return nil
		}
		if at != "" {
			return fmt.Errorf("actor %s parked at %s, expected %s", name, at, p)
		}
		if done != nil && done() {
			return fmt.Errorf("actor %s finished before reaching %s", name, p)
		}
		select {
		case <-a.arrived:
		case <-time.After(5 * time.Millisecond):
		case <-dl:
			return fmt.Errorf("actor %s did not reach %s within %s", name, p, timeout)
		}
	}
}

// Parked reports where the actor is parked ("" if running).
func (s *Sched) Parked(name string) Point {
	s.mu.Lock()
	defer s.mu.Unlock()
	return s.actors[name].parked
}

// Release lets a parked actor continue to its next gate.
func (s *Sched) Release(name string) {
	s.mu.Lock()
	a := s.actors[name]
	if a.parked == "" {
		s.mu.Unlock()
		return
	}
	a.parked = ""
	old := a.release
	a.release = make(chan struct{})
	s.mu.Unlock()
	close(old)
}

// Free removes all gates of an actor and releases it if parked.
func (s *Sched) Free(name string) {
	s.mu.Lock()
	a := s.actors[name]
	a.free = true
	parked := a.parked != ""
	a.parked = ""
	old := a.release
	a.release = make(chan struct{})
	s.mu.Unlock()
	if parked {
		close(old)
	}
}
