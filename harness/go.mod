module verif/harness

go 1.24.0

toolchain go1.24.1

require go.6river.tech/mmmbbb v0.0.0

replace go.6river.tech/mmmbbb => /repo
