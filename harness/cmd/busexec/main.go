// busexec runs scenario files against the real code and writes traces.
//
//	busexec -scenarios s.ndjson -out traces.ndjson -summary sum.json [-workers N] [-seed S] [-scratch DIR]
package main

import (
	"bufio"
	"context"
	"encoding/json"
	"errors"
	"flag"
	"fmt"
	"os"
	"sync"
	"time"

	"go.6river.tech/mmmbbb/verifharness/busexec"
	"go.6river.tech/mmmbbb/verifharness/world"
)

type result struct {
	ID      string  `json:"id"`
	Status  string  `json:"status"` // ok | discarded | error
	Err     string  `json:"err,omitempty"`
	Steps   int     `json:"steps"`
	MaxStep float64 `json:"max_step_ms"`
	Faulted int     `json:"faulted"`
}

func main() {
	scen := flag.String("scenarios", "", "ndjson file, one scenario per line")
	out := flag.String("out", "", "trace output (ndjson)")
	sum := flag.String("summary", "", "summary output (json)")
	workers := flag.Int("workers", 8, "parallel worlds")
	seed := flag.Int64("seed", 1, "seed for names, payloads and renderings")
	scratch := flag.String("scratch", os.TempDir(), "scratch directory for database files")
	faultMode := flag.String("fault", "", "fault enumeration: fail | cancel (C09)")
	flag.Parse()

	f, err := os.Open(*scen)
	if err != nil {
		fmt.Fprintln(os.Stderr, err)
		os.Exit(2)
	}
	var scs []*busexec.Scenario
	sc := bufio.NewScanner(f)
	sc.Buffer(make([]byte, 1<<20), 1<<26)
	for sc.Scan() {
		if len(sc.Bytes()) == 0 {
			continue
		}
		var s busexec.Scenario
		if err := json.Unmarshal(sc.Bytes(), &s); err != nil {
			fmt.Fprintln(os.Stderr, "bad scenario:", err)
			os.Exit(2)
		}
		if s.ID == "" {
			s.ID = fmt.Sprintf("sc%d", len(scs)+1)
		}
		scs = append(scs, &s)
	}
	f.Close()

	outF, err := os.Create(*out)
	if err != nil {
		fmt.Fprintln(os.Stderr, err)
		os.Exit(2)
	}
	defer outF.Close()
	var outMu sync.Mutex
	results := make([]result, len(scs))
	jobs := make(chan int)
	var wg sync.WaitGroup
	for wkr := 0; wkr < *workers; wkr++ {
		wg.Add(1)
		go func() {
			defer wg.Done()
			for i := range jobs {
				s := scs[i]
				r := result{ID: s.ID}
				for attempt := 0; attempt < 3; attempt++ {
					ctx, cancel := context.WithTimeout(context.Background(), 120*time.Second)
					w, err := world.New(ctx, *scratch)
					if err != nil {
						r.Status, r.Err = "error", err.Error()
						cancel()
						break
					}
					ex := busexec.New(w, s, *seed*1000003+int64(i))
					ex.FaultMode = *faultMode
					err = ex.Run(ctx)
					w.Close()
					cancel()
					r.MaxStep = float64(ex.MaxStep) / 1e6
					r.Faulted = ex.Faulted
					if err == nil {
						r.Status, r.Err = "ok", ""
						r.Steps = len(s.Steps)
						outMu.Lock()
						outF.Write(ex.Out.Bytes())
						outMu.Unlock()
						break
					}
					if errors.Is(err, busexec.ErrDrift) {
						r.Status, r.Err = "discarded", err.Error()
						continue
					}
					r.Status, r.Err = "error", err.Error()
					break
				}
				results[i] = r
			}
		}()
	}
	for i := range scs {
		jobs <- i
	}
	close(jobs)
	wg.Wait()
	b, _ := json.Marshal(results)
	if *sum != "" {
		os.WriteFile(*sum, b, 0o644)
	}
	bad := 0
	for _, r := range results {
		if r.Status != "ok" {
			bad++
			fmt.Fprintf(os.Stderr, "scenario %s: %s %s\n", r.ID, r.Status, r.Err)
		}
	}
	fmt.Printf("scenarios=%d ok=%d not_ok=%d\n", len(results), len(results)-bad, bad)
}
