// pushcheck drives the real HTTP pusher (actions.NewHttpPusher on a push
// subscription) against a scripted endpoint and records every request and
// response for validation by spec/PushTrace.tla (C19).
//
//	pushcheck -scenarios s.ndjson -out trace.ndjson [-workers N] [-seed S] [-scratch DIR]
//
// A scenario is a list of response scripts, one per message: the answer classes
// of attempt 1, 2, ...; after the script the endpoint answers a fast success.
// Classes: fail1 (1xx other than 100/101/102 are not producible: uses 3xx),
// fail2 (2xx other than 200/201/202/204), fail3, fail4, fail5, okslow (success
// after >= 1 s), reset (connection closed without response), timeout (no answer
// within the client's timeout). Concrete status codes cycle through ALL codes
// of the class.
package main

import (
	"bufio"
	"context"
	"encoding/base64"
	"encoding/json"
	"flag"
	"fmt"
	"io"
	"net"
	"net/http"
	"net/http/httptest"
	"os"
	"reflect"
	"sort"
	"sync"
	"sync/atomic"
	"time"

	"google.golang.org/protobuf/types/known/durationpb"

	"go.6river.tech/mmmbbb/actions"
	"go.6river.tech/mmmbbb/grpc/pubsubpb"

	"go.6river.tech/mmmbbb/verifharness/world"
)

type scenario struct {
	ID      string     `json:"id"`
	Scripts [][]string `json:"scripts"`
	// Phases: how many of the messages are published together; the next phase is published once
	// every earlier message has been acknowledged (default: all at once). Lets a scenario put the
	// pusher's adaptive window at an exact value before a failure.
	Phases []int `json:"phases,omitempty"`
}

var successCodes = []int{200, 201, 202, 204}

func codesOf(class string) []int {
	var out []int
	add := func(lo, hi int, skip ...int) {
		for c := lo; c <= hi; c++ {
			s := false
			for _, k := range skip {
				if k == c {
					s = true
				}
			}
			if !s {
				out = append(out, c)
			}
		}
	}
	switch class {
	case "fail2":
		add(203, 299, 204)
	case "fail1", "fail3": // 1xx are informational and never final for a Go client; use the 3xx range
		add(300, 399)
	case "fail4":
		add(400, 499)
	case "fail5":
		add(500, 599)
	}
	return out
}

var codeCursor = map[string]*int64{"fail2": new(int64), "fail1": new(int64), "fail3": new(int64), "fail4": new(int64), "fail5": new(int64), "ok": new(int64)}

func main() {
	scenF := flag.String("scenarios", "", "")
	outF := flag.String("out", "", "")
	workers := flag.Int("workers", 8, "")
	seed := flag.Int64("seed", 1, "")
	scratch := flag.String("scratch", os.TempDir(), "")
	flag.Parse()
	for _, c := range codeCursor {
		*c = *seed * 37
	}
	f, err := os.Open(*scenF)
	if err != nil {
		fmt.Fprintln(os.Stderr, err)
		os.Exit(2)
	}
	var scs []scenario
	sc := bufio.NewScanner(f)
	sc.Buffer(make([]byte, 1<<20), 1<<26)
	for sc.Scan() {
		if len(sc.Bytes()) == 0 {
			continue
		}
		var s scenario
		if err := json.Unmarshal(sc.Bytes(), &s); err != nil {
			fmt.Fprintln(os.Stderr, "bad scenario", err)
			os.Exit(2)
		}
		scs = append(scs, s)
	}
	out, err := os.Create(*outF)
	if err != nil {
		fmt.Fprintln(os.Stderr, err)
		os.Exit(2)
	}
	defer out.Close()
	var omu sync.Mutex
	jobs := make(chan int)
	var wg sync.WaitGroup
	bad := 0
	for w := 0; w < *workers; w++ {
		wg.Add(1)
		go func() {
			defer wg.Done()
			for i := range jobs {
				evs, err := run(&scs[i], *scratch, *seed+int64(i))
				omu.Lock()
				if err != nil {
					bad++
					fmt.Fprintf(os.Stderr, "scenario %s: %v\n", scs[i].ID, err)
				} else {
					for _, e := range evs {
						b, _ := json.Marshal(e)
						out.Write(append(b, '\n'))
					}
				}
				omu.Unlock()
			}
		}()
	}
	for i := range scs {
		jobs <- i
	}
	close(jobs)
	wg.Wait()
	fmt.Printf("scenarios=%d not_ok=%d\n", len(scs), bad)
	if bad > len(scs)/20+1 {
		os.Exit(2)
	}
}

type pubRec struct {
	id    string
	body  []byte
	attrs map[string]string
	key   string
}

var bodies = []string{`{"n":%d}`, ` {"n": %d, "s":"<b>&amp;é世</b>"} `, `[%d,{"a":null},1e400]`, `"tag-%d"`, `%d`,
	// bytes whose standard base64 needs the characters '+' and '/' at every alignment
	// (0x3e '>' / 0x3f '?' / 0x7e '~' / 0xfb.. in UTF-8), and a number beyond float64
	`{"n":%d,"q":"?~?~?~ a?b ab?c abc? ~~ >>> ÿûÿ"}`, `["?",%d,"~?",9223372036854775807,"???"]`}

func run(sc *scenario, scratch string, seed int64) ([]map[string]any, error) {
	ctx, cancel := context.WithTimeout(context.Background(), 90*time.Second)
	defer cancel()
	w, err := world.New(ctx, scratch)
	if err != nil {
		return nil, err
	}
	defer w.Close()
	var mu sync.Mutex
	var evs []map[string]any
	idx := 0
	t0 := time.Now()
	ms := func() int { return int(time.Since(t0) / time.Millisecond) }
	emit := func(e map[string]any) {
		e["tr"], e["i"] = sc.ID, idx
		idx++
		evs = append(evs, e)
	}
	emit(map[string]any{"op": "Reset"})

	const minBackoff = 400 * time.Millisecond
	topic, sub := "projects/pp/topics/t", "projects/pp/subscriptions/s"
	pubs := map[string]*pubRec{} // by message id
	model := map[string]int{}
	attempts := map[int]int{}
	inflight := 0
	var nReq int64

	srv := httptest.NewServer(http.HandlerFunc(func(rw http.ResponseWriter, r *http.Request) {
		body, _ := io.ReadAll(r.Body)
		atomic.AddInt64(&nReq, 1)
		var env struct {
			Message struct {
				Data        string            `json:"data"`
				Attributes  map[string]string `json:"attributes"`
				MessageId   string            `json:"messageId"`
				OrderingKey string            `json:"orderingKey"`
				PublishTime string            `json:"publishTime"`
			} `json:"message"`
			Subscription    string `json:"subscription"`
			DeliveryAttempt int    `json:"deliveryAttempt"`
		}
		perr := json.Unmarshal(body, &env)
		mu.Lock()
		m := model[env.Message.MessageId]
		p := pubs[env.Message.MessageId]
		ok, why := true, ""
		switch {
		case perr != nil:
			ok, why = false, "body is not the JSON envelope"
		case r.Method != http.MethodPost:
			ok, why = false, "method "+r.Method
		case p == nil:
			ok, why = false, "unknown message id"
		default:
			data, derr := base64.StdEncoding.DecodeString(env.Message.Data)
			switch {
			case derr != nil || !jsonEqual(data, p.body):
				ok, why = false, "data is not base64 of the published payload value"
			case !reflect.DeepEqual(orEmpty(env.Message.Attributes), p.attrs):
				ok, why = false, "attributes differ"
			case env.Message.OrderingKey != p.key:
				ok, why = false, "ordering key differs"
			case env.Subscription != sub:
				ok, why = false, "subscription name differs"
			default:
				if _, terr := time.Parse(time.RFC3339Nano, env.Message.PublishTime); terr != nil {
					ok, why = false, "publishTime is not RFC 3339"
				}
			}
		}
		inflight++
		attempts[m]++
		att := attempts[m]
		class := "ok"
		if m >= 1 && m <= len(sc.Scripts) && att <= len(sc.Scripts[m-1]) {
			class = sc.Scripts[m-1][att-1]
		}
		emit(map[string]any{"op": "Req", "m": m, "attempt": env.DeliveryAttempt, "inflight": inflight, "envOK": ok, "why": why,
			"t": ms(), "minBackoff": int(minBackoff / time.Millisecond)})
		mu.Unlock()

		code, slow := 0, false
		trunc := false
		switch class {
		case "ok":
			code = successCodes[int(atomic.AddInt64(codeCursor["ok"], 1))%len(successCodes)]
		case "okslow":
			code, slow = successCodes[int(atomic.AddInt64(codeCursor["ok"], 1))%len(successCodes)], true
			time.Sleep(1100 * time.Millisecond)
		case "failslow": // a failing status that takes >= 1 s: still a failure
			cs := codesOf("fail5")
			code, slow = cs[int(atomic.AddInt64(codeCursor["fail5"], 1))%len(cs)], true
			time.Sleep(1100 * time.Millisecond)
		case "reset":
			code = -1
		case "timeout":
			code = -2
			time.Sleep(1400 * time.Millisecond) // the pusher's client gives up after 1.5 s; the endpoint counts the request as over just before
		case "code203", "code205", "code206", "code207", "code208", "code226", "code300", "code304", "code400", "code599":
			// one explicit final status (the boundary of the success set)
			fmt.Sscanf(class, "code%d", &code)
		case "failtrunc": // a failing status whose body is cut short (declared longer than what is sent)
			code = 500
			trunc = true
		default:
			cs := codesOf(class)
			code = cs[int(atomic.AddInt64(codeCursor[class], 1))%len(cs)]
		}
		mu.Lock()
		inflight--
		emit(map[string]any{"op": "Resp", "m": m, "code": code, "slow": slow, "t": ms()})
		mu.Unlock()
		if code == -1 {
			if hj, ok := rw.(http.Hijacker); ok {
				if c, _, err := hj.Hijack(); err == nil {
					c.Close()
					return
				}
			}
			code = 500
		}
		if code == -2 {
			time.Sleep(400 * time.Millisecond)
			return
		}
		if trunc {
			rw.Header().Set("Content-Length", "64")
			rw.WriteHeader(code)
			_, _ = rw.Write([]byte("oops"))
			return // the server closes the connection: the client's body read fails
		}
		rw.WriteHeader(code)
	}))
	defer srv.Close()

	cctx := world.ActorCtx(ctx, "client")
	if _, err := w.Pub.CreateTopic(cctx, &pubsubpb.Topic{Name: topic}); err != nil {
		return nil, err
	}
	if _, err := w.Sub.CreateSubscription(cctx, &pubsubpb.Subscription{Name: sub, Topic: topic,
		PushConfig:  &pubsubpb.PushConfig{PushEndpoint: srv.URL},
		RetryPolicy: &pubsubpb.RetryPolicy{MinimumBackoff: durationpb.New(minBackoff), MaximumBackoff: durationpb.New(2 * minBackoff)}}); err != nil {
		return nil, err
	}
	subs, err := w.Client.Subscription.Query().All(ctx)
	if err != nil || len(subs) != 1 {
		return nil, fmt.Errorf("subscription lookup: %v", err)
	}
	// publish first, then start the pusher (the production supervisor starts one pusher per push subscription)
	phases := sc.Phases
	if len(phases) == 0 {
		phases = []int{len(sc.Scripts)}
	}
	published := []int{}
	next := 0
	publishPhase := func(n int) error {
		req := &pubsubpb.PublishRequest{Topic: topic}
		var recs []*pubRec
		for i := next; i < next+n && i < len(sc.Scripts); i++ {
			r := &pubRec{body: []byte(fmt.Sprintf(bodies[(int(seed)+i)%len(bodies)], 1000+i)), attrs: map[string]string{}, key: ""}
			if i%2 == 0 {
				r.attrs = map[string]string{"k": fmt.Sprintf("v%d", i), "é": "<&>"}
			}
			if i%3 == 0 {
				r.key = fmt.Sprintf("key-%d", i)
			}
			recs = append(recs, r)
			req.Messages = append(req.Messages, &pubsubpb.PubsubMessage{Data: r.body, Attributes: r.attrs, OrderingKey: r.key})
		}
		if len(recs) == 0 {
			return nil
		}
		mu.Lock()
		defer mu.Unlock()
		resp, err := w.Pub.Publish(cctx, req)
		if err != nil {
			return err
		}
		for i, id := range resp.MessageIds {
			recs[i].id = id
			pubs[id] = recs[i]
			model[id] = next + i + 1
			published = append(published, next+i+1)
			emit(map[string]any{"op": "Publish", "m": next + i + 1})
		}
		next += len(recs)
		return nil
	}
	if err := publishPhase(phases[0]); err != nil {
		return nil, err
	}
	phases = phases[1:]

	pctx, pcancel := context.WithCancel(world.ActorCtx(ctx, "pusher"))
	done := make(chan error, 1)
	hc := &http.Client{Timeout: 1500 * time.Millisecond, Transport: &http.Transport{DialContext: (&net.Dialer{Timeout: time.Second}).DialContext, MaxIdleConnsPerHost: 50}}
	pusher := actions.NewHttpPusher(sub, subs[0].ID, srv.URL, hc, w.Client)
	go func() { done <- pusher.Go(pctx) }()

	// run until every message has been acknowledged in the database, or the time budget ends
	grace := 4000
	deadline := time.Now().Add(25 * time.Second)
	acked := []int{}
	for {
		st, err := w.Project(ctx)
		if err != nil {
			pcancel()
			return nil, err
		}
		acked = acked[:0]
		for _, d := range st.Del {
			if d.Done != -1 {
				for _, m := range st.Msgs {
					if m.ID == d.D[0] {
						acked = append(acked, model[m.UUID.String()])
					}
				}
			}
		}
		if len(acked) == len(published) && len(phases) > 0 {
			if err := publishPhase(phases[0]); err != nil {
				pcancel()
				return nil, err
			}
			phases = phases[1:]
			continue
		}
		if len(acked) == len(published) || time.Now().After(deadline) {
			break
		}
		select {
		case err := <-done:
			pcancel()
			return nil, fmt.Errorf("pusher ended: %v", err)
		case <-time.After(100 * time.Millisecond):
		}
	}
	// a little longer: nothing may be pushed again after success
	time.Sleep(time.Duration(float64(minBackoff) * 1.5))
	pcancel()
	select {
	case <-done:
	case <-time.After(5 * time.Second):
	}
	sort.Ints(acked)
	mu.Lock()
	emit(map[string]any{"op": "Final", "acked": acked, "published": published, "t": ms(), "grace": grace})
	mu.Unlock()
	return evs, nil
}

func orEmpty(m map[string]string) map[string]string {
	if m == nil {
		return map[string]string{}
	}
	return m
}

func jsonEqual(a, b []byte) bool {
	var va, vb any
	da := json.NewDecoder(bytesReader(a))
	da.UseNumber()
	db := json.NewDecoder(bytesReader(b))
	db.UseNumber()
	if da.Decode(&va) != nil || db.Decode(&vb) != nil {
		return string(a) == string(b)
	}
	return reflect.DeepEqual(va, vb)
}

type br struct {
	b []byte
	i int
}

func (r *br) Read(p []byte) (int, error) {
	if r.i >= len(r.b) {
		return 0, io.EOF
	}
	n := copy(p, r.b[r.i:])
	r.i += n
	return n, nil
}
func bytesReader(b []byte) io.Reader { return &br{b: b} }
