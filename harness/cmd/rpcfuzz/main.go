// rpcfuzz binds spec/Rpc.tla (C16) to the real server.
//
//	rpcfuzz -mode run -table table.json -vectors v.ndjson -out results.ndjson -scratch DIR [-workers N]
//	rpcfuzz -mode serverproc -db FILE          (child process; started by the parent)
//
// The parent builds a small fixed pre-state once (through the gRPC API of an
// in-process world), keeps the resulting SQLite file as the pristine copy, and
// starts one CHILD PROCESS per worker that runs the production gRPC service
// (grpc.NewGrpcService(...).Initialize/Start: logging, prometheus and fault
// interceptors, exactly the chain of the deployed server) on a copy of that
// file.  Every request vector enumerated by TLC is turned into a concrete
// protobuf request, sent with a 5 s deadline and classified:
//
//	crash   the child process exited
//	wedge   no status within the deadline (for the two long-poll RPCs: and the
//	        server did not answer a probe either), or the server stopped
//	        answering a probe after the request
//	status  a gRPC status came back
//
// After every answered request the five tables are dumped (canonical full
// dump) and compared with the dump of the pristine state; whenever they
// differ the pristine rows are copied back, so every vector meets the same
// pre-state.  After a crash the child is restarted on a fresh copy.
// Violating vectors are minimised to the responsible field(s).
package main

import (
	"bufio"
	"context"
	"database/sql"
	"encoding/json"
	"errors"
	"flag"
	"fmt"
	"io"
	"math"
	"os"
	"os/exec"
	"path/filepath"
	"sort"
	"strconv"
	"strings"
	"sync"
	"syscall"
	"time"

	"entgo.io/ent/dialect"
	entsql "entgo.io/ent/dialect/sql"
	_ "github.com/mattn/go-sqlite3"
	"google.golang.org/grpc"
	"google.golang.org/grpc/codes"
	"google.golang.org/grpc/credentials/insecure"
	"google.golang.org/grpc/status"
	"google.golang.org/protobuf/encoding/prototext"
	"google.golang.org/protobuf/proto"
	"google.golang.org/protobuf/types/known/durationpb"
	"google.golang.org/protobuf/types/known/fieldmaskpb"
	"google.golang.org/protobuf/types/known/timestamppb"

	"go.6river.tech/mmmbbb/db"
	"go.6river.tech/mmmbbb/defaults"
	"go.6river.tech/mmmbbb/ent"
	_ "go.6river.tech/mmmbbb/ent/runtime"
	"go.6river.tech/mmmbbb/faults"
	mbgrpc "go.6river.tech/mmmbbb/grpc"
	"go.6river.tech/mmmbbb/grpc/pubsubpb"
	"go.6river.tech/mmmbbb/internal"
	"go.6river.tech/mmmbbb/services"

	"go.6river.tech/mmmbbb/verifharness/world"
)

const deadline = 5 * time.Second

// ---------------------------------------------------------------- child

func serverproc(dbFile string) int {
	ctx, cancel := context.WithCancel(context.Background())
	defer cancel()
	dsn := db.SQLiteDSN(strings.TrimSuffix(dbFile, ".sqlite3"), true, false)
	conn, err := db.Open(db.SQLiteDriverName, db.SqliteDialect, dsn)
	if err != nil {
		fmt.Fprintln(os.Stderr, "open:", err)
		return 3
	}
	client := ent.NewClient(ent.Driver(entsql.OpenDB(dialect.SQLite, conn)))
	internal.EnableRandomPorts()
	svc := mbgrpc.NewGrpcService(
		defaults.Port, defaults.GRPCOffset, nil, faults.NewSet("rpcfuzz"),
		func(_ context.Context, server *grpc.Server, client *ent.Client) error {
			return services.InitializeGrpcServers(server, client, nil)
		},
	)
	if err := svc.Initialize(ctx, client); err != nil {
		fmt.Fprintln(os.Stderr, "initialize:", err)
		return 3
	}
	port := internal.ResolvePort(defaults.Port, defaults.GRPCOffset)
	ready := make(chan struct{})
	errc := make(chan error, 1)
	go func() { errc <- svc.Start(ctx, ready) }()
	select {
	case <-ready:
	case err := <-errc:
		fmt.Fprintln(os.Stderr, "start:", err)
		return 3
	}
	select {
	case err := <-errc:
		fmt.Fprintln(os.Stderr, "start:", err)
		return 3
	case <-time.After(20 * time.Millisecond):
	}
	fmt.Printf("READY %d\n", port)
	os.Stdout.Sync()
	// the parent closes our stdin to make us stop
	go func() { _, _ = io.Copy(io.Discard, os.Stdin); cancel() }()
	err = <-errc
	if err != nil {
		fmt.Fprintln(os.Stderr, "serve:", err)
		return 3
	}
	return 0
}

// ---------------------------------------------------------------- pre-state

type PreState struct {
	T1, T2     string
	S1, S2, S3 string
	N1         string
	Live       []string // outstanding deliveries of S1
	Stale      []string // acknowledged delivery of S1
	Foreign    []string // outstanding delivery of S3
}

const proj = "projects/p"

func buildPreState(ctx context.Context, scratch string) (*PreState, string, error) {
	w, err := world.New(ctx, scratch)
	if err != nil {
		return nil, "", err
	}
	defer w.Close()
	st := &PreState{
		T1: proj + "/topics/t1", T2: proj + "/topics/t2",
		S1: proj + "/subscriptions/s1", S2: proj + "/subscriptions/s2", S3: proj + "/subscriptions/s3",
		N1: proj + "/snapshots/n1",
	}
	for _, t := range []string{st.T1, st.T2} {
		if _, err := w.Pub.CreateTopic(ctx, &pubsubpb.Topic{Name: t, Labels: map[string]string{"k": "v"}}); err != nil {
			return nil, "", err
		}
	}
	subs := []*pubsubpb.Subscription{
		{Name: st.S1, Topic: st.T1, Labels: map[string]string{"l": "1"},
			DeadLetterPolicy: &pubsubpb.DeadLetterPolicy{DeadLetterTopic: st.T2, MaxDeliveryAttempts: 5},
			RetryPolicy:      &pubsubpb.RetryPolicy{MinimumBackoff: durationpb.New(10 * time.Second), MaximumBackoff: durationpb.New(600 * time.Second)}},
		{Name: st.S2, Topic: st.T1, EnableMessageOrdering: true, Filter: "attributes:a"},
		{Name: st.S3, Topic: st.T2},
	}
	for _, s := range subs {
		if _, err := w.Sub.CreateSubscription(ctx, s); err != nil {
			return nil, "", err
		}
	}
	msg := func(data string, key string, attrs map[string]string) *pubsubpb.PubsubMessage {
		return &pubsubpb.PubsubMessage{Data: []byte(data), OrderingKey: key, Attributes: attrs}
	}
	if _, err := w.Pub.Publish(ctx, &pubsubpb.PublishRequest{Topic: st.T1, Messages: []*pubsubpb.PubsubMessage{
		msg(`{"n":1}`, "", map[string]string{"a": "x"}), msg(`{"n":2}`, "K", map[string]string{"a": "x"}),
		msg(`{"n":3}`, "", nil),
	}}); err != nil {
		return nil, "", err
	}
	// the deliverable backlog of S1 (these are never pulled here): payloads of
	// 1, 2 and 1 bytes, in this order (Rpc!ByteLimit is relative to them)
	for _, m := range []*pubsubpb.PubsubMessage{msg(`1`, "K", map[string]string{"a": "y"}), msg(`12`, "", nil), msg(`1`, "", map[string]string{"a": "x"})} {
		if _, err := w.Pub.Publish(ctx, &pubsubpb.PublishRequest{Topic: st.T1, Messages: []*pubsubpb.PubsubMessage{m}}); err != nil {
			return nil, "", err
		}
	}
	if _, err := w.Pub.Publish(ctx, &pubsubpb.PublishRequest{Topic: st.T2, Messages: []*pubsubpb.PubsubMessage{
		msg(`{"n":5}`, "", nil), msg(`{"n":6}`, "", nil),
	}}); err != nil {
		return nil, "", err
	}
	r, err := w.Sub.Pull(ctx, &pubsubpb.PullRequest{Subscription: st.S1, MaxMessages: 3})
	if err != nil {
		return nil, "", err
	}
	if len(r.ReceivedMessages) != 3 {
		return nil, "", fmt.Errorf("pre-state: pulled %d of 3", len(r.ReceivedMessages))
	}
	st.Stale = []string{r.ReceivedMessages[0].AckId}
	st.Live = []string{r.ReceivedMessages[1].AckId, r.ReceivedMessages[2].AckId}
	if _, err := w.Sub.Acknowledge(ctx, &pubsubpb.AcknowledgeRequest{Subscription: st.S1, AckIds: st.Stale}); err != nil {
		return nil, "", err
	}
	r, err = w.Sub.Pull(ctx, &pubsubpb.PullRequest{Subscription: st.S3, MaxMessages: 1})
	if err != nil {
		return nil, "", err
	}
	if len(r.ReceivedMessages) != 1 {
		return nil, "", fmt.Errorf("pre-state: pulled %d of 1", len(r.ReceivedMessages))
	}
	st.Foreign = []string{r.ReceivedMessages[0].AckId}
	if _, err := w.Sub.CreateSnapshot(ctx, &pubsubpb.CreateSnapshotRequest{Name: st.N1, Subscription: st.S1}); err != nil {
		return nil, "", err
	}
	if _, err := w.DB.ExecContext(ctx, "PRAGMA wal_checkpoint(TRUNCATE)"); err != nil {
		return nil, "", err
	}
	b, err := os.ReadFile(filepath.Join(w.Dir, "bus.sqlite3"))
	if err != nil {
		return nil, "", err
	}
	pristine := filepath.Join(scratch, "pristine.sqlite3")
	if err := os.WriteFile(pristine, b, 0o644); err != nil {
		return nil, "", err
	}
	return st, pristine, nil
}

// ---------------------------------------------------------------- vectors

type Vec struct {
	I   int               `json:"i"`
	RPC string            `json:"rpc"`
	F   map[string]string `json:"f"`
}

func (v Vec) key() string {
	ks := make([]string, 0, len(v.F))
	for k := range v.F {
		ks = append(ks, k)
	}
	sort.Strings(ks)
	s := v.RPC
	for _, k := range ks {
		s += "|" + k + "=" + v.F[k]
	}
	return s
}

type Result struct {
	I       int               `json:"i"`
	RPC     string            `json:"rpc"`
	F       map[string]string `json:"f"`
	Outcome string            `json:"outcome"`
	Code    string            `json:"code"`
	Changed bool              `json:"changed"`
	Ms      float64           `json:"ms"`
	Msg     string            `json:"msg,omitempty"`
	Stderr  string            `json:"stderr,omitempty"`
	Diff    string            `json:"diff,omitempty"`
	Req     string            `json:"req,omitempty"`
	Sig     []string          `json:"sig,omitempty"`
	Min     []Vec             `json:"min,omitempty"`
}

type Table struct {
	Classes  map[string]map[string][]string `json:"classes"`
	Valid    map[string]map[string]string   `json:"valid"`
	LongPoll []string                       `json:"longpoll"`
}

// ---------------------------------------------------------------- request construction

type call struct {
	req     proto.Message
	unary   func(ctx context.Context, pub pubsubpb.PublisherClient, sub pubsubpb.SubscriberClient) error
	stream  bool
	session string // StreamingPull: first | open_noack | open_ack
}

type bld struct {
	st *PreState
	f  map[string]string
}

func (b *bld) c(field string) string { return b.f[field] }

func pick(c string, m map[string]string) (string, error) {
	v, ok := m[c]
	if !ok {
		return "", fmt.Errorf("unknown class %q", c)
	}
	return v, nil
}

func (b *bld) subName(c string) string {
	switch c {
	case "valid", "existing":
		return b.st.S1
	case "wrongkind":
		return b.st.T1
	case "empty":
		return ""
	case "unknown":
		return proj + "/subscriptions/nosuch"
	case "fresh":
		return proj + "/subscriptions/fresh"
	}
	panic("sub name class " + c)
}

func (b *bld) topicName(c string) string {
	switch c {
	case "valid", "existing":
		return b.st.T1
	case "wrongkind":
		return b.st.S1
	case "empty":
		return ""
	case "unknown":
		return proj + "/topics/nosuch"
	case "fresh":
		return proj + "/topics/fresh"
	}
	panic("topic name class " + c)
}

func (b *bld) snapName(c string) string {
	switch c {
	case "valid", "existing":
		return b.st.N1
	case "wrongkind":
		return b.st.S1
	case "empty":
		return ""
	case "unknown":
		return proj + "/snapshots/nosuch"
	case "fresh":
		return proj + "/snapshots/fresh"
	}
	panic("snapshot name class " + c)
}

func (b *bld) project(c string) string {
	switch c {
	case "valid":
		return proj
	case "wrongkind":
		return b.st.T1
	case "empty":
		return ""
	case "unknown":
		return "projects/nosuch"
	}
	panic("project class " + c)
}

func i32(c string) int32 {
	switch c {
	case "min":
		return math.MinInt32
	case "neg1":
		return -1
	case "zero":
		return 0
	case "one":
		return 1
	case "large":
		return math.MaxInt32
	}
	panic("int class " + c)
}

// sizes of the first deliverable messages of the valid subscription (see buildPreState)
const firstMsgBytes, secondMsgBytes = 1, 2

func i64(c string) int64 {
	switch c {
	case "first_minus1":
		return firstMsgBytes - 1
	case "eq_first":
		return firstMsgBytes
	case "first_plus1":
		return firstMsgBytes + 1
	case "eq_first_two":
		return firstMsgBytes + secondMsgBytes
	case "min":
		return math.MinInt64
	case "neg1":
		return -1
	case "zero":
		return 0
	case "one":
		return 1
	case "large":
		return math.MaxInt64
	}
	panic("int class " + c)
}

const hugeSeconds = 315576000000 // 10000 years, the largest Duration protobuf allows

func dur(c string, valid time.Duration) *durationpb.Duration {
	switch c {
	case "absent":
		return nil
	case "negative":
		return &durationpb.Duration{Seconds: -1}
	case "zero":
		return &durationpb.Duration{}
	case "valid":
		return durationpb.New(valid)
	case "huge":
		return &durationpb.Duration{Seconds: hugeSeconds}
	}
	panic("duration class " + c)
}

func labels(c string) map[string]string {
	if c == "present" {
		return map[string]string{"env": "verif", "ünï": "çødé"}
	}
	return nil
}

func boolc(c string) bool { return c == "true" }

func pageTok(c string) string {
	switch c {
	case "empty":
		return ""
	case "valid":
		return "00000000-0000-4000-8000-000000000000"
	case "garbage":
		return "not-a-token"
	}
	panic("page token class " + c)
}

func (b *bld) ackIds(c string) []string {
	switch c {
	case "none":
		return nil
	case "live":
		return append([]string(nil), b.st.Live...)
	case "stale":
		return append([]string(nil), b.st.Stale...)
	case "foreign":
		return append([]string(nil), b.st.Foreign...)
	case "garbage":
		return []string{"not-an-ack-id"}
	case "mixed":
		return []string{b.st.Live[0], "not-an-ack-id"}
	case "blank": // an EMPTY string among otherwise valid ids
		return []string{"", b.st.Live[0]}
	}
	panic("ack id class " + c)
}

func pushCfg(c string) *pubsubpb.PushConfig {
	switch c {
	case "absent":
		return nil
	case "empty":
		return &pubsubpb.PushConfig{}
	case "endpoint":
		return &pubsubpb.PushConfig{PushEndpoint: "http://127.0.0.1:9/push"}
	case "attributes":
		return &pubsubpb.PushConfig{PushEndpoint: "http://127.0.0.1:9/push", Attributes: map[string]string{"x-goog-version": "v1"}}
	case "badattributes":
		return &pubsubpb.PushConfig{PushEndpoint: "http://127.0.0.1:9/push", Attributes: map[string]string{"x-other": "1"}}
	case "auth":
		return &pubsubpb.PushConfig{PushEndpoint: "http://127.0.0.1:9/push",
			AuthenticationMethod: &pubsubpb.PushConfig_OidcToken_{OidcToken: &pubsubpb.PushConfig_OidcToken{ServiceAccountEmail: "a@b"}}}
	}
	panic("push config class " + c)
}

func expPol(c string) *pubsubpb.ExpirationPolicy {
	switch c {
	case "absent":
		return nil
	case "empty":
		return &pubsubpb.ExpirationPolicy{}
	}
	return &pubsubpb.ExpirationPolicy{Ttl: dur(c, 24*time.Hour)}
}

func retryPol(c string) *pubsubpb.RetryPolicy {
	switch c {
	case "absent":
		return nil
	case "empty":
		return &pubsubpb.RetryPolicy{}
	case "valid":
		return &pubsubpb.RetryPolicy{MinimumBackoff: durationpb.New(10 * time.Second), MaximumBackoff: durationpb.New(600 * time.Second)}
	case "minonly":
		return &pubsubpb.RetryPolicy{MinimumBackoff: durationpb.New(10 * time.Second)}
	case "maxonly":
		return &pubsubpb.RetryPolicy{MaximumBackoff: durationpb.New(600 * time.Second)}
	case "minzero":
		return &pubsubpb.RetryPolicy{MinimumBackoff: durationpb.New(0), MaximumBackoff: durationpb.New(600 * time.Second)}
	case "maxzero":
		return &pubsubpb.RetryPolicy{MinimumBackoff: durationpb.New(10 * time.Second), MaximumBackoff: durationpb.New(0)}
	}
	return &pubsubpb.RetryPolicy{MinimumBackoff: dur(c, 0), MaximumBackoff: dur(c, 0)}
}

func (b *bld) dlPol(c string) *pubsubpb.DeadLetterPolicy {
	switch c {
	case "absent":
		return nil
	case "empty":
		return &pubsubpb.DeadLetterPolicy{}
	case "valid":
		return &pubsubpb.DeadLetterPolicy{DeadLetterTopic: b.st.T2, MaxDeliveryAttempts: 5}
	case "topicless":
		return &pubsubpb.DeadLetterPolicy{MaxDeliveryAttempts: 5}
	case "unknowntopic":
		return &pubsubpb.DeadLetterPolicy{DeadLetterTopic: proj + "/topics/nosuch", MaxDeliveryAttempts: 5}
	case "wrongkindtopic":
		return &pubsubpb.DeadLetterPolicy{DeadLetterTopic: b.st.S1, MaxDeliveryAttempts: 5}
	}
	if strings.HasPrefix(c, "att_") {
		return &pubsubpb.DeadLetterPolicy{DeadLetterTopic: b.st.T2, MaxDeliveryAttempts: i32(strings.TrimPrefix(c, "att_"))}
	}
	panic("dead letter class " + c)
}

func filt(c string) string {
	switch c {
	case "empty":
		return ""
	case "valid":
		return `attributes.a = "x"`
	case "invalid":
		return `attributes.a = = (`
	}
	panic("filter class " + c)
}

var subPaths = []string{"labels", "expiration_policy", "message_retention_duration", "enable_message_ordering",
	"retry_policy", "push_config", "filter", "dead_letter_policy"}

func mask(c string, known, immutable, unsupported string) *fieldmaskpb.FieldMask {
	switch c {
	case "absent":
		return nil
	case "empty":
		return &fieldmaskpb.FieldMask{}
	case "known":
		return &fieldmaskpb.FieldMask{Paths: []string{known}}
	case "all":
		return &fieldmaskpb.FieldMask{Paths: append([]string(nil), subPaths...)}
	case "unknown":
		return &fieldmaskpb.FieldMask{Paths: []string{"no_such_field"}}
	case "repeated":
		return &fieldmaskpb.FieldMask{Paths: []string{known, known}}
	case "immutable":
		return &fieldmaskpb.FieldMask{Paths: []string{immutable}}
	case "unsupported":
		return &fieldmaskpb.FieldMask{Paths: []string{unsupported}}
	}
	for _, p := range subPaths {
		if p == c {
			return &fieldmaskpb.FieldMask{Paths: []string{p}}
		}
	}
	panic("mask class " + c)
}

func payload(c string) []byte {
	switch c {
	case "json":
		return []byte(`{"k":[1,"two",null]}`)
	case "nonjson":
		return []byte("not json \x00\xff {")
	case "empty":
		return nil
	}
	panic("payload class " + c)
}

func (b *bld) seekTarget(req *pubsubpb.SeekRequest, c string) {
	ts := func(s int64) { req.Target = &pubsubpb.SeekRequest_Time{Time: &timestamppb.Timestamp{Seconds: s}} }
	switch c {
	case "absent":
	case "time_absent":
		req.Target = &pubsubpb.SeekRequest_Time{}
	case "time_min":
		ts(-62135596800)
	case "time_intmin":
		ts(math.MinInt64)
	case "time_intmax":
		ts(math.MaxInt64)
	case "time_negative":
		ts(-1)
	case "time_zero":
		ts(0)
	case "time_past":
		req.Target = &pubsubpb.SeekRequest_Time{Time: timestamppb.New(time.Now().Add(-time.Hour))}
	case "time_huge":
		ts(253402300799)
	case "snapshot_valid", "snapshot_wrongkind", "snapshot_empty", "snapshot_unknown":
		req.Target = &pubsubpb.SeekRequest_Snapshot{Snapshot: b.snapName(strings.TrimPrefix(c, "snapshot_"))}
	default:
		panic("seek target class " + c)
	}
}

func build(v Vec, st *PreState) (cl *call, err error) {
	defer func() {
		if r := recover(); r != nil {
			err = fmt.Errorf("cannot build %s: %v", v.key(), r)
		}
	}()
	b := &bld{st: st, f: v.F}
	c := b.c
	type P = pubsubpb.PublisherClient
	type S = pubsubpb.SubscriberClient
	un := func(req proto.Message, f func(ctx context.Context, p P, s S) error) *call {
		return &call{req: req, unary: f}
	}
	switch v.RPC {
	case "CreateTopic":
		req := &pubsubpb.Topic{Name: b.topicName(c("name")), Labels: labels(c("labels")),
			MessageRetentionDuration: dur(c("message_retention_duration"), time.Hour)}
		if c("message_storage_policy") == "empty" {
			req.MessageStoragePolicy = &pubsubpb.MessageStoragePolicy{}
		}
		if c("kms_key_name") == "set" {
			req.KmsKeyName = "projects/p/locations/l/keyRings/r/cryptoKeys/k"
		}
		if c("schema_settings") == "empty" {
			req.SchemaSettings = &pubsubpb.SchemaSettings{}
		}
		return un(req, func(ctx context.Context, p P, _ S) error { _, e := p.CreateTopic(ctx, req); return e }), nil
	case "UpdateTopic":
		req := &pubsubpb.UpdateTopicRequest{UpdateMask: mask(c("update_mask"), "labels", "name", "kms_key_name")}
		if c("topic") != "absent" {
			req.Topic = &pubsubpb.Topic{Name: b.topicName(c("topic")), Labels: labels(c("labels"))}
		}
		return un(req, func(ctx context.Context, p P, _ S) error { _, e := p.UpdateTopic(ctx, req); return e }), nil
	case "Publish":
		req := &pubsubpb.PublishRequest{Topic: b.topicName(c("topic"))}
		m := func(i int) *pubsubpb.PubsubMessage {
			x := &pubsubpb.PubsubMessage{Data: payload(c("data")), Attributes: labels(c("attributes"))}
			if c("ordering_key") == "set" {
				x.OrderingKey = "K"
			}
			return x
		}
		switch c("messages") {
		case "none":
		case "one":
			req.Messages = []*pubsubpb.PubsubMessage{m(0)}
		case "emptymsg":
			req.Messages = []*pubsubpb.PubsubMessage{{}}
		case "many":
			req.Messages = []*pubsubpb.PubsubMessage{m(0), m(1), m(2)}
		case "lastbad": // a batch whose LAST message is not acceptable: all or nothing
			req.Messages = []*pubsubpb.PubsubMessage{m(0), m(1), {Data: []byte("this is not json")}}
		default:
			panic("messages class")
		}
		return un(req, func(ctx context.Context, p P, _ S) error { _, e := p.Publish(ctx, req); return e }), nil
	case "GetTopic":
		req := &pubsubpb.GetTopicRequest{Topic: b.topicName(c("topic"))}
		return un(req, func(ctx context.Context, p P, _ S) error { _, e := p.GetTopic(ctx, req); return e }), nil
	case "ListTopics":
		req := &pubsubpb.ListTopicsRequest{Project: b.project(c("project")), PageSize: i32(c("page_size")), PageToken: pageTok(c("page_token"))}
		return un(req, func(ctx context.Context, p P, _ S) error { _, e := p.ListTopics(ctx, req); return e }), nil
	case "ListTopicSubscriptions":
		req := &pubsubpb.ListTopicSubscriptionsRequest{Topic: b.topicName(c("topic")), PageSize: i32(c("page_size")), PageToken: pageTok(c("page_token"))}
		return un(req, func(ctx context.Context, p P, _ S) error { _, e := p.ListTopicSubscriptions(ctx, req); return e }), nil
	case "ListTopicSnapshots":
		req := &pubsubpb.ListTopicSnapshotsRequest{Topic: b.topicName(c("topic")), PageSize: i32(c("page_size"))}
		return un(req, func(ctx context.Context, p P, _ S) error { _, e := p.ListTopicSnapshots(ctx, req); return e }), nil
	case "DeleteTopic":
		req := &pubsubpb.DeleteTopicRequest{Topic: b.topicName(c("topic"))}
		return un(req, func(ctx context.Context, p P, _ S) error { _, e := p.DeleteTopic(ctx, req); return e }), nil
	case "DetachSubscription":
		req := &pubsubpb.DetachSubscriptionRequest{Subscription: b.subName(c("subscription"))}
		return un(req, func(ctx context.Context, p P, _ S) error { _, e := p.DetachSubscription(ctx, req); return e }), nil
	case "CreateSubscription":
		req := &pubsubpb.Subscription{
			Name: b.subName(c("name")), Topic: b.topicName(c("topic")), PushConfig: pushCfg(c("push_config")),
			AckDeadlineSeconds: i32(c("ack_deadline_seconds")), RetainAckedMessages: boolc(c("retain_acked_messages")),
			MessageRetentionDuration: dur(c("message_retention_duration"), 600*time.Second), Labels: labels(c("labels")),
			EnableMessageOrdering: boolc(c("enable_message_ordering")), ExpirationPolicy: expPol(c("expiration_policy")),
			Filter: filt(c("filter")), DeadLetterPolicy: b.dlPol(c("dead_letter_policy")),
			RetryPolicy: retryPol(c("retry_policy")), Detached: boolc(c("detached")),
		}
		return un(req, func(ctx context.Context, _ P, s S) error { _, e := s.CreateSubscription(ctx, req); return e }), nil
	case "GetSubscription":
		req := &pubsubpb.GetSubscriptionRequest{Subscription: b.subName(c("subscription"))}
		return un(req, func(ctx context.Context, _ P, s S) error { _, e := s.GetSubscription(ctx, req); return e }), nil
	case "UpdateSubscription":
		req := &pubsubpb.UpdateSubscriptionRequest{UpdateMask: mask(c("update_mask"), "labels", "topic", "ack_deadline_seconds")}
		if c("subscription") != "absent" {
			req.Subscription = &pubsubpb.Subscription{
				Name: b.subName(c("subscription")), PushConfig: pushCfg(c("push_config")),
				MessageRetentionDuration: dur(c("message_retention_duration"), 600*time.Second), Labels: labels(c("labels")),
				EnableMessageOrdering: boolc(c("enable_message_ordering")), ExpirationPolicy: expPol(c("expiration_policy")),
				Filter: filt(c("filter")), DeadLetterPolicy: b.dlPol(c("dead_letter_policy")),
				RetryPolicy: retryPol(c("retry_policy")),
			}
		}
		return un(req, func(ctx context.Context, _ P, s S) error { _, e := s.UpdateSubscription(ctx, req); return e }), nil
	case "ListSubscriptions":
		req := &pubsubpb.ListSubscriptionsRequest{Project: b.project(c("project")), PageSize: i32(c("page_size")), PageToken: pageTok(c("page_token"))}
		return un(req, func(ctx context.Context, _ P, s S) error { _, e := s.ListSubscriptions(ctx, req); return e }), nil
	case "DeleteSubscription":
		req := &pubsubpb.DeleteSubscriptionRequest{Subscription: b.subName(c("subscription"))}
		return un(req, func(ctx context.Context, _ P, s S) error { _, e := s.DeleteSubscription(ctx, req); return e }), nil
	case "ModifyAckDeadline":
		req := &pubsubpb.ModifyAckDeadlineRequest{Subscription: b.subName(c("subscription")), AckIds: b.ackIds(c("ack_ids")), AckDeadlineSeconds: i32(c("ack_deadline_seconds"))}
		return un(req, func(ctx context.Context, _ P, s S) error { _, e := s.ModifyAckDeadline(ctx, req); return e }), nil
	case "Acknowledge":
		req := &pubsubpb.AcknowledgeRequest{Subscription: b.subName(c("subscription")), AckIds: b.ackIds(c("ack_ids"))}
		return un(req, func(ctx context.Context, _ P, s S) error { _, e := s.Acknowledge(ctx, req); return e }), nil
	case "Pull":
		req := &pubsubpb.PullRequest{Subscription: b.subName(c("subscription")), MaxMessages: i32(c("max_messages")), ReturnImmediately: boolc(c("return_immediately"))}
		return un(req, func(ctx context.Context, _ P, s S) error { _, e := s.Pull(ctx, req); return e }), nil
	case "StreamingPull":
		req := &pubsubpb.StreamingPullRequest{Subscription: b.subName(c("subscription")), AckIds: b.ackIds(c("ack_ids")),
			StreamAckDeadlineSeconds: i32(c("stream_ack_deadline_seconds")),
			MaxOutstandingMessages:   i64(c("max_outstanding_messages")), MaxOutstandingBytes: i64(c("max_outstanding_bytes"))}
		if c("client_id") == "set" {
			req.ClientId = "verif-client"
		}
		switch c("modify_deadline") {
		case "none":
		case "matched":
			req.ModifyDeadlineAckIds, req.ModifyDeadlineSeconds = []string{st.Live[1]}, []int32{10}
		case "mismatched":
			req.ModifyDeadlineAckIds = []string{st.Live[1]}
		case "garbage":
			req.ModifyDeadlineAckIds, req.ModifyDeadlineSeconds = []string{"not-an-ack-id"}, []int32{10}
		case "blank": // an empty string among valid ids, lengths matched
			req.ModifyDeadlineAckIds, req.ModifyDeadlineSeconds = []string{"", st.Live[1]}, []int32{600, 600}
		case "mixed": // a zero deadline and a positive one in the same request
			req.ModifyDeadlineAckIds, req.ModifyDeadlineSeconds = []string{st.Live[0], st.Live[1]}, []int32{0, 30}
		default:
			panic("modify_deadline class")
		}
		switch c("session") {
		case "first", "open_noack", "open_ack":
		default:
			panic("session class")
		}
		return &call{req: req, stream: true, session: c("session")}, nil
	case "ModifyPushConfig":
		req := &pubsubpb.ModifyPushConfigRequest{Subscription: b.subName(c("subscription")), PushConfig: pushCfg(c("push_config"))}
		return un(req, func(ctx context.Context, _ P, s S) error { _, e := s.ModifyPushConfig(ctx, req); return e }), nil
	case "GetSnapshot":
		req := &pubsubpb.GetSnapshotRequest{Snapshot: b.snapName(c("snapshot"))}
		return un(req, func(ctx context.Context, _ P, s S) error { _, e := s.GetSnapshot(ctx, req); return e }), nil
	case "ListSnapshots":
		req := &pubsubpb.ListSnapshotsRequest{Project: b.project(c("project")), PageSize: i32(c("page_size")), PageToken: pageTok(c("page_token"))}
		return un(req, func(ctx context.Context, _ P, s S) error { _, e := s.ListSnapshots(ctx, req); return e }), nil
	case "CreateSnapshot":
		req := &pubsubpb.CreateSnapshotRequest{Name: b.snapName(c("name")), Subscription: b.subName(c("subscription")), Labels: labels(c("labels"))}
		return un(req, func(ctx context.Context, _ P, s S) error { _, e := s.CreateSnapshot(ctx, req); return e }), nil
	case "UpdateSnapshot":
		req := &pubsubpb.UpdateSnapshotRequest{}
		switch c("snapshot") {
		case "absent":
		case "empty":
			req.Snapshot = &pubsubpb.Snapshot{}
		case "valid":
			req.Snapshot = &pubsubpb.Snapshot{Name: st.N1, Labels: labels("present")}
		default:
			panic("snapshot class")
		}
		if c("update_mask") == "known" {
			req.UpdateMask = &fieldmaskpb.FieldMask{Paths: []string{"labels"}}
		}
		return un(req, func(ctx context.Context, _ P, s S) error { _, e := s.UpdateSnapshot(ctx, req); return e }), nil
	case "DeleteSnapshot":
		req := &pubsubpb.DeleteSnapshotRequest{Snapshot: b.snapName(c("snapshot"))}
		return un(req, func(ctx context.Context, _ P, s S) error { _, e := s.DeleteSnapshot(ctx, req); return e }), nil
	case "Seek":
		req := &pubsubpb.SeekRequest{Subscription: b.subName(c("subscription"))}
		b.seekTarget(req, c("target"))
		return un(req, func(ctx context.Context, _ P, s S) error { _, e := s.Seek(ctx, req); return e }), nil
	}
	return nil, fmt.Errorf("unknown rpc %q", v.RPC)
}

// ---------------------------------------------------------------- child management

type ring struct {
	mu  sync.Mutex
	buf []byte
}

func (r *ring) Write(p []byte) (int, error) {
	r.mu.Lock()
	defer r.mu.Unlock()
	r.buf = append(r.buf, p...)
	if len(r.buf) > 1<<16 {
		r.buf = r.buf[len(r.buf)-(1<<16):]
	}
	return len(p), nil
}

func (r *ring) head(n int) string {
	r.mu.Lock()
	defer r.mu.Unlock()
	s := string(r.buf)
	// the panic message is at the start of the goroutine dump
	if i := strings.Index(s, "panic:"); i >= 0 {
		s = s[i:]
	}
	if len(s) > n {
		s = s[:n]
	}
	return s
}

type child struct {
	cmd    *exec.Cmd
	stdin  io.WriteCloser
	stderr *ring
	exited chan struct{}
	conn   *grpc.ClientConn
	pub    pubsubpb.PublisherClient
	sub    pubsubpb.SubscriberClient
	dbFile string
	db     *sql.DB
	rconn  *sql.Conn // dedicated connection with the pristine file attached
	w      *world.World
}

type worker struct {
	id       int
	dir      string
	self     string
	pristine string
	pdump    string
	st       *PreState
	tbl      *Table
	ch       *child
	nchild   int
	restarts int
}

func (wk *worker) startChild(ctx context.Context) error {
	var lastErr error
	for attempt := 0; attempt < 4; attempt++ {
		ch, err := wk.startOnce(ctx)
		if err == nil {
			wk.ch = ch
			return nil
		}
		lastErr = err
	}
	return fmt.Errorf("cannot start server process: %w", lastErr)
}

func (wk *worker) startOnce(ctx context.Context) (*child, error) {
	wk.nchild++
	dbFile := filepath.Join(wk.dir, fmt.Sprintf("w%d_c%d.sqlite3", wk.id, wk.nchild))
	b, err := os.ReadFile(wk.pristine)
	if err != nil {
		return nil, err
	}
	if err := os.WriteFile(dbFile, b, 0o644); err != nil {
		return nil, err
	}
	cmd := exec.Command(wk.self, "-mode", "serverproc", "-db", dbFile)
	cmd.SysProcAttr = &syscall.SysProcAttr{Pdeathsig: syscall.SIGKILL}
	cmd.Env = append(os.Environ(), "GOTRACEBACK=single")
	stdin, err := cmd.StdinPipe()
	if err != nil {
		return nil, err
	}
	stdout, err := cmd.StdoutPipe()
	if err != nil {
		return nil, err
	}
	ch := &child{cmd: cmd, stdin: stdin, stderr: &ring{}, exited: make(chan struct{}), dbFile: dbFile}
	cmd.Stderr = ch.stderr
	if err := cmd.Start(); err != nil {
		return nil, err
	}
	portc := make(chan int, 1)
	go func() {
		sc := bufio.NewScanner(stdout)
		for sc.Scan() {
			if strings.HasPrefix(sc.Text(), "READY ") {
				p, _ := strconv.Atoi(strings.TrimPrefix(sc.Text(), "READY "))
				portc <- p
			}
		}
		_ = cmd.Wait()
		close(ch.exited)
	}()
	var port int
	select {
	case port = <-portc:
	case <-ch.exited:
		return nil, fmt.Errorf("server process exited during start: %s", ch.stderr.head(2000))
	case <-time.After(30 * time.Second):
		ch.kill()
		return nil, errors.New("server process did not become ready")
	}
	ch.conn, err = grpc.NewClient(fmt.Sprintf("127.0.0.1:%d", port), grpc.WithTransportCredentials(insecure.NewCredentials()))
	if err != nil {
		ch.kill()
		return nil, err
	}
	ch.pub = pubsubpb.NewPublisherClient(ch.conn)
	ch.sub = pubsubpb.NewSubscriberClient(ch.conn)
	pctx, cancel := context.WithTimeout(ctx, 20*time.Second)
	_, err = ch.pub.GetTopic(pctx, &pubsubpb.GetTopicRequest{Topic: wk.st.T1}, grpc.WaitForReady(true))
	cancel()
	if err != nil {
		ch.kill()
		return nil, fmt.Errorf("server process does not answer the first probe: %w", err)
	}
	// the parent's own view of the database file
	ch.db, err = sql.Open("sqlite3", db.SQLiteDSN(strings.TrimSuffix(dbFile, ".sqlite3"), true, false))
	if err != nil {
		ch.kill()
		return nil, err
	}
	ch.db.SetMaxOpenConns(2)
	ch.w = &world.World{DB: ch.db}
	ch.rconn, err = ch.db.Conn(ctx)
	if err != nil {
		ch.kill()
		return nil, err
	}
	if _, err := ch.rconn.ExecContext(ctx, "ATTACH DATABASE ? AS pristine", "file:"+wk.pristine+"?mode=ro"); err != nil {
		ch.kill()
		return nil, fmt.Errorf("attach: %w", err)
	}
	d, err := ch.w.Dump(ctx)
	if err != nil {
		ch.kill()
		return nil, err
	}
	if d != wk.pdump {
		ch.kill()
		return nil, errors.New("fresh copy of the pre-state differs from the pristine dump")
	}
	return ch, nil
}

func (ch *child) kill() {
	if ch.conn != nil {
		_ = ch.conn.Close()
	}
	if ch.rconn != nil {
		_ = ch.rconn.Close()
	}
	if ch.db != nil {
		_ = ch.db.Close()
	}
	_ = ch.stdin.Close()
	if ch.cmd.Process != nil {
		_ = ch.cmd.Process.Kill()
	}
	select {
	case <-ch.exited:
	case <-time.After(5 * time.Second):
	}
	for _, sfx := range []string{"", "-wal", "-shm"} {
		_ = os.Remove(ch.dbFile + sfx)
	}
}

func (ch *child) hasExited(wait time.Duration) bool {
	select {
	case <-ch.exited:
		return true
	default:
	}
	if wait <= 0 {
		return false
	}
	select {
	case <-ch.exited:
		return true
	case <-time.After(wait):
		return false
	}
}

var tables = []string{"deliveries", "messages", "snapshots", "subscriptions", "topics"}

func (wk *worker) restore(ctx context.Context) error {
	c := wk.ch.rconn
	tx, err := c.BeginTx(ctx, nil)
	if err != nil {
		return err
	}
	defer func() { _ = tx.Rollback() }()
	if _, err := tx.ExecContext(ctx, "PRAGMA defer_foreign_keys = ON"); err != nil {
		return err
	}
	for _, t := range tables {
		if _, err := tx.ExecContext(ctx, "DELETE FROM main."+t); err != nil {
			return fmt.Errorf("restore delete %s: %w", t, err)
		}
	}
	for i := len(tables) - 1; i >= 0; i-- {
		t := tables[i]
		if _, err := tx.ExecContext(ctx, "INSERT INTO main."+t+" SELECT * FROM pristine."+t); err != nil {
			return fmt.Errorf("restore insert %s: %w", t, err)
		}
	}
	if err := tx.Commit(); err != nil {
		return err
	}
	d, err := wk.ch.w.Dump(ctx)
	if err != nil {
		return err
	}
	if d != wk.pdump {
		return errors.New("restored state differs from the pristine dump")
	}
	return nil
}

func (wk *worker) probe(ctx context.Context) bool {
	pctx, cancel := context.WithTimeout(ctx, deadline)
	defer cancel()
	_, err := wk.ch.pub.GetTopic(pctx, &pubsubpb.GetTopicRequest{Topic: wk.st.T1})
	if err != nil {
		return false
	}
	// a write through the server must still be possible too (no leaked lock);
	// a rejected update (immutable path) opens and rolls back a transaction
	_, err = wk.ch.sub.UpdateSubscription(pctx, &pubsubpb.UpdateSubscriptionRequest{
		Subscription: &pubsubpb.Subscription{Name: wk.st.S1}, UpdateMask: &fieldmaskpb.FieldMask{Paths: []string{"name"}}})
	return status.Code(err) == codes.InvalidArgument
}

func diffSummary(a, b string) string {
	al, bl := strings.Split(a, "\n"), strings.Split(b, "\n")
	am := map[string]bool{}
	for _, l := range al {
		am[l] = true
	}
	bm := map[string]bool{}
	for _, l := range bl {
		bm[l] = true
	}
	cnt := map[string][2]int{}
	ex := ""
	for _, l := range al {
		if !bm[l] {
			t := strings.SplitN(l, "|", 2)[0]
			c := cnt[t]
			c[0]++
			cnt[t] = c
		}
	}
	for _, l := range bl {
		if !am[l] {
			t := strings.SplitN(l, "|", 2)[0]
			c := cnt[t]
			c[1]++
			cnt[t] = c
			if ex == "" {
				ex = l
			}
		}
	}
	var parts []string
	for t, c := range cnt {
		parts = append(parts, fmt.Sprintf("%s:-%d+%d", t, c[0], c[1]))
	}
	sort.Strings(parts)
	if len(ex) > 300 {
		ex = ex[:300]
	}
	return strings.Join(parts, ",") + " e.g. " + ex
}

func isLongPoll(t *Table, rpc string) bool {
	for _, r := range t.LongPoll {
		if r == rpc {
			return true
		}
	}
	return false
}

// exec1 sends one vector and classifies the outcome.
func (wk *worker) exec1(ctx context.Context, v Vec) (Result, error) {
	res := Result{I: v.I, RPC: v.RPC, F: v.F}
	cl, err := build(v, wk.st)
	if err != nil {
		return res, err
	}
	if wk.ch == nil {
		if err := wk.startChild(ctx); err != nil {
			return res, err
		}
	}
	ch := wk.ch
	t0 := time.Now()
	rctx, cancel := context.WithTimeout(ctx, deadline)
	var rerr error
	if cl.stream {
		rerr = streamingPull(rctx, ch.sub, cl.req.(*pubsubpb.StreamingPullRequest), cl.session)
	} else {
		rerr = cl.unary(rctx, ch.pub, ch.sub)
	}
	cancel()
	res.Ms = float64(time.Since(t0).Microseconds()) / 1000
	code := status.Code(rerr)
	res.Code = code.String()
	if rerr != nil {
		res.Msg = rerr.Error()
		if len(res.Msg) > 300 {
			res.Msg = res.Msg[:300]
		}
	}
	describe := func() {
		res.Req = string(cl.req.ProtoReflect().Descriptor().Name()) + " { " + prototext.MarshalOptions{}.Format(cl.req) + " }"
	}
	// crash?
	wait := time.Duration(0)
	if code == codes.Unavailable || code == codes.Internal || code == codes.Unknown || code == codes.Canceled {
		wait = 1500 * time.Millisecond
		if code != codes.Unavailable {
			wait = 50 * time.Millisecond
		}
	}
	if cl.stream && wait < 100*time.Millisecond {
		// a stream's work runs in goroutines of its own: the process may die during
		// or right after the session
		wait = 100 * time.Millisecond
	}
	if ch.hasExited(wait) {
		res.Outcome, res.Code = "crash", ""
		res.Stderr = ch.stderr.head(1500)
		describe()
		ch.kill()
		wk.ch = nil
		wk.restarts++
		return res, nil
	}
	if code == codes.DeadlineExceeded {
		ok := wk.probe(ctx)
		if !isLongPoll(wk.tbl, v.RPC) || !ok {
			res.Outcome = "wedge"
			res.Msg += fmt.Sprintf(" (probe answered: %v)", ok)
			describe()
			ch.kill()
			wk.ch = nil
			wk.restarts++
			return res, nil
		}
	}
	res.Outcome = "status"
	if code != codes.OK && code != codes.InvalidArgument && code != codes.NotFound && code != codes.AlreadyExists &&
		code != codes.Unimplemented && code != codes.DeadlineExceeded {
		// an unusual status: make sure the server is still serving
		if !wk.probe(ctx) {
			if ch.hasExited(time.Second) {
				res.Outcome, res.Stderr = "crash", ch.stderr.head(1500)
			} else {
				res.Outcome = "wedge"
				res.Msg += " (server stopped answering after this request)"
			}
			describe()
			ch.kill()
			wk.ch = nil
			wk.restarts++
			return res, nil
		}
	}
	d, err := ch.w.Dump(ctx)
	if err != nil {
		return res, fmt.Errorf("dump: %w", err)
	}
	if d != wk.pdump {
		res.Changed = true
		if code != codes.OK {
			res.Diff = diffSummary(wk.pdump, d)
			describe()
		}
		if err := wk.restore(ctx); err != nil {
			// restart on a fresh copy rather than giving up
			ch.kill()
			wk.ch = nil
			wk.restarts++
			if code == codes.OK {
				return res, nil
			}
			return res, nil
		}
	}
	if ch.hasExited(0) {
		// died right after answering (e.g. a panic in a background goroutine)
		res.Outcome, res.Code = "crash", ""
		res.Stderr = ch.stderr.head(1500)
		describe()
		ch.kill()
		wk.ch = nil
		wk.restarts++
	}
	return res, nil
}

// sessionOpen is how long a "kept open" StreamingPull session reads responses
const sessionOpen = 300 * time.Millisecond

// streamingPull sends the first message of a stream and waits for the first
// answer: a terminal status, or a response. Session "first": the stream is
// then closed from the client side at once; "open_noack" / "open_ack": it is
// kept open for sessionOpen, reading responses (and, for open_ack,
// acknowledging them on the stream), and then closed. In every case the
// stream is drained after the close, so the handler has returned before the
// tables are read. The caller decides about crash / wedge afterwards.
func streamingPull(ctx context.Context, sub pubsubpb.SubscriberClient, first *pubsubpb.StreamingPullRequest, session string) error {
	cctx, cancel := context.WithCancel(ctx)
	defer cancel()
	stream, err := sub.StreamingPull(cctx)
	if err != nil {
		return err
	}
	if err := stream.Send(first); err != nil && !errors.Is(err, io.EOF) {
		return err
	}
	resp, err := stream.Recv()
	if err != nil {
		if errors.Is(err, io.EOF) {
			return nil
		}
		return err
	}
	type item struct {
		r   *pubsubpb.StreamingPullResponse
		err error
	}
	items := make(chan item, 16)
	go func() {
		for {
			r, err := stream.Recv()
			items <- item{r, err}
			if err != nil {
				return
			}
		}
	}()
	ack := func(r *pubsubpb.StreamingPullResponse) {
		if session != "open_ack" || r == nil {
			return
		}
		var ids []string
		for _, m := range r.ReceivedMessages {
			ids = append(ids, m.AckId)
		}
		if len(ids) != 0 {
			_ = stream.Send(&pubsubpb.StreamingPullRequest{AckIds: ids})
		}
	}
	ended := false
	if session != "first" {
		ack(resp)
		timer := time.After(sessionOpen)
	open:
		for {
			select {
			case it := <-items:
				if it.err != nil {
					ended = true
					if status.Code(it.err) == codes.DeadlineExceeded {
						return it.err
					}
					break open
				}
				ack(it.r)
			case <-timer:
				break open
			}
		}
	}
	if ended {
		// whatever ended the established stream, the request itself was answered OK
		return nil
	}
	_ = stream.CloseSend()
	for it := range items {
		if it.err != nil {
			if status.Code(it.err) == codes.DeadlineExceeded {
				return it.err
			}
			return nil
		}
	}
	return nil
}

// ---------------------------------------------------------------- run

type runner struct {
	ctx      context.Context
	workers  []*worker
	cache    map[string]Result
	mu       sync.Mutex
	toolErr  error
	restarts int
	nocache  bool
}

func (r *runner) runBatch(vs []Vec) []Result {
	out := make([]Result, len(vs))
	jobs := make(chan int)
	var wg sync.WaitGroup
	for _, wk := range r.workers {
		wg.Add(1)
		go func(wk *worker) {
			defer wg.Done()
			for i := range jobs {
				r.mu.Lock()
				if c, ok := r.cache[vs[i].key()]; ok && !r.nocache {
					c.I = vs[i].I
					out[i] = c
					r.mu.Unlock()
					continue
				}
				failed := r.toolErr != nil
				r.mu.Unlock()
				if failed {
					continue
				}
				res, err := wk.exec1(r.ctx, vs[i])
				r.mu.Lock()
				if err != nil && r.toolErr == nil {
					r.toolErr = fmt.Errorf("vector %s: %w", vs[i].key(), err)
				}
				if err == nil {
					r.cache[vs[i].key()] = res
				}
				r.mu.Unlock()
				out[i] = res
			}
		}(wk)
	}
	for i := range vs {
		jobs <- i
	}
	close(jobs)
	wg.Wait()
	return out
}

func clauseOf(res Result) string {
	switch {
	case res.Outcome == "crash":
		return "crash"
	case res.Outcome == "wedge":
		return "wedge"
	case res.Outcome == "status" && res.Code != "OK" && res.Changed:
		return "error-changed-state"
	}
	return ""
}

func deviations(t *Table, v Vec) []string {
	var d []string
	for k, c := range v.F {
		if t.Valid[v.RPC][k] != c {
			d = append(d, k)
		}
	}
	sort.Strings(d)
	return d
}

func withDev(t *Table, v Vec, fields []string) Vec {
	f := map[string]string{}
	for k, c := range t.Valid[v.RPC] {
		f[k] = c
	}
	for _, k := range fields {
		f[k] = v.F[k]
	}
	return Vec{I: -1, RPC: v.RPC, F: f}
}

func sigOf(v Vec, fields []string) string {
	// the outcome of a stream depends on how long the session is kept: the session
	// class is always part of a StreamingPull signature
	if _, ok := v.F["session"]; ok {
		has := false
		for _, k := range fields {
			has = has || k == "session"
		}
		if !has {
			fields = append(append([]string(nil), fields...), "session")
			sort.Strings(fields)
		}
	}
	if len(fields) == 0 {
		return v.RPC + ".(valid request)"
	}
	var parts []string
	for _, k := range fields {
		parts = append(parts, k+"="+v.F[k])
	}
	return v.RPC + "." + strings.Join(parts, "+")
}

// minimise attributes every violating result to the smallest set(s) of
// deviating fields that reproduce the same kind of violation on their own.
func (r *runner) minimise(t *Table, results []Result) {
	for idx := range results {
		res := &results[idx]
		cl := clauseOf(*res)
		if cl == "" {
			continue
		}
		v := Vec{RPC: res.RPC, F: res.F}
		dev := deviations(t, v)
		if len(dev) <= 1 {
			res.Sig = []string{sigOf(v, dev)}
			res.Min = []Vec{withDev(t, v, dev)}
			continue
		}
		found := false
		for size := 1; size <= 2 && !found; size++ {
			var cands [][]string
			if size == 1 {
				for _, k := range dev {
					cands = append(cands, []string{k})
				}
			} else {
				for i := range dev {
					for j := i + 1; j < len(dev); j++ {
						cands = append(cands, []string{dev[i], dev[j]})
					}
				}
			}
			vs := make([]Vec, len(cands))
			for i, c := range cands {
				vs[i] = withDev(t, v, c)
			}
			rs := r.runBatch(vs)
			for i, x := range rs {
				if clauseOf(x) == cl {
					res.Sig = append(res.Sig, sigOf(v, cands[i]))
					res.Min = append(res.Min, vs[i])
					found = true
				}
			}
		}
		if !found {
			// no sub-vector reproduces it: is the vector itself reproducible?
			r.nocache = true
			again := r.runBatch([]Vec{v, v, v})
			r.nocache = false
			repro := false
			for _, x := range again {
				if clauseOf(x) == cl {
					repro = true
				}
			}
			res.Min = []Vec{v}
			if repro {
				res.Sig = []string{sigOf(v, dev)}
			} else {
				// timing dependent (e.g. a stream whose first message is rejected while the
				// sender goroutine already works): structural signature = RPC + what changed
				what := ""
				if cl == "error-changed-state" {
					var tabs []string
					for _, part := range strings.Split(strings.SplitN(res.Diff, " ", 2)[0], ",") {
						tabs = append(tabs, strings.SplitN(part, ":", 2)[0])
					}
					what = ":" + strings.Join(tabs, "+")
				}
				res.Sig = []string{v.RPC + ".~timing-dependent" + what}
			}
		}
	}
}

func run(tablePath, vecPath, outPath, scratch string, nworkers int) int {
	ctx := context.Background()
	fail := func(err error) int {
		fmt.Fprintln(os.Stderr, "rpcfuzz:", err)
		return 2
	}
	var tbl Table
	b, err := os.ReadFile(tablePath)
	if err != nil {
		return fail(err)
	}
	if err := json.Unmarshal(b, &tbl); err != nil {
		return fail(err)
	}
	f, err := os.Open(vecPath)
	if err != nil {
		return fail(err)
	}
	var vs []Vec
	sc := bufio.NewScanner(f)
	sc.Buffer(make([]byte, 1<<20), 1<<26)
	for sc.Scan() {
		if len(sc.Bytes()) == 0 {
			continue
		}
		var v Vec
		if err := json.Unmarshal(sc.Bytes(), &v); err != nil {
			return fail(err)
		}
		vs = append(vs, v)
	}
	f.Close()
	st, pristine, err := buildPreState(ctx, scratch)
	if err != nil {
		return fail(fmt.Errorf("pre-state: %w", err))
	}
	pdb, err := sql.Open("sqlite3", db.SQLiteDSN(strings.TrimSuffix(pristine, ".sqlite3"), true, false))
	if err != nil {
		return fail(err)
	}
	pdump, err := (&world.World{DB: pdb}).Dump(ctx)
	pdb.Close()
	if err != nil {
		return fail(err)
	}
	for _, sfx := range []string{"-wal", "-shm"} {
		_ = os.Remove(pristine + sfx)
	}
	self, err := os.Executable()
	if err != nil {
		return fail(err)
	}
	r := &runner{ctx: ctx, cache: map[string]Result{}}
	for i := 0; i < nworkers; i++ {
		r.workers = append(r.workers, &worker{id: i, dir: scratch, self: self, pristine: pristine, pdump: pdump, st: st, tbl: &tbl})
	}
	defer func() {
		for _, wk := range r.workers {
			if wk.ch != nil {
				wk.ch.kill()
			}
		}
	}()
	t0 := time.Now()
	results := r.runBatch(vs)
	if r.toolErr != nil {
		return fail(r.toolErr)
	}
	mainWall := time.Since(t0)
	r.minimise(&tbl, results)
	if r.toolErr != nil {
		return fail(r.toolErr)
	}
	out, err := os.Create(outPath)
	if err != nil {
		return fail(err)
	}
	wr := bufio.NewWriter(out)
	enc := json.NewEncoder(wr)
	for _, res := range results {
		if err := enc.Encode(res); err != nil {
			return fail(err)
		}
	}
	wr.Flush()
	out.Close()
	restarts := 0
	for _, wk := range r.workers {
		restarts += wk.restarts
	}
	sum := map[string]any{"vectors": len(vs), "executed": len(r.cache), "restarts": restarts,
		"main_wall_s": mainWall.Seconds(), "wall_s": time.Since(t0).Seconds(), "prestate": st, "pristine_rows": strings.Count(pdump, "\n")}
	sb, _ := json.Marshal(sum)
	_ = os.WriteFile(outPath+".summary.json", sb, 0o644)
	return 0
}

func main() {
	mode := flag.String("mode", "run", "run | serverproc")
	dbFile := flag.String("db", "", "serverproc: SQLite file")
	table := flag.String("table", "", "run: TABLE json printed by TLC (classes, valid, longpoll)")
	vectors := flag.String("vectors", "", "run: ndjson of request vectors")
	out := flag.String("out", "", "run: results ndjson")
	scratch := flag.String("scratch", os.TempDir(), "scratch directory")
	workers := flag.Int("workers", 8, "parallel server processes")
	flag.Parse()
	switch *mode {
	case "serverproc":
		os.Exit(serverproc(*dbFile))
	case "run":
		os.Exit(run(*table, *vectors, *out, *scratch, *workers))
	}
	fmt.Fprintln(os.Stderr, "unknown mode")
	os.Exit(2)
}
