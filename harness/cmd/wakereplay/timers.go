package main

import (
	"context"
	"fmt"
	"time"

	"google.golang.org/protobuf/types/known/durationpb"

	"go.6river.tech/mmmbbb/actions"
	"go.6river.tech/mmmbbb/grpc/pubsubpb"

	"go.6river.tech/mmmbbb/verifharness/world"
)

// Timer sessions (C10, "without waiting for its own timeout or an unrelated retry timer"): a
// message can also become deliverable with NO writer at all - when the retention of the ordered
// predecessor it is blocked behind runs out. Only the waiting pull's own timer can notice that;
// it must be armed for that instant, not for the predecessor's (much later) retry time.
//
//	ordered subscription, retention 3 s, backoff 20 s; m1 and m2 share a key; m1 is delivered and
//	never acknowledged (next attempt in 20 s), m2 is published 1.5 s later (so it outlives m1);
//	a pull waits. When m1's retention ends (about 1.5 s into the wait) m2 must be handed out
//	within the barrier.
func timerSession(scratch string, i int) result {
	res := result{ID: fmt.Sprintf("timer-expiry-%d", i), Kinds: map[string]string{"x1": "timer-expiry"}, Status: "ok"}
	ctx, cancel := context.WithTimeout(context.Background(), 60*time.Second)
	defer cancel()
	w, err := world.New(ctx, scratch)
	if err != nil {
		return result{ID: res.ID, Status: "error", Msg: err.Error()}
	}
	defer w.Close()
	cctx := world.ActorCtx(ctx, "setup")
	fail := func(st, msg string) result { res.Status, res.Msg = st, msg; return res }
	topic, sub := "projects/pw/topics/tt", "projects/pw/subscriptions/ts"
	if _, err := w.Pub.CreateTopic(cctx, &pubsubpb.Topic{Name: topic}); err != nil {
		return fail("error", err.Error())
	}
	if _, err := w.Sub.CreateSubscription(cctx, &pubsubpb.Subscription{Name: sub, Topic: topic, EnableMessageOrdering: true,
		MessageRetentionDuration: durationpb.New(3 * time.Second),
		RetryPolicy:              &pubsubpb.RetryPolicy{MinimumBackoff: durationpb.New(20 * time.Second)}}); err != nil {
		return fail("error", err.Error())
	}
	pub := func() error {
		_, err := w.Pub.Publish(cctx, &pubsubpb.PublishRequest{Topic: topic, Messages: []*pubsubpb.PubsubMessage{{Data: []byte(`{"t":1}`), OrderingKey: "k"}}})
		return err
	}
	if err := pub(); err != nil {
		return fail("error", err.Error())
	}
	t1 := time.Now()
	resp, err := w.Sub.Pull(cctx, &pubsubpb.PullRequest{Subscription: sub, MaxMessages: 10, ReturnImmediately: true}) // nolint
	if err != nil || len(resp.ReceivedMessages) != 1 {
		return fail("error", fmt.Sprintf("timer precondition: first pull %v %v", resp, err))
	}
	time.Sleep(1500 * time.Millisecond)
	if err := pub(); err != nil {
		return fail("error", err.Error())
	}
	subs, err := w.Client.Subscription.Query().All(ctx)
	if err != nil || len(subs) != 1 {
		return fail("error", "subscription lookup")
	}
	a := actions.NewGetSubscriptionMessages(actions.GetSubscriptionMessagesParams{
		Name: sub, MaxMessages: 10, MaxBytes: 1 << 20, MaxWait: 30 * time.Second})
	done := make(chan error, 1)
	go func() { done <- a.ExecuteClient(world.ActorCtx(ctx, "waiter"), w.Client) }()
	expiry := t1.Add(3 * time.Second)
	select {
	case err := <-done:
		if err != nil {
			return fail("error", "waiter: "+err.Error())
		}
		r, _ := a.Results()
		if time.Now().Before(expiry.Add(-300*time.Millisecond)) || len(r.Deliveries) != 1 {
			n := len(r.Deliveries)
			return fail("drift", fmt.Sprintf("waiter returned %d deliveries %s before the predecessor's retention ended", n, time.Until(expiry)))
		}
		return res
	case <-time.After(time.Until(expiry) + barrier + time.Second):
		res.Clause, res.Detail = "C10:lost-wakeup", "timer-expiry"
		return fail("violation", fmt.Sprintf("the waiting pull did not hand out the successor within %s of the end of the predecessor's retention (its own timer must be armed for that instant)", barrier+time.Second))
	}
}
