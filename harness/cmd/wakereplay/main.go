// wakereplay replays TLC-generated schedules of spec/Wake.tla on the real code
// (C10): waiters are actions.GetSubscriptionMessages.ExecuteClient (the code
// behind Pull), writers are real API operations of several kinds; the order of
// their transactions and of the in-memory steps between them is imposed with
// transaction-boundary gates (package gate). After the schedule, a waiter that
// the specification says has been handed a message must have returned within
// the quiescence barrier.
//
//	wakereplay -schedules s.ndjson -out results.ndjson [-seed S] [-scratch DIR] [-shard i/n]
package main

import (
	"bufio"
	"context"
	"encoding/json"
	"flag"
	"fmt"
	"os"
	"sort"
	"strings"
	"sync"
	"time"

	"github.com/google/uuid"
	"google.golang.org/protobuf/types/known/durationpb"
	"google.golang.org/protobuf/types/known/fieldmaskpb"
	"google.golang.org/protobuf/types/known/timestamppb"

	"go.6river.tech/mmmbbb/actions"
	"go.6river.tech/mmmbbb/grpc/pubsubpb"

	"go.6river.tech/mmmbbb/verifharness/gate"
	"go.6river.tech/mmmbbb/verifharness/world"
)

type step struct {
	A    string `json:"a"`
	ID   string `json:"id"`
	Step string `json:"step"`
}
type schedule struct {
	ID       string              `json:"id"`
	Steps    []step              `json:"steps"`
	Returned map[string]bool     `json:"returned"`
	WSub     map[string]string   `json:"wsub"`
	Targets  map[string][]string `json:"targets"`
	Kinds    map[string]string   `json:"kinds,omitempty"` // fixed writer kinds (replay)
}
type result struct {
	ID     string            `json:"id"`
	Kinds  map[string]string `json:"kinds"`
	Status string            `json:"status"` // ok | violation | drift | error
	Clause string            `json:"clause,omitempty"`
	Detail string            `json:"detail,omitempty"`
	Msg    string            `json:"msg,omitempty"`
}

const barrier = 2 * time.Second
const stepTimeout = 5 * time.Second

var allKinds = []string{"publish", "modack0", "seek", "ackpred", "dlforward", "seeksnap", "dlpred"}

func main() {
	schedF := flag.String("schedules", "", "")
	outF := flag.String("out", "", "")
	seed := flag.Int64("seed", 1, "")
	scratch := flag.String("scratch", os.TempDir(), "")
	shard := flag.String("shard", "0/1", "")
	timers := flag.Int("timers", 0, "run this many timer sessions (no schedules) and write their results")
	flag.Parse()
	if *timers > 0 {
		out, err := os.Create(*outF)
		if err != nil {
			fmt.Fprintln(os.Stderr, err)
			os.Exit(2)
		}
		defer out.Close()
		ch := make(chan result, *timers)
		for i := 0; i < *timers; i++ {
			go func(i int) { ch <- timerSession(*scratch, i) }(i)
		}
		for i := 0; i < *timers; i++ {
			b, _ := json.Marshal(<-ch)
			out.Write(append(b, '\n'))
		}
		return
	}
	var si, sn int
	fmt.Sscanf(*shard, "%d/%d", &si, &sn)
	f, err := os.Open(*schedF)
	if err != nil {
		fmt.Fprintln(os.Stderr, err)
		os.Exit(2)
	}
	out, err := os.Create(*outF)
	if err != nil {
		fmt.Fprintln(os.Stderr, err)
		os.Exit(2)
	}
	defer out.Close()
	sc := bufio.NewScanner(f)
	sc.Buffer(make([]byte, 1<<20), 1<<26)
	n := 0
	for sc.Scan() {
		if len(sc.Bytes()) == 0 {
			continue
		}
		n++
		if (n-1)%sn != si {
			continue
		}
		var s schedule
		if err := json.Unmarshal(sc.Bytes(), &s); err != nil {
			fmt.Fprintln(os.Stderr, "bad schedule:", err)
			os.Exit(2)
		}
		r := replay(&s, *seed+int64(n), *scratch)
		b, _ := json.Marshal(r)
		out.Write(append(b, '\n'))
	}
}

type subState struct {
	real string
	id   uuid.UUID
}

type run struct {
	w     *world.World
	g     *gate.Sched
	ctx   context.Context
	subs  map[string]*subState // model sub -> real
	topic string               // topic of the waiters' subscriptions (T2)
	src   string               // source topic T1 (dead-letter source)
	seq   int
}

func (r *run) name(kind, n string) string { return fmt.Sprintf("projects/pw/%s/%s", kind, n) }

func (r *run) publish(topic, key string) (string, error) {
	r.seq++
	resp, err := r.w.Pub.Publish(r.ctx, &pubsubpb.PublishRequest{Topic: topic, Messages: []*pubsubpb.PubsubMessage{
		{Data: []byte(fmt.Sprintf(`{"n":%d}`, r.seq)), OrderingKey: key}}})
	if err != nil {
		return "", err
	}
	return resp.MessageIds[0], nil
}

func (r *run) pullAll(sub string) ([]*pubsubpb.ReceivedMessage, error) {
	resp, err := r.w.Sub.Pull(r.ctx, &pubsubpb.PullRequest{Subscription: sub, MaxMessages: 100, ReturnImmediately: true}) // nolint
	if err != nil {
		return nil, err
	}
	return resp.ReceivedMessages, nil
}

func (r *run) ack(sub string, ms []*pubsubpb.ReceivedMessage) error {
	if len(ms) == 0 {
		return nil
	}
	ids := []string{}
	for _, m := range ms {
		ids = append(ids, m.AckId)
	}
	_, err := r.w.Sub.Acknowledge(r.ctx, &pubsubpb.AcknowledgeRequest{Subscription: sub, AckIds: ids})
	return err
}

// drainOthers pulls and acknowledges everything deliverable on the waiters'
// subscriptions that are NOT in keep, so that a precondition publish does not
// make a message available where the specification says there is none.
func (r *run) drainOthers(keep map[string]bool) error {
	for m, s := range r.subs {
		if keep[m] {
			continue
		}
		ms, err := r.pullAll(s.real)
		if err != nil {
			return err
		}
		if err := r.ack(s.real, ms); err != nil {
			return err
		}
	}
	return nil
}

type writer struct {
	kind    string
	targets []string
	act     func(ctx context.Context) error
}

func compatible(kind string, targets []string, allSubs []string) bool {
	sort.Strings(targets)
	switch kind {
	case "publish", "dlforward":
		return strings.Join(targets, ",") == strings.Join(allSubs, ",")
	case "modack0":
		return true
	default: // single-subscription writers
		return len(targets) == 1
	}
}

func replay(s *schedule, seed int64, scratch string) (res result) {
	res = result{ID: s.ID, Kinds: map[string]string{}, Status: "ok"}
	ctx, cancel := context.WithTimeout(context.Background(), 60*time.Second)
	defer cancel()
	w, err := world.New(ctx, scratch)
	if err != nil {
		return result{ID: s.ID, Status: "error", Msg: err.Error()}
	}
	defer w.Close()
	r := &run{w: w, ctx: world.ActorCtx(ctx, "setup"), subs: map[string]*subState{}}
	fail := func(st, msg string) result {
		res.Status, res.Msg = st, msg
		return res
	}

	// topology: T1 --(s0, dead-letter after 1 attempt)--> T2 ; the waiters' subscriptions are ordered subscriptions of T2
	r.src, r.topic = r.name("topics", "t1"), r.name("topics", "t2")
	for _, t := range []string{r.src, r.topic} {
		if _, err := w.Pub.CreateTopic(r.ctx, &pubsubpb.Topic{Name: t}); err != nil {
			return fail("error", err.Error())
		}
	}
	subset := map[string]bool{}
	for _, m := range s.WSub {
		subset[m] = true
	}
	for _, ts := range s.Targets {
		for _, m := range ts {
			subset[m] = true
		}
	}
	var allSubs []string
	for m := range subset {
		allSubs = append(allSubs, m)
	}
	sort.Strings(allSubs)
	for _, m := range allSubs {
		real := r.name("subscriptions", m)
		if _, err := w.Sub.CreateSubscription(r.ctx, &pubsubpb.Subscription{Name: real, Topic: r.topic, EnableMessageOrdering: true,
			RetryPolicy: &pubsubpb.RetryPolicy{MinimumBackoff: durationpb.New(20 * time.Second)}}); err != nil {
			return fail("error", err.Error())
		}
		ent, err := w.Client.Subscription.Query().All(ctx)
		if err != nil {
			return fail("error", err.Error())
		}
		for _, e := range ent {
			if e.Name == real {
				r.subs[m] = &subState{real: real, id: e.ID}
			}
		}
	}
	s0 := r.name("subscriptions", "s0")
	if _, err := w.Sub.CreateSubscription(r.ctx, &pubsubpb.Subscription{Name: s0, Topic: r.src,
		DeadLetterPolicy: &pubsubpb.DeadLetterPolicy{DeadLetterTopic: r.topic, MaxDeliveryAttempts: 1},
		RetryPolicy:      &pubsubpb.RetryPolicy{MinimumBackoff: durationpb.New(20 * time.Second)}}); err != nil {
		return fail("error", err.Error())
	}

	// writers: choose a kind, establish its precondition, build its action
	var xs []string
	for x := range s.Targets {
		xs = append(xs, x)
	}
	sort.Strings(xs)
	writers := map[string]*writer{}
	for i, x := range xs {
		targets := append([]string{}, s.Targets[x]...)
		kind := s.Kinds[x]
		if kind == "" {
			var cands []string
			// a seek to a snapshot acknowledges whatever the snapshot does not hold: it would also
			// retire the message another writer prepared on the same subscription (the schedule's
			// premise "that writer's commit makes a message deliverable there" would be false)
			shared := false
			for y, ty := range s.Targets {
				if y == x {
					continue
				}
				for _, a := range ty {
					for _, b := range targets {
						if a == b {
							shared = true
						}
					}
				}
			}
			for _, k := range allKinds {
				if (k == "seeksnap" || k == "dlpred") && shared {
					continue
				}
				if compatible(k, append([]string{}, targets...), allSubs) {
					cands = append(cands, k)
				}
			}
			kind = cands[int(seed+int64(i)*7)%len(cands)]
		}
		res.Kinds[x] = kind
		wr := &writer{kind: kind, targets: targets}
		keep := map[string]bool{}
		for _, t := range targets {
			keep[t] = true
		}
		switch kind {
		case "publish":
			wr.act = func(c context.Context) error {
				_, err := w.Pub.Publish(c, &pubsubpb.PublishRequest{Topic: r.topic, Messages: []*pubsubpb.PubsubMessage{{Data: []byte(`{"w":"` + x + `"}`), OrderingKey: "p" + x}}})
				return err
			}
		case "modack0":
			if _, err := r.publish(r.topic, "m"+x); err != nil {
				return fail("error", err.Error())
			}
			if err := r.drainOthers(keep); err != nil {
				return fail("error", err.Error())
			}
			var ids []string
			for _, t := range targets {
				ms, err := r.pullAll(r.subs[t].real) // leased for >= 20 s
				if err != nil || len(ms) != 1 {
					return fail("error", fmt.Sprintf("modack0 precondition: pull on %s returned %d messages, %v", t, len(ms), err))
				}
				ids = append(ids, ms[0].AckId)
			}
			first := r.subs[targets[0]].real
			wr.act = func(c context.Context) error {
				_, err := w.Sub.ModifyAckDeadline(c, &pubsubpb.ModifyAckDeadlineRequest{Subscription: first, AckIds: ids, AckDeadlineSeconds: 0})
				return err
			}
		case "seek":
			t := r.subs[targets[0]].real
			if _, err := r.publish(r.topic, "s"+x); err != nil {
				return fail("error", err.Error())
			}
			for m, su := range r.subs { // consumed everywhere, so the seek revives it on the target only
				ms, err := r.pullAll(su.real)
				if err != nil || len(ms) != 1 {
					return fail("error", fmt.Sprintf("seek precondition on %s: %d, %v", m, len(ms), err))
				}
				if err := r.ack(su.real, ms); err != nil {
					return fail("error", err.Error())
				}
			}
			wr.act = func(c context.Context) error {
				_, err := w.Sub.Seek(c, &pubsubpb.SeekRequest{Subscription: t, Target: &pubsubpb.SeekRequest_Time{Time: timestamppb.New(time.Now().Add(-time.Hour))}})
				return err
			}
		case "ackpred":
			t := r.subs[targets[0]].real
			for j := 0; j < 2; j++ {
				if _, err := r.publish(r.topic, "k"+x); err != nil {
					return fail("error", err.Error())
				}
			}
			for m, su := range r.subs { // others: consume both, in order
				if keep[m] {
					continue
				}
				for j := 0; j < 2; j++ {
					ms, err := r.pullAll(su.real)
					if err != nil || len(ms) != 1 {
						return fail("error", fmt.Sprintf("ackpred precondition on %s: %d, %v", m, len(ms), err))
					}
					if err := r.ack(su.real, ms); err != nil {
						return fail("error", err.Error())
					}
				}
			}
			ms, err := r.pullAll(t) // the predecessor only; the successor is blocked behind it
			if err != nil || len(ms) != 1 {
				return fail("error", fmt.Sprintf("ackpred precondition: %d, %v", len(ms), err))
			}
			id := ms[0].AckId
			wr.act = func(c context.Context) error {
				_, err := w.Sub.Acknowledge(c, &pubsubpb.AcknowledgeRequest{Subscription: t, AckIds: []string{id}})
				return err
			}
		case "dlpred":
			// the predecessor of a blocked ordered message is DEAD-LETTERED (its attempt budget is used
			// up; a nack through the action layer, as the push path does) into a topic nobody listens to
			t := r.subs[targets[0]].real
			void := r.name("topics", "void-"+x)
			if _, err := w.Pub.CreateTopic(r.ctx, &pubsubpb.Topic{Name: void}); err != nil {
				return fail("error", err.Error())
			}
			if _, err := w.Sub.UpdateSubscription(r.ctx, &pubsubpb.UpdateSubscriptionRequest{
				Subscription: &pubsubpb.Subscription{Name: t, DeadLetterPolicy: &pubsubpb.DeadLetterPolicy{DeadLetterTopic: void, MaxDeliveryAttempts: 1}},
				UpdateMask:   &fieldmaskpb.FieldMask{Paths: []string{"dead_letter_policy"}}}); err != nil {
				return fail("error", err.Error())
			}
			for j := 0; j < 2; j++ {
				if _, err := r.publish(r.topic, "d"+x); err != nil {
					return fail("error", err.Error())
				}
			}
			for m, su := range r.subs { // others: consume both, in order
				if keep[m] {
					continue
				}
				for j := 0; j < 2; j++ {
					ms, err := r.pullAll(su.real)
					if err != nil || len(ms) != 1 {
						return fail("error", fmt.Sprintf("dlpred precondition on %s: %d, %v", m, len(ms), err))
					}
					if err := r.ack(su.real, ms); err != nil {
						return fail("error", err.Error())
					}
				}
			}
			ms, err := r.pullAll(t) // the predecessor only (attempt 1 = its whole budget); the successor is blocked
			if err != nil || len(ms) != 1 {
				return fail("error", fmt.Sprintf("dlpred precondition: %d, %v", len(ms), err))
			}
			id, perr := uuid.Parse(ms[0].AckId)
			if perr != nil {
				return fail("error", perr.Error())
			}
			wr.act = func(c context.Context) error {
				return w.Client.DoCtxTx(c, nil, actions.NewNackDeliveries(id).Execute)
			}
		case "seeksnap":
			// the predecessor of a blocked ordered message is acknowledged by a seek to a snapshot of a
			// SIBLING subscription in which it was already acknowledged (the seek only acks, it revives nothing)
			t := r.subs[targets[0]].real
			helper := r.name("subscriptions", "helper-"+x)
			if _, err := w.Sub.CreateSubscription(r.ctx, &pubsubpb.Subscription{Name: helper, Topic: r.topic,
				RetryPolicy: &pubsubpb.RetryPolicy{MinimumBackoff: durationpb.New(20 * time.Second)}}); err != nil {
				return fail("error", err.Error())
			}
			for j := 0; j < 2; j++ {
				if _, err := r.publish(r.topic, "q"+x); err != nil {
					return fail("error", err.Error())
				}
			}
			for m, su := range r.subs { // the other waiters' subscriptions consume both, in order
				if keep[m] {
					continue
				}
				for j := 0; j < 2; j++ {
					ms, err := r.pullAll(su.real)
					if err != nil || len(ms) != 1 {
						return fail("error", fmt.Sprintf("seeksnap precondition on %s: %d, %v", m, len(ms), err))
					}
					if err := r.ack(su.real, ms); err != nil {
						return fail("error", err.Error())
					}
				}
			}
			hm, err := r.pullAll(helper) // unordered: both; acknowledge only the first
			if err != nil || len(hm) != 2 {
				return fail("error", fmt.Sprintf("seeksnap precondition (helper): %d, %v", len(hm), err))
			}
			first := hm[0]
			if hm[1].Message.PublishTime.AsTime().Before(hm[0].Message.PublishTime.AsTime()) {
				first = hm[1]
			}
			if err := r.ack(helper, []*pubsubpb.ReceivedMessage{first}); err != nil {
				return fail("error", err.Error())
			}
			snap := r.name("snapshots", "snap-"+x)
			if _, err := w.Sub.CreateSnapshot(r.ctx, &pubsubpb.CreateSnapshotRequest{Name: snap, Subscription: helper}); err != nil {
				return fail("error", err.Error())
			}
			tm, err := r.pullAll(t) // the predecessor only; the successor is blocked behind it
			if err != nil || len(tm) != 1 {
				return fail("error", fmt.Sprintf("seeksnap precondition (target): %d, %v", len(tm), err))
			}
			wr.act = func(c context.Context) error {
				_, err := w.Sub.Seek(c, &pubsubpb.SeekRequest{Subscription: t, Target: &pubsubpb.SeekRequest_Snapshot{Snapshot: snap}})
				return err
			}
		case "dlforward":
			if _, err := r.publish(r.src, ""); err != nil {
				return fail("error", err.Error())
			}
			ms, err := r.pullAll(s0) // attempt 1 of 1
			if err != nil || len(ms) != 1 {
				return fail("error", fmt.Sprintf("dlforward precondition: %d, %v", len(ms), err))
			}
			id, _ := uuid.Parse(ms[0].AckId)
			wr.act = func(c context.Context) error { // a nack of a delivery that is over its budget dead-letters it
				return w.Client.DoCtxTx(c, nil, actions.NewNackDeliveries(id).Execute)
			}
		}
		writers[x] = wr
	}

	// actors
	r.g = gate.New()
	defer r.g.Stop()
	type wstate struct {
		done    chan struct{}
		waiting chan struct{}
		n       int
		err     error
	}
	ws := map[string]*wstate{}
	var wg sync.WaitGroup
	wctx, wcancel := context.WithCancel(ctx)
	defer wcancel()
	for wid, m := range s.WSub {
		st := &wstate{done: make(chan struct{}), waiting: make(chan struct{})}
		ws[wid] = st
		r.g.Add(wid)
		wg.Add(1)
		subReal := r.subs[m].real
		go func() {
			defer wg.Done()
			defer close(st.done)
			a := actions.NewGetSubscriptionMessages(actions.GetSubscriptionMessagesParams{
				Name: subReal, MaxMessages: 10, MaxBytes: 1 << 20, MaxWait: 30 * time.Second, Waiting: st.waiting})
			st.err = a.ExecuteClient(world.ActorCtx(wctx, wid), w.Client)
			if res, ok := a.Results(); ok {
				st.n = len(res.Deliveries)
			}
		}()
	}
	xdone := map[string]chan error{}
	isDone := func(c chan struct{}) func() bool {
		return func() bool {
			select {
			case <-c:
				return true
			default:
				return false
			}
		}
	}
	drift := func(msg string) result {
		for id := range ws {
			r.g.Free(id)
		}
		for id := range xdone {
			r.g.Free(id)
		}
		wcancel()
		wg.Wait()
		return fail("drift", msg)
	}
	for _, stp := range s.Steps {
		switch stp.A {
		case "w":
			st := ws[stp.ID]
			switch stp.Step {
			case "touch": // first transaction, then on to the registration, up to the BEGIN of the query
				if err := r.g.WaitParked(stp.ID, gate.AtBegin, isDone(st.done), stepTimeout); err != nil {
					return drift(err.Error())
				}
				r.g.Release(stp.ID)
				if err := r.g.WaitParked(stp.ID, gate.AtCommitDone, isDone(st.done), stepTimeout); err != nil {
					return drift(err.Error())
				}
				r.g.Release(stp.ID)
				if err := r.g.WaitParked(stp.ID, gate.AtBegin, isDone(st.done), stepTimeout); err != nil {
					return drift(err.Error())
				}
			case "query":
				if err := r.g.WaitParked(stp.ID, gate.AtBegin, isDone(st.done), stepTimeout); err != nil {
					return drift(err.Error())
				}
				r.g.Release(stp.ID)
				if err := r.g.WaitParked(stp.ID, gate.AtCommitDone, isDone(st.done), stepTimeout); err != nil {
					return drift(err.Error())
				}
			case "wait": // leave the query transaction and block in the select
				r.g.Release(stp.ID)
				select {
				case <-st.waiting:
				case <-st.done:
				case <-time.After(200 * time.Millisecond):
					// already waited once before (the Waiting channel fires only once), or went straight round the loop
				}
			case "woken": // round the loop: cancel + register, up to the BEGIN of the next query
				if err := r.g.WaitParked(stp.ID, gate.AtBegin, isDone(st.done), stepTimeout); err != nil {
					res.Clause, res.Detail = "C10:lost-wakeup", kindsOf(res.Kinds)
					for id := range ws {
						r.g.Free(id)
					}
					for id := range xdone {
						r.g.Free(id)
					}
					wcancel()
					wg.Wait()
					return fail("violation", "waiter "+stp.ID+" was not woken: "+err.Error())
				}
			}
		case "x":
			wr := writers[stp.ID]
			switch stp.Step {
			case "commit":
				r.g.Add(stp.ID)
				ch := make(chan error, 1)
				xdone[stp.ID] = ch
				go func() { ch <- wr.act(world.ActorCtx(ctx, stp.ID)) }()
				if err := r.g.WaitParked(stp.ID, gate.AtBegin, nil, stepTimeout); err != nil {
					return drift(err.Error())
				}
				r.g.Release(stp.ID)
				if err := r.g.WaitParked(stp.ID, gate.AtCommitDone, nil, stepTimeout); err != nil {
					return drift(err.Error())
				}
			case "notify":
				r.g.Free(stp.ID)
				select {
				case err := <-xdone[stp.ID]:
					if err != nil {
						return drift("writer failed: " + err.Error())
					}
				case <-time.After(stepTimeout):
					return drift("writer did not finish")
				}
			}
		}
	}
	// end of schedule: release everybody, then the quiescence barrier
	for id := range ws {
		r.g.Free(id)
	}
	deadline := time.After(barrier)
	for wid, st := range ws {
		want := s.Returned[wid]
		if want {
			select {
			case <-st.done:
				if st.err != nil || st.n == 0 {
					res.Clause, res.Detail = "C10:lost-wakeup", kindsOf(res.Kinds)
					res.Status, res.Msg = "violation", fmt.Sprintf("waiter %s returned %d messages, err=%v", wid, st.n, st.err)
				}
			case <-deadline:
				res.Clause, res.Detail = "C10:lost-wakeup", kindsOf(res.Kinds)
				res.Status, res.Msg = "violation", fmt.Sprintf("waiter %s did not return a deliverable message within %s of the change", wid, barrier)
			}
		}
	}
	for wid, st := range ws {
		if !s.Returned[wid] {
			select {
			case <-st.done:
				if res.Status == "ok" {
					res.Status, res.Msg = "drift", fmt.Sprintf("waiter %s returned (%d messages, err=%v) although the specification has nothing deliverable for it", wid, st.n, st.err)
				}
			default:
			}
		}
	}
	wcancel()
	wg.Wait()
	return res
}

func kindsOf(k map[string]string) string {
	var ks []string
	for _, v := range k {
		ks = append(ks, v)
	}
	sort.Strings(ks)
	return strings.Join(ks, "+")
}
