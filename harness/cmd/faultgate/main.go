// faultgate binds spec/Faults.tla (property C18) to the real faults.Set.
//
//	faultgate -mode gate   -in schedules.ndjson -out results.ndjson -traces traces.ndjson [-workers N]
//	    replays TLC-generated schedules through the faults.VerifPoint gate
//	faultgate -mode stress -runs R -seed S -maxcalls M -traces traces.ndjson -out results.ndjson
//	    un-gated stress, black-box traces
//	faultgate -mode grpc   -runs R -seed S -scratch DIR -traces traces.ndjson -out results.ndjson
//	    end to end through the production gRPC interceptor chain
//	faultgate -mode stress|grpc -replay file.json ...   re-executes one recorded run configuration
//
// Trace format (ndjson, one event per line, sequence numbers `t` from one
// process-wide atomic counter, never wall clock):
//
//	{"op":"Reset","tr":id,"nl":lines of this trace,"kinds":[{op,params}...]}
//	{"op":"AddB","d":id,"desc":{...},"t":t0}             Set.Add is about to be called
//	{"op":"Add","d":id,"desc":{tag,op,params,n},"t0":..,"t1":..}   Set.Add has returned
//	{"op":"Start","c":call,"k":kind,"t":..}              (small traces only)
//	{"op":"End","c":call,"k":kind,"s":start,"t":end,"out":description id or 0}
//	{"op":"CurB","t":t0}                                 Current() is about to be called
//	{"op":"Current","cur":[{"d":id,"k":count}...],"t0":..,"t1":..,"q":quiescent}
package main

import (
	"bufio"
	"encoding/json"
	"flag"
	"fmt"
	"os"
	"sort"
	"sync"
	"sync/atomic"

	"go.6river.tech/mmmbbb/faults"
)

// ---------------------------------------------------------------- model values

// Params is a parameter map; TLC prints the empty one as [].
type Params map[string]string

func (p *Params) UnmarshalJSON(b []byte) error {
	if len(b) > 0 && b[0] == '[' {
		*p = Params{}
		return nil
	}
	m := map[string]string{}
	if err := json.Unmarshal(b, &m); err != nil {
		return err
	}
	*p = m
	return nil
}

func (p Params) MarshalJSON() ([]byte, error) {
	if p == nil {
		return []byte("{}"), nil
	}
	return json.Marshal(map[string]string(p))
}

type Desc struct {
	Tag    string `json:"tag"`
	Op     string `json:"op"`
	Params Params `json:"params"`
	N      int64  `json:"n"`
}

type Call struct {
	Op     string `json:"op"`
	Params Params `json:"params"`
}

type CurEntry struct {
	D int   `json:"d"`
	K int64 `json:"k"`
}

// ---------------------------------------------------------------- trace writer

var seq int64

func tick() int64 { return atomic.AddInt64(&seq, 1) }

type traceBuf struct {
	mu    sync.Mutex
	lines [][]byte
}

func (t *traceBuf) add(v any) {
	b, err := json.Marshal(v)
	if err != nil {
		panic(err)
	}
	t.mu.Lock()
	t.lines = append(t.lines, b)
	t.mu.Unlock()
}

type evReset struct {
	Op    string `json:"op"`
	Tr    string `json:"tr"`
	NL    int    `json:"nl"`
	Kinds []Call `json:"kinds"`
}
type evAdd struct {
	Op   string `json:"op"`
	D    int    `json:"d"`
	Desc Desc   `json:"desc"`
	T0   int64  `json:"t0"`
	T1   int64  `json:"t1"`
}
type evAddB struct {
	Op   string `json:"op"`
	D    int    `json:"d"`
	Desc Desc   `json:"desc"`
	T    int64  `json:"t"`
}
type evCurB struct {
	Op string `json:"op"`
	T  int64  `json:"t"`
}
type evStart struct {
	Op string `json:"op"`
	C  int    `json:"c"`
	K  int    `json:"k"`
	T  int64  `json:"t"`
}
type evEnd struct {
	Op  string `json:"op"`
	C   int    `json:"c"`
	K   int    `json:"k"`
	S   int64  `json:"s"`
	T   int64  `json:"t"`
	Out int    `json:"out"`
}
type evCurrent struct {
	Op  string     `json:"op"`
	Cur []CurEntry `json:"cur"`
	T0  int64      `json:"t0"`
	T1  int64      `json:"t1"`
	Q   bool       `json:"q"`
}

type traceFile struct {
	mu sync.Mutex
	w  *bufio.Writer
	f  *os.File
}

func openTrace(path string) *traceFile {
	f, err := os.Create(path)
	if err != nil {
		fatal(err)
	}
	return &traceFile{w: bufio.NewWriterSize(f, 1<<20), f: f}
}

// flush writes one complete trace: a Reset line followed by the buffered lines.
func (tf *traceFile) flush(id string, kinds []Call, tb *traceBuf) {
	tf.mu.Lock()
	defer tf.mu.Unlock()
	b, _ := json.Marshal(evReset{"Reset", id, len(tb.lines), kinds})
	tf.w.Write(b)
	tf.w.WriteByte('\n')
	for _, l := range tb.lines {
		tf.w.Write(l)
		tf.w.WriteByte('\n')
	}
}

func (tf *traceFile) close() {
	tf.w.Flush()
	tf.f.Close()
}

// ---------------------------------------------------------------- faults glue

type faultErr struct{ id int }

func (e *faultErr) Error() string { return fmt.Sprintf("injected fault d%d", e.id) }

func outcomeOf(err error) int {
	if err == nil {
		return 0
	}
	if fe, ok := err.(*faultErr); ok {
		return fe.id
	}
	return -1
}

func addDesc(set *faults.Set, id int, d Desc) {
	e := &faultErr{id}
	var p faults.Parameters
	if len(d.Params) > 0 {
		p = faults.Parameters{}
		for k, v := range d.Params {
			p[k] = v
		}
	}
	set.Add(faults.Description{
		Operation:        d.Op,
		Parameters:       p,
		OnFault:          func(faults.Description, faults.Parameters) error { return e },
		Count:            d.N,
		FaultDescription: fmt.Sprintf("%d", id),
	})
}

// listing reads Set.Current() as a list of (description id, count), sorted by id.
func listing(set *faults.Set) []CurEntry {
	cur := set.Current()
	out := []CurEntry{}
	for _, l := range cur {
		for _, d := range l {
			var id int
			fmt.Sscanf(d.FaultDescription, "%d", &id)
			out = append(out, CurEntry{id, d.Count})
		}
	}
	sort.Slice(out, func(i, j int) bool { return out[i].D < out[j].D })
	return out
}

func fatal(err any) {
	fmt.Fprintln(os.Stderr, "faultgate:", err)
	os.Exit(2)
}

func main() {
	mode := flag.String("mode", "gate", "gate | stress | grpc")
	in := flag.String("in", "", "schedules (ndjson) for -mode gate")
	out := flag.String("out", "", "results (ndjson)")
	traces := flag.String("traces", "", "black-box traces (ndjson)")
	workers := flag.Int("workers", 8, "schedules in flight (gate mode)")
	runs := flag.Int("runs", 10, "number of runs (stress, grpc)")
	seed := flag.Int64("seed", 1, "seed")
	maxcalls := flag.Int("maxcalls", 3000, "upper bound on calls per stress run")
	small := flag.Bool("small", false, "stress: small runs (<= 4 goroutines, <= 10 calls) with Start lines, for hidden-step trace validation")
	scratch := flag.String("scratch", os.TempDir(), "scratch directory (grpc mode)")
	replay := flag.String("replay", "", "re-execute the run configuration stored in this file (stress, grpc)")
	repeat := flag.Int("repeat", 1, "with -replay: number of repetitions")
	flag.Parse()
	if *out == "" || *traces == "" {
		fatal("need -out and -traces")
	}
	switch *mode {
	case "gate":
		runGate(*in, *out, *traces, *workers)
	case "stress":
		runStress(*runs, *seed, *maxcalls, *small, *out, *traces, *replay, *repeat)
	case "grpc":
		runGrpc(*runs, *seed, *scratch, *out, *traces, *replay, *repeat)
	default:
		fatal("unknown mode " + *mode)
	}
}

func writeResults(path string, res []any) {
	f, err := os.Create(path)
	if err != nil {
		fatal(err)
	}
	w := bufio.NewWriter(f)
	for _, r := range res {
		b, _ := json.Marshal(r)
		w.Write(b)
		w.WriteByte('\n')
	}
	w.Flush()
	f.Close()
}
