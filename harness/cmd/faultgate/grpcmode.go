package main

import (
	"strings"
	"bytes"
	"context"
	"encoding/json"
	"fmt"
	"math/rand"
	"net/http"
	"net/http/httptest"
	"os"
	"reflect"
	"runtime"
	"sort"
	"sync"
	"time"

	"github.com/gin-gonic/gin"
	"go.uber.org/fx"
	"google.golang.org/grpc"
	"google.golang.org/grpc/codes"
	"google.golang.org/grpc/credentials/insecure"
	"google.golang.org/grpc/status"

	"go.6river.tech/mmmbbb/controllers"
	"go.6river.tech/mmmbbb/defaults"
	"go.6river.tech/mmmbbb/ent"
	"go.6river.tech/mmmbbb/faults"
	mbgrpc "go.6river.tech/mmmbbb/grpc"
	"go.6river.tech/mmmbbb/grpc/pubsubpb"
	"go.6river.tech/mmmbbb/internal"
	"go.6river.tech/mmmbbb/services"

	"go.6river.tech/mmmbbb/verifharness/world"
)

// Binding C: end to end.  The server is built exactly as the application
// builds it (grpc.NewGrpcService(...).Initialize/Start: log, prometheus and
// fault interceptors; real TCP port chosen by internal.EnableRandomPorts),
// faults are injected and listed through the HTTP controller
// (POST /faults/inject, GET /faults), calls are real RPCs of a gRPC client.
// The parameters a call offers for matching are written down here from
// docs/faults.md (service => method, and for every string field of the
// request its text name, JSON name, name and full name => value), not
// obtained from the repository's paramsFromProtoMessage.

const svcPublisher = "google.pubsub.v1.Publisher"

type GrpcCfg struct {
	ID      string   `json:"id"`
	Seed    int64    `json:"seed"`
	G       int      `json:"g"`
	Calls   int      `json:"calls"`
	Descs   []Desc   `json:"descs"`
	Errors  []string `json:"errors"` // oas error type per description
	Codes   []uint32 `json:"codes"`
	Weights []int    `json:"weights"`
}

type grpcResult struct {
	ID       string  `json:"id"`
	Status   string  `json:"status"`
	Cfg      GrpcCfg `json:"cfg"`
	Fired    []int64 `json:"fired"`
	Passed   int     `json:"passed"`
	OtherErr int     `json:"other_errors"`
	Inject   string  `json:"inject"`
	Note     string  `json:"note,omitempty"`
}

func topicName(run string, t string) string { return "projects/p/topics/" + run + "-" + t }

func grpcKinds(run string) []Call {
	t1, t2 := topicName(run, "t1"), topicName(run, "t2")
	return []Call{
		{"Publish", Params{svcPublisher: "Publish", "topic": t1, "google.pubsub.v1.PublishRequest.topic": t1}},
		{"Publish", Params{svcPublisher: "Publish", "topic": t2, "google.pubsub.v1.PublishRequest.topic": t2}},
		{"GetTopic", Params{svcPublisher: "GetTopic", "topic": t1, "google.pubsub.v1.GetTopicRequest.topic": t1}},
		{"GetTopic", Params{svcPublisher: "GetTopic", "topic": t2, "google.pubsub.v1.GetTopicRequest.topic": t2}},
		{"ListTopics", Params{svcPublisher: "ListTopics", "project": "projects/p", "google.pubsub.v1.ListTopicsRequest.project": "projects/p"}},
	}
}

func subName(run string) string { return strings.Replace(topicName(run, "t1"), "/topics/", "/subscriptions/", 1) + "-sub" }

func genGrpc(r *rand.Rand, id string) GrpcCfg {
	cfg := GrpcCfg{ID: id, Seed: r.Int63()}
	t1 := topicName(id, "t1")
	type cand struct {
		d    Desc
		e    string
		code codes.Code
	}
	n := func(max int) int64 { return int64(1 + r.Intn(max)) }
	byTopic := cand{Desc{"byTopic", "Publish", Params{"topic": t1}, n(40)}, "grpc.DataLoss", codes.DataLoss}
	bySvc := cand{Desc{"bySvc", "Publish", Params{svcPublisher: "Publish"}, n(40)}, "grpc.OutOfRange", codes.OutOfRange}
	byFull := cand{Desc{"byFull", "GetTopic", Params{"google.pubsub.v1.GetTopicRequest.topic": t1}, n(20)}, "grpc.Unauthenticated", codes.Unauthenticated}
	never := cand{Desc{"never", "Publish", Params{"topic": t1, "ordering_key": "x"}, n(5)}, "grpc.PermissionDenied", codes.PermissionDenied}
	// a parameter no Publish request carries (it belongs to the StreamingPull side traffic of the run):
	// must never match, whatever the interceptor did for an earlier call
	neverSub := cand{Desc{"neverSub", "Publish", Params{"subscription": subName(id)}, n(5)}, "grpc.Unavailable", codes.Unavailable}
	var cs []cand
	switch r.Intn(4) {
	case 0:
		cs = []cand{byTopic, byFull}
	case 1:
		cs = []cand{byTopic, bySvc, byFull}
	case 2:
		cs = []cand{neverSub, bySvc, byTopic, never}
	default:
		cs = []cand{never, neverSub, byTopic, bySvc, byFull}
	}
	total := int64(0)
	for _, c := range cs {
		cfg.Descs = append(cfg.Descs, c.d)
		cfg.Errors = append(cfg.Errors, c.e)
		cfg.Codes = append(cfg.Codes, uint32(c.code))
		total += c.d.N
	}
	cfg.G = 8 + r.Intn(25)
	cfg.Calls = int(float64(total)*(0.6+r.Float64()*1.6)) + cfg.G
	cfg.Weights = []int{4 + r.Intn(4), 1 + r.Intn(3), 1 + r.Intn(3), 1 + r.Intn(2), r.Intn(2)}
	return cfg
}

type grpcEnv struct {
	w       *world.World
	engine  *gin.Engine
	haveCtl bool
}

// faultController builds the application's FaultInjectorController for a Set
// through the application's own fx module.
func faultController(set *faults.Set) (ctl controllers.Controller, err error) {
	defer func() {
		if r := recover(); r != nil {
			err = fmt.Errorf("panic: %v", r)
		}
	}()
	var ctrls []controllers.Controller
	app := fx.New(
		fx.NopLogger,
		fx.Supply(set),
		controllers.Module,
		fx.Populate(fx.Annotate(&ctrls, fx.ParamTags(controllers.ControllersTag))),
	)
	if e := app.Err(); e != nil {
		return nil, e
	}
	for _, c := range ctrls {
		if reflect.TypeOf(c) == reflect.TypeOf(&controllers.FaultInjectorController{}) {
			return c, nil
		}
	}
	return nil, fmt.Errorf("no FaultInjectorController among %d controllers", len(ctrls))
}

func execGrpc(ctx context.Context, client *ent.Client, idx int, cfg GrpcCfg, tf *traceFile) grpcResult {
	res := grpcResult{ID: cfg.ID, Status: "ok", Cfg: cfg}
	fail := func(err any) grpcResult {
		res.Status = "error"
		res.Note = fmt.Sprint(err)
		return res
	}
	set := faults.NewSet(fmt.Sprintf("verif-grpc-%d", idx))
	offset := defaults.GRPCOffset + 10 + idx
	svc := mbgrpc.NewGrpcService(defaults.Port, offset, nil, set,
		func(_ context.Context, server *grpc.Server, client *ent.Client) error {
			return services.InitializeGrpcServers(server, client, nil)
		})
	if err := svc.Initialize(ctx, client); err != nil {
		return fail(err)
	}
	sctx, cancel := context.WithCancel(ctx)
	ready := make(chan struct{})
	srvDone := make(chan error, 1)
	go func() { srvDone <- svc.Start(sctx, ready) }()
	select {
	case <-ready:
	case err := <-srvDone:
		cancel()
		return fail(fmt.Sprintf("server did not start: %v", err))
	}
	defer func() {
		cancel()
		_ = svc.Cleanup(ctx)
	}()
	port := internal.ResolvePort(defaults.Port, offset)
	conn, err := grpc.NewClient(fmt.Sprintf("localhost:%d", port), grpc.WithTransportCredentials(insecure.NewCredentials()))
	if err != nil {
		return fail(err)
	}
	defer conn.Close()
	pub := pubsubpb.NewPublisherClient(conn)

	// HTTP controller
	var engine *gin.Engine
	if ctl, err := faultController(set); err == nil {
		gin.SetMode(gin.ReleaseMode)
		engine = gin.New()
		if err := ctl.Register(engine); err != nil {
			engine = nil
		}
	} else {
		res.Note = "controller unavailable (" + err.Error() + "), using Set.Add/Set.Current"
	}
	res.Inject = "http"
	if engine == nil {
		res.Inject = "set"
	}

	t1, t2 := topicName(cfg.ID, "t1"), topicName(cfg.ID, "t2")
	for _, t := range []string{t1, t2} {
		cctx, cc := context.WithTimeout(ctx, 20*time.Second)
		_, err := pub.CreateTopic(cctx, &pubsubpb.Topic{Name: t})
		cc()
		if err != nil && status.Code(err) != codes.AlreadyExists {
			return fail(fmt.Sprintf("CreateTopic: %v", err))
		}
	}

	// side traffic: StreamingPull sessions on a subscription of t1 (their requests carry a
	// `subscription` field, which no recorded call has)
	subc := pubsubpb.NewSubscriberClient(conn)
	{
		cctx, cc := context.WithTimeout(ctx, 20*time.Second)
		_, err := subc.CreateSubscription(cctx, &pubsubpb.Subscription{Name: subName(cfg.ID), Topic: t1})
		cc()
		if err != nil && status.Code(err) != codes.AlreadyExists {
			return fail(fmt.Sprintf("CreateSubscription: %v", err))
		}
	}
	sideStop := make(chan struct{})
	sideDone := make(chan struct{})
	go func() {
		defer close(sideDone)
		for {
			select {
			case <-sideStop:
				return
			default:
			}
			sctx, sc := context.WithTimeout(ctx, 150*time.Millisecond)
			if st, err := subc.StreamingPull(sctx); err == nil {
				_ = st.Send(&pubsubpb.StreamingPullRequest{Subscription: subName(cfg.ID), StreamAckDeadlineSeconds: 10})
				_ = st.Send(&pubsubpb.StreamingPullRequest{})
				_, _ = st.Recv()
			}
			sc()
		}
	}()
	defer func() { close(sideStop); <-sideDone }()

	tb := &traceBuf{}
	inject := func(i int) error {
		d := cfg.Descs[i]
		t0 := tick()
		if engine != nil {
			body := map[string]any{"operation": d.Op, "count": d.N, "error": cfg.Errors[i]}
			if len(d.Params) > 0 {
				body["parameters"] = map[string]string(d.Params)
			}
			b, _ := json.Marshal(body)
			rec := httptest.NewRecorder()
			req := httptest.NewRequest(http.MethodPost, "/faults/inject", bytes.NewReader(b))
			req.Header.Set("Content-Type", "application/json")
			engine.ServeHTTP(rec, req)
			if rec.Code != http.StatusCreated {
				return fmt.Errorf("POST /faults/inject: %d %s", rec.Code, rec.Body.String())
			}
		} else {
			code := codes.Code(cfg.Codes[i])
			var p faults.Parameters
			if len(d.Params) > 0 {
				p = faults.Parameters(d.Params)
			}
			set.Add(faults.Description{Operation: d.Op, Parameters: p, Count: d.N, FaultDescription: cfg.Errors[i],
				OnFault: func(faults.Description, faults.Parameters) error { return status.Error(code, "injected") }})
		}
		tb.add(evAddB{"AddB", i + 1, d, t0})
		tb.add(evAdd{"Add", i + 1, d, t0, tick()})
		return nil
	}
	current := func(q bool) error {
		t0 := tick()
		type cf struct {
			Count      int64             `json:"count"`
			Operation  string            `json:"operation"`
			Parameters map[string]string `json:"parameters"`
		}
		var got []cf
		if engine != nil {
			rec := httptest.NewRecorder()
			engine.ServeHTTP(rec, httptest.NewRequest(http.MethodGet, "/faults", nil))
			if rec.Code != http.StatusOK {
				return fmt.Errorf("GET /faults: %d", rec.Code)
			}
			if err := json.Unmarshal(rec.Body.Bytes(), &got); err != nil {
				return err
			}
		} else {
			for _, l := range set.Current() {
				for _, d := range l {
					got = append(got, cf{d.Count, d.Operation, d.Parameters})
				}
			}
		}
		t1 := tick()
		cur := []CurEntry{}
		for _, g := range got {
			id := -1
			for i, d := range cfg.Descs {
				if d.Op == g.Operation && len(d.Params) == len(g.Parameters) && matches(d, Call{g.Operation, Params(g.Parameters)}) {
					id = i + 1
				}
			}
			cur = append(cur, CurEntry{id, g.Count})
		}
		sort.Slice(cur, func(i, j int) bool { return cur[i].D < cur[j].D })
		tb.add(evCurB{"CurB", t0})
		tb.add(evCurrent{"Current", cur, t0, t1, q})
		return nil
	}
	for i := range cfg.Descs {
		if err := inject(i); err != nil {
			return fail(err)
		}
	}
	if err := current(false); err != nil {
		return fail(err)
	}

	kinds := grpcKinds(cfg.ID)
	wsum := 0
	for _, w := range cfg.Weights {
		wsum += w
	}
	per := cfg.Calls / cfg.G
	if per < 1 {
		per = 1
	}
	codeToDesc := map[codes.Code]int{}
	for i, c := range cfg.Codes {
		codeToDesc[codes.Code(c)] = i + 1
	}
	recs := make([][]callRec, cfg.G)
	other := make([]int, cfg.G)
	var wg sync.WaitGroup
	gate := make(chan struct{})
	for g := 0; g < cfg.G; g++ {
		wg.Add(1)
		go func(g int) {
			defer wg.Done()
			r := rand.New(rand.NewSource(cfg.Seed*1000 + int64(g)))
			my := make([]callRec, 0, per)
			<-gate
			for i := 0; i < per; i++ {
				x := r.Intn(wsum)
				k := 0
				for kk, w := range cfg.Weights {
					if x < w {
						k = kk
						break
					}
					x -= w
				}
				cctx, cc := context.WithTimeout(ctx, 60*time.Second)
				var err error
				s := tick()
				switch k {
				case 0, 1:
					t := t1
					if k == 1 {
						t = t2
					}
					_, err = pub.Publish(cctx, &pubsubpb.PublishRequest{Topic: t, Messages: []*pubsubpb.PubsubMessage{{Data: []byte(`{"x":1}`)}}})
				case 2, 3:
					t := t1
					if k == 3 {
						t = t2
					}
					_, err = pub.GetTopic(cctx, &pubsubpb.GetTopicRequest{Topic: t})
				default:
					_, err = pub.ListTopics(cctx, &pubsubpb.ListTopicsRequest{Project: "projects/p"})
				}
				t := tick()
				cc()
				out := 0
				if err != nil {
					if d, ok := codeToDesc[status.Code(err)]; ok {
						out = d
					} else {
						other[g]++
						if os.Getenv("FAULTGATE_DEBUG") != "" {
							fmt.Fprintln(os.Stderr, "other error:", k, err)
						}
					}
				}
				my = append(my, callRec{k, s, t, out})
			}
			recs[g] = my
		}(g)
	}
	close(gate)
	// one listing while the calls run
	time.Sleep(2 * time.Millisecond)
	if err := current(false); err != nil {
		return fail(err)
	}
	wg.Wait()
	for i := 0; i < 200; i++ {
		runtime.Gosched()
	}
	time.Sleep(5 * time.Millisecond)
	if err := current(true); err != nil {
		return fail(err)
	}
	res.Fired = make([]int64, len(cfg.Descs))
	c := 0
	for g, my := range recs {
		res.OtherErr += other[g]
		for _, rec := range my {
			c++
			tb.add(evEnd{"End", c, rec.k + 1, rec.s, rec.t, rec.out})
			if rec.out > 0 {
				res.Fired[rec.out-1]++
			} else {
				res.Passed++
			}
		}
	}
	sortLines(tb)
	tf.flush(cfg.ID, kinds, tb)
	return res
}

func runGrpc(runs int, seed int64, scratch, out, traces, replay string, repeat int) {
	ctx := context.Background()
	internal.EnableRandomPorts()
	w, err := world.New(ctx, scratch)
	if err != nil {
		fatal(err)
	}
	defer w.Close()
	tf := openTrace(traces)
	var res []any
	if replay != "" {
		b, err := os.ReadFile(replay)
		if err != nil {
			fatal(err)
		}
		var obj struct {
			Cfg GrpcCfg `json:"cfg"`
		}
		if err := json.Unmarshal(b, &obj); err != nil {
			fatal(err)
		}
		for i := 0; i < repeat; i++ {
			cfg := obj.Cfg
			res = append(res, execGrpc(ctx, w.Client, i, cfg, tf))
		}
	} else {
		r := rand.New(rand.NewSource(seed))
		for i := 0; i < runs; i++ {
			cfg := genGrpc(r, fmt.Sprintf("grpc-%d-%d", seed, i))
			res = append(res, execGrpc(ctx, w.Client, i, cfg, tf))
		}
	}
	tf.close()
	writeResults(out, res)
}
