package main

import (
	"bufio"
	"encoding/json"
	"fmt"
	"os"
	"reflect"
	"strings"
	"sync"
	"sync/atomic"
	"time"

	"github.com/prometheus/client_golang/prometheus"

	"go.6river.tech/mmmbbb/faults"
)

// Binding A: replay of TLC-generated schedules.
//
// A schedule is the list of steps of one behaviour of spec/FaultsGen.tla.
// Every caller is a goroutine calling Set.Check; faults.VerifPoint parks it at
// the gates "matched", "decremented", "decided"; the driver releases callers
// in schedule order:
//
//	Match   start the caller, or release it from "decremented" (model: Retry);  expect gate "matched"
//	Dec     release from "matched";                                             expect gate "decremented"
//	Pass    release from "matched";                                             expect the call to return
//	Decide  model branch retry: nothing (the code's branch shows at the next Match)
//	        model branch fire : release from "decremented";                     expect gate "decided"
//	Finish  release from "decided";                                             expect the call to return
//	Prune   the code's prune runs in its own goroutine, un-gated: wait (softly) until the
//	        metric fault_injection_expired shows what the model's prune dropped
//	Add     Set.Add of the description of the step
//
// After every step Set.Current() is compared with the listing the model
// predicts.  If the code arrives somewhere else than the model says, the
// schedule cannot be followed: all callers are set free, the outcomes are
// collected and the run is reported as diverged; the black-box trace of every
// schedule is validated by TLC afterwards (FaultsTrace / FaultsAgg), which
// decides whether a divergence is a violation of the property.

type Step struct {
	C       int     `json:"c"`
	S       string  `json:"s"`
	D       int     `json:"d"`
	Rem     int64   `json:"rem"`
	St      string  `json:"st"`
	Cur     []int64 `json:"cur"`
	Expired int     `json:"expired"`
	Desc    *Desc   `json:"desc"`
}

type Schedule struct {
	ID      string  `json:"id"`
	Descs   []Desc  `json:"descs"`
	NInit   int     `json:"ninit"`
	Calls   []Call  `json:"calls"`
	Hist    []Step  `json:"hist"`
	Out     []int   `json:"out"`
	Fired   []int64 `json:"fired"`
	Cur     []int64 `json:"cur"`
	Expired int     `json:"expired"`
}

type gateResult struct {
	ID                string     `json:"id"`
	Status            string     `json:"status"` // ok | diverged | mismatch | hung
	DivStep           int        `json:"div_step"`
	DivDetail         string     `json:"div_detail,omitempty"`
	Mismatch          []string   `json:"mismatch,omitempty"`
	Out               []int      `json:"out"`
	Fired             []int64    `json:"fired"`
	Cur               []CurEntry `json:"cur"`
	Steps             int        `json:"steps"`
	PruneWaitTimeouts int        `json:"prune_wait_timeouts"`
}

type caller struct {
	id      int
	op      string
	params  faults.Parameters
	at      chan string
	rel     chan struct{}
	free    atomic.Bool
	started bool
	parked  string
	done    bool
	err     error
	startT  int64
	endT    int64
}

var registry sync.Map // map pointer -> *caller

func gateHook(point string, op string, params faults.Parameters) {
	if params == nil {
		return
	}
	v, ok := registry.Load(reflect.ValueOf(params).Pointer())
	if !ok {
		return
	}
	c := v.(*caller)
	if c.free.Load() {
		return
	}
	c.at <- point
	<-c.rel
}

const gateTimeout = 10 * time.Second

func (c *caller) wait() (string, bool) {
	select {
	case ev := <-c.at:
		return ev, true
	case <-time.After(gateTimeout):
		return "", false
	}
}

func expiredMetric(reg *prometheus.Registry) (float64, bool) {
	mfs, err := reg.Gather()
	if err != nil {
		return 0, false
	}
	for _, mf := range mfs {
		if strings.HasSuffix(mf.GetName(), "fault_injection_expired") && len(mf.Metric) > 0 && mf.Metric[0].Counter != nil {
			return mf.Metric[0].Counter.GetValue(), true
		}
	}
	return 0, false
}

func modelCur(v []int64) []CurEntry {
	out := []CurEntry{}
	for i, k := range v {
		if k != 0 {
			out = append(out, CurEntry{i + 1, k})
		}
	}
	return out
}

func curEq(a, b []CurEntry) bool {
	if len(a) != len(b) {
		return false
	}
	for i := range a {
		if a[i] != b[i] {
			return false
		}
	}
	return true
}

func execSchedule(s *Schedule, tf *traceFile) gateResult {
	res := gateResult{ID: s.ID, Status: "ok", DivStep: -1}
	set := faults.NewSet("verif")
	reg := prometheus.NewRegistry()
	haveMetric := set.Register(reg) == nil
	tb := &traceBuf{}
	nAdded := 0
	add := func(d Desc) {
		nAdded++
		t0 := tick()
		addDesc(set, nAdded, d)
		tb.add(evAddB{"AddB", nAdded, d, t0})
		tb.add(evAdd{"Add", nAdded, d, t0, tick()})
	}
	for i := 0; i < s.NInit; i++ {
		add(s.Descs[i])
	}
	cs := make([]*caller, len(s.Calls))
	for i, cl := range s.Calls {
		p := faults.Parameters{}
		for k, v := range cl.Params {
			p[k] = v
		}
		c := &caller{id: i + 1, op: cl.Op, params: p, at: make(chan string, 16), rel: make(chan struct{})}
		cs[i] = c
		registry.Store(reflect.ValueOf(p).Pointer(), c)
	}
	defer func() {
		for _, c := range cs {
			registry.Delete(reflect.ValueOf(c.params).Pointer())
		}
	}()
	start := func(c *caller) {
		c.started = true
		c.startT = tick()
		tb.add(evStart{"Start", c.id, c.id, c.startT})
		go func() {
			c.err = set.Check(c.op, c.params)
			c.at <- "return"
		}()
	}
	returned := func(c *caller) {
		c.done = true
		c.parked = ""
		c.endT = tick()
		tb.add(evEnd{"End", c.id, c.id, c.startT, c.endT, outcomeOf(c.err)})
	}
	observe := func(q bool) []CurEntry {
		t0 := tick()
		cur := listing(set)
		tb.add(evCurB{"CurB", t0})
		tb.add(evCurrent{"Current", cur, t0, tick(), q})
		return cur
	}
	diverged := false
	diverge := func(i int, detail string) {
		diverged = true
		res.Status = "diverged"
		res.DivStep = i
		res.DivDetail = detail
		// set everybody free and collect
		for _, c := range cs {
			if c.done {
				continue
			}
			c.free.Store(true)
			if !c.started {
				start(c)
			} else {
				close(c.rel)
			}
		}
		for _, c := range cs {
			for !c.done {
				ev, ok := c.wait()
				if !ok {
					res.Status = "hung"
					res.DivDetail += fmt.Sprintf("; caller %d did not return within %s when running free", c.id, gateTimeout)
					return
				}
				if ev == "return" {
					returned(c)
				}
			}
		}
	}
	// expect releases caller c (or starts it) and waits for its next event
	expect := func(i int, c *caller, release bool, want string) bool {
		if release {
			c.rel <- struct{}{}
		}
		ev, ok := c.wait()
		if !ok {
			diverge(i, fmt.Sprintf("caller %d: no event within %s, model expects %q", c.id, gateTimeout, want))
			if res.Status != "hung" {
				res.Status = "hung"
			}
			return false
		}
		if ev == "return" {
			returned(c)
		} else {
			c.parked = ev
		}
		if ev != want {
			diverge(i, fmt.Sprintf("caller %d at step %s: model expects %q, code arrived at %q", c.id, s.Hist[i].S, want, ev))
			return false
		}
		return true
	}
steps:
	for i, st := range s.Hist {
		res.Steps = i + 1
		var c *caller
		if st.C >= 1 && st.C <= len(cs) {
			c = cs[st.C-1]
		}
		bad := func() {
			fatal(fmt.Sprintf("schedule %s step %d (%s of caller %d) is not executable from gate %q: the generator and the driver disagree", s.ID, i, st.S, st.C, c.parked))
		}
		switch st.S {
		case "Match":
			if !c.started {
				start(c)
				if !expect(i, c, false, "matched") {
					break steps
				}
			} else if c.parked == "decremented" {
				if !expect(i, c, true, "matched") {
					break steps
				}
			} else {
				bad()
			}
		case "Dec":
			if c.parked != "matched" {
				bad()
			}
			if !expect(i, c, true, "decremented") {
				break steps
			}
		case "Pass":
			if c.parked != "matched" {
				bad()
			}
			if !expect(i, c, true, "return") {
				break steps
			}
		case "Decide":
			if c.parked != "decremented" {
				bad()
			}
			if st.St == "Fired" {
				if !expect(i, c, true, "decided") {
					break steps
				}
			}
		case "Finish":
			if c.parked != "decided" {
				bad()
			}
			if !expect(i, c, true, "return") {
				break steps
			}
		case "Prune":
			if haveMetric && st.Expired > 0 {
				deadline := time.Now().Add(40 * time.Millisecond)
				for {
					v, ok := expiredMetric(reg)
					if !ok || int(v) >= st.Expired {
						break
					}
					if time.Now().After(deadline) {
						res.PruneWaitTimeouts++
						break
					}
					time.Sleep(20 * time.Microsecond)
				}
			}
		case "Add":
			add(*st.Desc)
		default:
			fatal("unknown step " + st.S)
		}
		cur := observe(false)
		if want := modelCur(st.Cur); !curEq(cur, want) {
			res.Mismatch = append(res.Mismatch, fmt.Sprintf("Current() after step %d (%s of caller %d): model %v, code %v", i, st.S, st.C, want, cur))
		}
	}
	if !diverged {
		for _, c := range cs {
			if !c.done {
				fatal(fmt.Sprintf("schedule %s ended with caller %d not returned", s.ID, c.id))
			}
		}
	}
	if res.Status == "hung" {
		tf.flush(s.ID, s.Calls, tb)
		return res
	}
	// quiescence of the prune goroutines (soft), then the final listing
	if haveMetric && !diverged && s.Expired > 0 {
		deadline := time.Now().Add(40 * time.Millisecond)
		for {
			v, ok := expiredMetric(reg)
			if !ok || int(v) >= s.Expired || time.Now().After(deadline) {
				break
			}
			time.Sleep(20 * time.Microsecond)
		}
	}
	res.Cur = observe(true)
	res.Out = make([]int, len(cs))
	res.Fired = make([]int64, nAdded)
	for i, c := range cs {
		res.Out[i] = outcomeOf(c.err)
		if res.Out[i] >= 1 && res.Out[i] <= nAdded {
			res.Fired[res.Out[i]-1]++
		}
	}
	if !diverged {
		if fmt.Sprint(res.Out) != fmt.Sprint(s.Out) {
			res.Mismatch = append(res.Mismatch, fmt.Sprintf("per-caller outcomes: model %v, code %v", s.Out, res.Out))
		}
		if fmt.Sprint(res.Fired) != fmt.Sprint(s.Fired) {
			res.Mismatch = append(res.Mismatch, fmt.Sprintf("fired per description: model %v, code %v", s.Fired, res.Fired))
		}
		if want := modelCur(s.Cur); !curEq(res.Cur, want) {
			res.Mismatch = append(res.Mismatch, fmt.Sprintf("final Current(): model %v, code %v", want, res.Cur))
		}
		if len(res.Mismatch) > 0 {
			res.Status = "mismatch"
		}
	}
	tf.flush(s.ID, s.Calls, tb)
	return res
}

func runGate(in, out, traces string, workers int) {
	faults.VerifPoint = gateHook
	f, err := os.Open(in)
	if err != nil {
		fatal(err)
	}
	var scs []*Schedule
	sc := bufio.NewScanner(f)
	sc.Buffer(make([]byte, 1<<20), 1<<26)
	for sc.Scan() {
		if len(sc.Bytes()) == 0 {
			continue
		}
		var s Schedule
		if err := json.Unmarshal(sc.Bytes(), &s); err != nil {
			fatal(fmt.Sprintf("bad schedule: %v", err))
		}
		if s.ID == "" {
			s.ID = fmt.Sprintf("s%d", len(scs)+1)
		}
		scs = append(scs, &s)
	}
	f.Close()
	tf := openTrace(traces)
	res := make([]any, len(scs))
	var wg sync.WaitGroup
	next := int64(-1)
	for w := 0; w < workers; w++ {
		wg.Add(1)
		go func() {
			defer wg.Done()
			for {
				i := int(atomic.AddInt64(&next, 1))
				if i >= len(scs) {
					return
				}
				res[i] = execSchedule(scs[i], tf)
			}
		}()
	}
	wg.Wait()
	tf.close()
	writeResults(out, res)
}
