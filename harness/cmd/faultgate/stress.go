package main

import (
	"encoding/json"
	"fmt"
	"math/rand"
	"os"
	"runtime"
	"sort"
	"sync"
	"sync/atomic"
	"time"

	"go.6river.tech/mmmbbb/faults"
)

// Binding B: un-gated stress.  G goroutines hammer one Set with a random mix
// of matching / non-matching / superset calls while several (overlapping)
// descriptions with counts up to 1000 are active; some descriptions are added
// while the calls run; Current() is sampled while the calls run and after
// quiescence.  Start and end of every call are stamped from one atomic
// counter (a total order consistent with real time; no wall clock).

type StressCfg struct {
	ID        string `json:"id"`
	Seed      int64  `json:"seed"`
	G         int    `json:"g"`
	Descs     []Desc `json:"descs"`
	NInit     int    `json:"ninit"` // descriptions added before the calls start; the rest are added while they run
	Kinds     []Call `json:"kinds"`
	Weights   []int  `json:"weights"`
	Calls     int    `json:"calls"`
	Observers int    `json:"observers"`
	Small     bool   `json:"small"`
}

type stressResult struct {
	ID     string    `json:"id"`
	Status string    `json:"status"`
	Cfg    StressCfg `json:"cfg"`
	Fired  []int64   `json:"fired"`
	Passed int       `json:"passed"`
	Racy   int       `json:"racy"` // descriptions that were exhausted while >= 2 calls were in flight
	Note   string    `json:"note,omitempty"`
}

var descTemplates = []struct {
	op     string
	params Params
}{
	{"Publish", Params{"topic": "t1"}},
	{"Publish", Params{}},
	{"Publish", Params{"topic": "t1", "key": "k1"}},
	{"Publish", Params{"topic": "t2"}},
	{"Publish", Params{"key": "k1"}},
	{"Pull", Params{"topic": "t1"}},
	{"Pull", Params{}},
}

var kindTemplates = []Call{
	{"Publish", Params{"topic": "t1"}},
	{"Publish", Params{"topic": "t1", "key": "k1"}},
	{"Publish", Params{"topic": "t1", "key": "k2", "extra": "x"}},
	{"Publish", Params{"topic": "t2"}},
	{"Publish", Params{"topic": "t2", "key": "k1"}},
	{"Publish", Params{}},
	{"Publish", Params{"topic": "t3"}},
	{"Publish", Params{"Topic": "t1"}},
	{"Pull", Params{"topic": "t1"}},
	{"Pull", Params{"topic": "t2"}},
	{"Ack", Params{"topic": "t1"}},
}

// non-overlapping families: no call kind matches two of the descriptions
var disjointFamilies = [][]int{{0}, {2}, {0, 3}, {0, 3, 5}, {3, 5}, {2, 3, 6}}

func genStress(r *rand.Rand, id string, maxcalls int, small bool) StressCfg {
	cfg := StressCfg{ID: id, Seed: r.Int63(), Small: small}
	var ds []int
	if r.Intn(3) == 0 {
		ds = disjointFamilies[r.Intn(len(disjointFamilies))]
	} else {
		n := 2 + r.Intn(3)
		ds = r.Perm(len(descTemplates))[:n]
	}
	cfg.NInit = len(ds)
	if !small {
		// waves: the same (or other) templates are added again while the calls run,
		// so that one run contains many races to exhaust a description
		base := ds
		for w := r.Intn(9); w > 0; w-- {
			if len(base) == 1 || r.Intn(2) == 0 {
				ds = append(ds, base[r.Intn(len(base))])
			} else {
				ds = append(ds, r.Intn(len(descTemplates)))
			}
		}
	} else if len(ds) > 1 && r.Intn(2) == 0 {
		cfg.NInit = len(ds) - 1
	}
	total := int64(0)
	for _, i := range ds {
		var n int64
		switch {
		case small:
			n = int64(1 + r.Intn(3))
		case r.Intn(3) == 0:
			n = int64(1 + r.Intn(5))
		case r.Intn(4) == 0:
			n = int64(1 + r.Intn(1000))
		default:
			n = int64(1 + r.Intn(150))
		}
		total += n
		cfg.Descs = append(cfg.Descs, Desc{fmt.Sprintf("d%d", len(cfg.Descs)+1), descTemplates[i].op, descTemplates[i].params, n})
	}
	cfg.Kinds = kindTemplates
	cfg.Weights = make([]int, len(kindTemplates))
	for i := range cfg.Weights {
		cfg.Weights[i] = 1 + r.Intn(6)
		if r.Intn(4) == 0 {
			cfg.Weights[i] = 0
		}
	}
	cfg.Weights[r.Intn(3)] += 4
	if small {
		cfg.G = 2 + r.Intn(3)
		cfg.Calls = 4 + r.Intn(7)
		cfg.Observers = 1
		return cfg
	}
	cfg.G = 16 + r.Intn(49)
	// enough calls that some descriptions are exhausted and some are not
	f := 0.8 + r.Float64()*3.0
	cfg.Calls = int(float64(total)*f) + 4*cfg.G
	if cfg.Calls > maxcalls {
		cfg.Calls = maxcalls
	}
	cfg.Observers = r.Intn(3)
	return cfg
}

type callRec struct {
	k    int
	s, t int64
	out  int
}

func execStress(cfg StressCfg, tf *traceFile) stressResult {
	res := stressResult{ID: cfg.ID, Status: "ok", Cfg: cfg}
	base := runtime.NumGoroutine()
	set := faults.NewSet("verif")
	tb := &traceBuf{}
	for i := 0; i < cfg.NInit; i++ {
		t0 := tick()
		addDesc(set, i+1, cfg.Descs[i])
		tb.add(evAddB{"AddB", i + 1, cfg.Descs[i], t0})
		tb.add(evAdd{"Add", i + 1, cfg.Descs[i], t0, tick()})
	}
	wsum := 0
	for _, w := range cfg.Weights {
		wsum += w
	}
	// issued: calls handed out; allowed: calls that may be handed out.  The late
	// descriptions are added when fixed fractions of the calls have been issued;
	// callers may run at most 8*G calls ahead of a pending Add, so that the Add
	// races with running calls but is not outrun by them.
	var issued, allowed int64
	late := len(cfg.Descs) - cfg.NInit
	thr := func(j int) int64 { return int64(cfg.Calls) * int64(j) / int64(late+1) } // j = 1..late
	slack := int64(8 * cfg.G)
	if late == 0 {
		allowed = int64(cfg.Calls)
	} else {
		allowed = thr(1) + slack
	}
	recs := make([][]callRec, cfg.G)
	var wg sync.WaitGroup
	gate := make(chan struct{})
	for g := 0; g < cfg.G; g++ {
		wg.Add(1)
		go func(g int) {
			defer wg.Done()
			r := rand.New(rand.NewSource(cfg.Seed*1000 + int64(g)))
			// private parameter maps (Check only reads them)
			maps := make([]faults.Parameters, len(cfg.Kinds))
			for i, k := range cfg.Kinds {
				m := faults.Parameters{}
				for kk, v := range k.Params {
					m[kk] = v
				}
				maps[i] = m
			}
			pick := func() int {
				x := r.Intn(wsum)
				for k, w := range cfg.Weights {
					if x < w {
						return k
					}
					x -= w
				}
				return 0
			}
			my := make([]callRec, 0, 2*cfg.Calls/cfg.G+4)
			<-gate
			for {
				i := atomic.AddInt64(&issued, 1)
				if i > int64(cfg.Calls) {
					break
				}
				for i > atomic.LoadInt64(&allowed) {
					runtime.Gosched()
				}
				k := pick()
				s := tick()
				err := set.Check(cfg.Kinds[k].Op, maps[k])
				t := tick()
				my = append(my, callRec{k, s, t, outcomeOf(err)})
				if cfg.Small {
					runtime.Gosched()
				}
			}
			recs[g] = my
		}(g)
	}
	// late adds and observers run while the calls run
	var side sync.WaitGroup
	stop := make(chan struct{})
	if cfg.NInit < len(cfg.Descs) {
		side.Add(1)
		go func() {
			defer side.Done()
			<-gate
			for i := cfg.NInit; i < len(cfg.Descs); i++ {
				j := i - cfg.NInit + 1
				for atomic.LoadInt64(&issued) < thr(j) {
					runtime.Gosched()
				}
				t0 := tick()
				addDesc(set, i+1, cfg.Descs[i])
				tb.add(evAddB{"AddB", i + 1, cfg.Descs[i], t0})
				tb.add(evAdd{"Add", i + 1, cfg.Descs[i], t0, tick()})
				if j == late {
					atomic.StoreInt64(&allowed, int64(cfg.Calls))
				} else {
					atomic.StoreInt64(&allowed, thr(j+1)+slack)
				}
			}
		}()
	}
	for o := 0; o < cfg.Observers; o++ {
		side.Add(1)
		go func() {
			defer side.Done()
			<-gate
			n := 0
			for n < 4 {
				select {
				case <-stop:
					return
				default:
				}
				t0 := tick()
				cur := listing(set)
				tb.add(evCurB{"CurB", t0})
				tb.add(evCurrent{"Current", cur, t0, tick(), false})
				n++
				time.Sleep(time.Duration(20+n*30) * time.Microsecond)
			}
		}()
	}
	close(gate)
	wg.Wait()
	close(stop)
	side.Wait()
	// quiescence: the prune goroutines the calls spawned have finished
	deadline := time.Now().Add(5 * time.Second)
	for runtime.NumGoroutine() > base {
		if time.Now().After(deadline) {
			res.Note = "goroutines still running at quiescence barrier"
			break
		}
		time.Sleep(50 * time.Microsecond)
	}
	t0 := tick()
	cur := listing(set)
	tb.add(evCurB{"CurB", t0})
	tb.add(evCurrent{"Current", cur, t0, tick(), true})

	res.Fired = make([]int64, len(cfg.Descs))
	c := 0
	var ends []evEnd
	for _, my := range recs {
		for _, rec := range my {
			c++
			if cfg.Small {
				tb.add(evStart{"Start", c, rec.k + 1, rec.s})
			}
			ends = append(ends, evEnd{"End", c, rec.k + 1, rec.s, rec.t, rec.out})
			if rec.out >= 1 && rec.out <= len(cfg.Descs) {
				res.Fired[rec.out-1]++
			} else if rec.out == 0 {
				res.Passed++
			}
		}
	}
	for _, e := range ends {
		tb.add(e)
	}
	// measured raciness: a description whose last firing call overlapped another call that matched it
	res.Racy = racy(cfg, ends)
	sortLines(tb)
	tf.flush(cfg.ID, cfg.Kinds, tb)
	return res
}

// racy counts descriptions for which two calls that were both failed by it
// overlapped in time, or a call that passed overlapped the call that exhausted it.
func racy(cfg StressCfg, ends []evEnd) int {
	n := 0
	for d := range cfg.Descs {
		var lastS, lastT int64 = -1, -1
		var fired []evEnd
		for _, e := range ends {
			if e.Out == d+1 {
				fired = append(fired, e)
				if e.T > lastT {
					lastS, lastT = e.S, e.T
				}
			}
		}
		if int64(len(fired)) < cfg.Descs[d].N {
			continue
		}
		for _, e := range ends {
			if e.Out != d+1 && e.S < lastT && e.T > lastS && matches(cfg.Descs[d], cfg.Kinds[e.K-1]) {
				n++
				break
			}
		}
	}
	return n
}

func matches(d Desc, c Call) bool {
	if d.Op != c.Op {
		return false
	}
	for k, v := range d.Params {
		if vv, ok := c.Params[k]; !ok || vv != v {
			return false
		}
	}
	return true
}

// sortLines orders the buffered events by their stamp (Start by t, End by t,
// Add by t1, Current by t1) so that a trace reads in real-time order.
func sortLines(tb *traceBuf) {
	type keyed struct {
		k int64
		b []byte
	}
	ks := make([]keyed, len(tb.lines))
	for i, l := range tb.lines {
		var m struct {
			Op string `json:"op"`
			T  int64  `json:"t"`
			T1 int64  `json:"t1"`
		}
		_ = json.Unmarshal(l, &m)
		k := m.T
		if m.Op == "Add" || m.Op == "Current" {
			k = m.T1
		}
		ks[i] = keyed{k, l}
	}
	sort.SliceStable(ks, func(i, j int) bool { return ks[i].k < ks[j].k })
	for i := range ks {
		tb.lines[i] = ks[i].b
	}
}

func runStress(runs int, seed int64, maxcalls int, small bool, out, traces, replay string, repeat int) {
	tf := openTrace(traces)
	var res []any
	if replay != "" {
		b, err := os.ReadFile(replay)
		if err != nil {
			fatal(err)
		}
		var obj struct {
			Cfg StressCfg `json:"cfg"`
		}
		if err := json.Unmarshal(b, &obj); err != nil {
			fatal(err)
		}
		for i := 0; i < repeat; i++ {
			cfg := obj.Cfg
			cfg.ID = fmt.Sprintf("%s-rep%d", obj.Cfg.ID, i)
			res = append(res, execStress(cfg, tf))
		}
	} else {
		r := rand.New(rand.NewSource(seed))
		for i := 0; i < runs; i++ {
			pfx := "stress"
			if small {
				pfx = "small"
			}
			cfg := genStress(r, fmt.Sprintf("%s-%d-%d", pfx, seed, i), maxcalls, small)
			res = append(res, execStress(cfg, tf))
		}
	}
	tf.close()
	writeResults(out, res)
}
