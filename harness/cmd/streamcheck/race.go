package main

import (
	"sync"
	"time"

	"go.6river.tech/mmmbbb/verifharness/sqlwrap"
)

// Race sessions (C11, "all transaction-boundary interleavings of the stream's fetches with
// publishes, stream acks/nacks and external acks"): scenario field raceAt = [a, k] runs scripted
// step a+1 INSIDE the stream's reaction to step a - the stream's k-th database boundary after
// step a (BEGIN, a read outside a transaction, the end of such a read, a completed COMMIT) is
// parked, step a+1 is performed, the stream is released, and only then is quiescence awaited.
// Enumerating k walks the second step across every boundary of the stream's own processing.

type parker struct {
	mu       sync.Mutex
	k, n     int
	parked   chan struct{}
	release  chan struct{}
	didPark  bool
	disarmed bool
}

var parkers sync.Map // stream actor -> *parker
var installPark sync.Once

func installParkHook() {
	installPark.Do(func() {
		sqlwrap.SetHook(func(ev sqlwrap.Event) error {
			switch ev.Kind {
			case sqlwrap.Begin, sqlwrap.CommitDone, sqlwrap.QueryDone:
			case sqlwrap.Query:
				if ev.InTx {
					return nil
				}
			default:
				return nil
			}
			v, ok := parkers.Load(ev.Actor)
			if !ok {
				return nil
			}
			p := v.(*parker)
			p.mu.Lock()
			if p.disarmed {
				p.mu.Unlock()
				return nil
			}
			p.n++
			hit := p.n == p.k
			if hit {
				p.didPark = true
			}
			p.mu.Unlock()
			if hit {
				close(p.parked)
				<-p.release
			}
			return nil
		})
	})
}

func armParker(actor string, k int) *parker {
	installParkHook()
	p := &parker{k: k, parked: make(chan struct{}), release: make(chan struct{})}
	parkers.Store(actor, p)
	return p
}

// await waits until the actor is parked at its k-th boundary (or gives up: the stream did fewer
// than k things in reaction to the step); reports whether it is parked.
func (p *parker) await(d time.Duration) bool {
	select {
	case <-p.parked:
		return true
	case <-time.After(d):
		p.mu.Lock()
		defer p.mu.Unlock()
		if p.didPark {
			return true
		}
		p.disarmed = true
		return false
	}
}

func (p *parker) free(actor string) {
	p.mu.Lock()
	p.disarmed = true
	p.mu.Unlock()
	select {
	case <-p.release:
	default:
		close(p.release)
	}
	parkers.Delete(actor)
}
