package main

import (
	"context"
	"fmt"
	"sort"
	"sync"
	"time"

	"github.com/google/uuid"
	"google.golang.org/protobuf/types/known/durationpb"

	"go.6river.tech/mmmbbb/actions"
	"go.6river.tech/mmmbbb/grpc/pubsubpb"

	"go.6river.tech/mmmbbb/verifharness/world"
)

// Eager sessions bind actions.MessageStreamer directly to a scripted
// StreamConnection whose Send acknowledges the delivery and returns only when
// that acknowledgement has been completely handled (on the stream: the reader
// has come back for the next request; outside it: the Acknowledge transaction
// has committed). This is the adversarial schedule "the ack is processed
// before the sender goes on", realised without any hook.
type eagerConn struct {
	mu        sync.Mutex
	s         *session
	fc        actions.FlowControl
	first     bool
	reqs      chan *actions.MessageStreamRequest
	recvCalls int
	cond      *sync.Cond
	external  bool
	w         *world.World
	idx       map[uuid.UUID]int // message uuid -> model index
}

func (c *eagerConn) Close() error { return nil }

func (c *eagerConn) Receive(ctx context.Context) (*actions.MessageStreamRequest, error) {
	c.mu.Lock()
	c.recvCalls++
	c.cond.Broadcast()
	if c.first {
		c.first = false
		fc := c.fc
		c.mu.Unlock()
		return &actions.MessageStreamRequest{FlowControl: &fc}, nil
	}
	c.mu.Unlock()
	select {
	case <-ctx.Done():
		return nil, ctx.Err()
	case r := <-c.reqs:
		return r, nil
	}
}

func (c *eagerConn) Send(ctx context.Context, d *actions.SubscriptionMessageDelivery) error {
	m := c.idx[d.MessageID]
	c.s.mu.Lock()
	c.s.wire[m] = true
	c.s.lastRecv = time.Now()
	c.s.emit(map[string]any{"op": "Recv", "ids": []int{m}})
	op := "Ack"
	if c.external {
		op = "ExtAck"
	}
	delete(c.s.wire, m)
	c.s.emit(map[string]any{"op": op, "ids": []int{m}})
	c.s.mu.Unlock()
	// the write to the client takes a little longer than the handling of its ack: every
	// goroutine that the ack woke has finished by the time Send returns
	defer time.Sleep(60 * time.Millisecond)
	if c.external {
		return c.w.Client.DoCtxTx(ctx, nil, actions.NewAckDeliveries(d.ID).Execute)
	}
	c.mu.Lock()
	k := c.recvCalls
	c.mu.Unlock()
	select {
	case c.reqs <- &actions.MessageStreamRequest{Ack: []uuid.UUID{d.ID}}:
	case <-ctx.Done():
		return ctx.Err()
	}
	// wait until the reader has processed the ack and come back for more
	done := make(chan struct{})
	go func() {
		c.mu.Lock()
		for c.recvCalls <= k {
			c.cond.Wait()
		}
		c.mu.Unlock()
		close(done)
	}()
	select {
	case <-done:
	case <-ctx.Done():
		c.mu.Lock()
		c.cond.Broadcast()
		c.mu.Unlock()
		return ctx.Err()
	case <-time.After(5 * time.Second):
	}
	return nil
}

func runEager(sc *scenario, scratch string) ([]map[string]any, error) {
	ctx, cancel := context.WithTimeout(context.Background(), 120*time.Second)
	defer cancel()
	w, err := world.New(ctx, scratch)
	if err != nil {
		return nil, err
	}
	defer w.Close()
	cctx := world.ActorCtx(ctx, "client")
	topic, sub := "projects/ps/topics/t", "projects/ps/subscriptions/s"
	if _, err := w.Pub.CreateTopic(cctx, &pubsubpb.Topic{Name: topic}); err != nil {
		return nil, err
	}
	if _, err := w.Sub.CreateSubscription(cctx, &pubsubpb.Subscription{Name: sub, Topic: topic,
		RetryPolicy: &pubsubpb.RetryPolicy{MinimumBackoff: durationpb.New(10 * time.Minute), MaximumBackoff: durationpb.New(10 * time.Minute)}}); err != nil {
		return nil, err
	}
	subs, err := w.Client.Subscription.Query().All(ctx)
	if err != nil || len(subs) != 1 {
		return nil, fmt.Errorf("subscription lookup: %v", err)
	}
	s := &session{tr: sc.ID, msgIdx: map[string]int{}, ackID: map[int]string{}, wire: map[int]bool{}}
	s.emit(map[string]any{"op": "Reset"})
	st0 := sc.Steps[0]
	s.emit(map[string]any{"op": "Open", "fcM": st0.FcM, "fcB": st0.FcB})
	conn := &eagerConn{s: s, fc: actions.FlowControl{MaxMessages: st0.FcM, MaxBytes: st0.FcB}, first: true,
		reqs: make(chan *actions.MessageStreamRequest), external: sc.Eager == "external", w: w, idx: map[uuid.UUID]int{}}
	conn.cond = sync.NewCond(&conn.mu)
	n := 0
	for _, st := range sc.Steps[1:] {
		if st.Op != "Publish" {
			continue
		}
		req := &pubsubpb.PublishRequest{Topic: topic}
		for _, sz := range st.Sizes {
			req.Messages = append(req.Messages, &pubsubpb.PubsubMessage{Data: payload(sz)})
		}
		resp, err := w.Pub.Publish(cctx, req)
		if err != nil {
			return nil, err
		}
		ids := []int{}
		for _, id := range resp.MessageIds {
			n++
			u, _ := uuid.Parse(id)
			conn.idx[u] = n
			s.msgIdx[id] = n
			ids = append(ids, n)
		}
		s.emit(map[string]any{"op": "Publish", "ids": ids, "sizes": st.Sizes})
	}
	sctx, scancel := context.WithCancel(world.ActorCtx(ctx, "stream"))
	defer scancel()
	done := make(chan error, 1)
	ms := &actions.MessageStreamer{Client: w.Client, SubscriptionID: &subs[0].ID, SubscriptionName: sub, AutomaticNack: true}
	s.mu.Lock()
	s.lastRecv = time.Now()
	s.mu.Unlock()
	go func() { done <- ms.Go(sctx, conn) }()
	// run until everything was delivered or the stream has been quiet for a long time
	start := time.Now()
	for {
		s.mu.Lock()
		last := s.lastRecv
		s.mu.Unlock()
		st, err := w.Project(ctx)
		if err != nil {
			return nil, err
		}
		open := 0
		for _, d := range st.Del {
			if d.Done == -1 {
				open++
			}
		}
		// a stall is only declared after a long silence: under machine load a fetch can take seconds,
		// while a real stall lasts for good
		if open == 0 || time.Since(last) > 20*time.Second || time.Since(start) > 60*time.Second {
			break
		}
		select {
		case err := <-done:
			return nil, fmt.Errorf("streamer ended: %v", err)
		case <-time.After(30 * time.Millisecond):
		}
	}
	st, err := w.Project(ctx)
	if err != nil {
		return nil, err
	}
	now := w.NowTU()
	avail := []int{}
	for _, d := range st.Del {
		if d.Done == -1 && d.At <= now-1 && d.Exp > now+1 {
			for _, m := range st.Msgs {
				if m.ID == d.D[0] {
					avail = append(avail, s.msgIdx[m.UUID.String()])
				}
			}
		}
	}
	sort.Ints(avail)
	s.mu.Lock()
	s.emit(map[string]any{"op": "Quiet", "avail": avail, "after": "EagerAcks"})
	s.mu.Unlock()
	scancel()
	select {
	case <-done:
	case <-time.After(3 * time.Second):
	}
	s.mu.Lock()
	defer s.mu.Unlock()
	return s.out, nil
}
