package main

import (
	"context"
	"fmt"
	"sort"
	"time"

	"google.golang.org/protobuf/types/known/durationpb"

	"go.6river.tech/mmmbbb/grpc/pubsubpb"

	"go.6river.tech/mmmbbb/verifharness/world"
)

// Reopen sessions (C03, streaming ack is final): messages are received on one
// stream and left unacknowledged; the stream is closed; a NEW stream is opened
// whose FIRST request already carries ack ids (and optionally a zero modify
// deadline) for some of them; after the lease has lapsed (virtual clock) a
// third stream shows what is delivered again.
func runReopen(sc *scenario, scratch string) ([]map[string]any, error) {
	ctx, cancel := context.WithTimeout(context.Background(), 60*time.Second)
	defer cancel()
	w, err := world.New(ctx, scratch)
	if err != nil {
		return nil, err
	}
	defer w.Close()
	cctx := world.ActorCtx(ctx, "client")
	topic, sub := "projects/ps/topics/t", "projects/ps/subscriptions/s"
	if _, err := w.Pub.CreateTopic(cctx, &pubsubpb.Topic{Name: topic}); err != nil {
		return nil, err
	}
	if _, err := w.Sub.CreateSubscription(cctx, &pubsubpb.Subscription{Name: sub, Topic: topic,
		RetryPolicy: &pubsubpb.RetryPolicy{MinimumBackoff: durationpb.New(10 * time.Minute), MaximumBackoff: durationpb.New(10 * time.Minute)}}); err != nil {
		return nil, err
	}
	s := &session{tr: sc.ID, msgIdx: map[string]int{}, ackID: map[int]string{}, wire: map[int]bool{}}
	s.emit(map[string]any{"op": "Reset"})
	st0 := sc.Steps[0]
	s.emit(map[string]any{"op": "Open", "fcM": 1000, "fcB": 10000000})
	n := 0
	for _, st := range sc.Steps[1:] {
		if st.Op != "Publish" {
			continue
		}
		req := &pubsubpb.PublishRequest{Topic: topic}
		for _, sz := range st.Sizes {
			req.Messages = append(req.Messages, &pubsubpb.PubsubMessage{Data: payload(sz)})
		}
		resp, err := w.Pub.Publish(cctx, req)
		if err != nil {
			return nil, err
		}
		ids := []int{}
		for _, id := range resp.MessageIds {
			n++
			s.msgIdx[id] = n
			ids = append(ids, n)
		}
		s.emit(map[string]any{"op": "Publish", "ids": ids, "sizes": st.Sizes})
	}
	_ = st0
	// one stream session: first request, then read for a while; returns what was received
	sessionRead := func(first *pubsubpb.StreamingPullRequest, want int, dur time.Duration) ([]int, error) {
		sctx, scancel := context.WithCancel(world.ActorCtx(ctx, "stream"))
		defer scancel()
		stream, err := w.Sub.StreamingPull(sctx)
		if err != nil {
			return nil, err
		}
		if err := stream.Send(first); err != nil {
			return nil, err
		}
		got := []int{}
		type rm struct {
			ids []int
			err error
		}
		ch := make(chan rm, 16)
		go func() {
			for {
				resp, err := stream.Recv()
				if err != nil {
					ch <- rm{nil, err}
					return
				}
				var ids []int
				for _, m := range resp.ReceivedMessages {
					idx := s.msgIdx[m.Message.MessageId]
					ids = append(ids, idx)
					s.ackID[idx] = m.AckId
				}
				ch <- rm{ids, nil}
			}
		}()
		deadline := time.After(dur)
		for {
			select {
			case r := <-ch:
				if r.err != nil {
					return got, nil
				}
				s.emit(map[string]any{"op": "Recv", "ids": r.ids})
				got = append(got, r.ids...)
				if want > 0 && len(got) >= want {
					time.Sleep(100 * time.Millisecond)
					return got, nil
				}
			case <-deadline:
				return got, nil
			}
		}
	}
	first := &pubsubpb.StreamingPullRequest{Subscription: sub, StreamAckDeadlineSeconds: 60}
	got, err := sessionRead(first, n, 5*time.Second)
	if err != nil {
		return nil, err
	}
	if len(got) != n {
		return nil, fmt.Errorf("reopen precondition: received %d of %d messages", len(got), n)
	}
	sort.Ints(got)
	// second stream: the opening request carries the acks (every other message)
	var acks []string
	var acked []int
	for i, m := range got {
		if i%2 == 0 {
			acks = append(acks, s.ackID[m])
			acked = append(acked, m)
		}
	}
	s.emit(map[string]any{"op": "Ack", "ids": acked})
	second := &pubsubpb.StreamingPullRequest{Subscription: sub, StreamAckDeadlineSeconds: 60, AckIds: acks}
	if _, err := sessionRead(second, 0, 700*time.Millisecond); err != nil {
		return nil, err
	}
	// the leases lapse
	if err := w.Advance(ctx, 11*time.Minute); err != nil {
		return nil, err
	}
	// everything unacknowledged is on the wire again as far as the contract's bookkeeping goes:
	// a redelivery of an unacked message is legitimate, so take them off the wire first
	var rest []int
	for i, m := range got {
		if i%2 == 1 {
			rest = append(rest, m)
		}
	}
	if len(rest) > 0 {
		s.emit(map[string]any{"op": "Nack", "ids": rest})
	}
	if _, err := sessionRead(&pubsubpb.StreamingPullRequest{Subscription: sub, StreamAckDeadlineSeconds: 60}, len(rest), 2*time.Second); err != nil {
		return nil, err
	}
	return s.out, nil
}
