// streamcheck replays TLC-generated client scripts (spec/Stream.tla) against a
// real gRPC StreamingPull session and records what the stream sends, for
// validation by spec/StreamTrace.tla (C11).
//
//	streamcheck -scenarios s.ndjson -out trace.ndjson [-workers N] [-scratch DIR]
package main

import (
	"bufio"
	"context"
	"encoding/json"
	"flag"
	"fmt"
	"os"
	"sort"
	"strings"
	"sync"
	"time"

	"google.golang.org/protobuf/types/known/durationpb"

	"go.6river.tech/mmmbbb/grpc/pubsubpb"

	"go.6river.tech/mmmbbb/verifharness/world"
)

type step struct {
	Op    string `json:"op"`
	FcM   int    `json:"fcM"`
	FcB   int    `json:"fcB"`
	Sizes []int  `json:"sizes"`
	J     int    `json:"j"`
}
type scenario struct {
	ID    string `json:"id"`
	Steps []step `json:"steps"`
	Eager string `json:"eager,omitempty"` // "" | "stream" | "external": direct binding with acks handled inside Send
	// RaceAt = [a, k]: step a+1 runs while the stream is parked at the k-th database boundary of its
	// reaction to step a (race.go)
	RaceAt []int `json:"raceAt,omitempty"`
}

const quietFor = 300 * time.Millisecond
const quietMax = 10 * time.Second

type session struct {
	mu       sync.Mutex
	out      []map[string]any
	idx      int
	tr       string
	msgIdx   map[string]int // message id -> model index
	ackID    map[int]string
	wire     map[int]bool
	lastRecv time.Time
	recvErr  error
}

func (s *session) emit(ev map[string]any) {
	ev["tr"] = s.tr
	ev["i"] = s.idx
	s.idx++
	s.out = append(s.out, ev)
}

func main() {
	scenF := flag.String("scenarios", "", "")
	outF := flag.String("out", "", "")
	workers := flag.Int("workers", 8, "")
	scratch := flag.String("scratch", os.TempDir(), "")
	flag.Parse()
	f, err := os.Open(*scenF)
	if err != nil {
		fmt.Fprintln(os.Stderr, err)
		os.Exit(2)
	}
	var scs []scenario
	sc := bufio.NewScanner(f)
	sc.Buffer(make([]byte, 1<<20), 1<<26)
	for sc.Scan() {
		if len(sc.Bytes()) == 0 {
			continue
		}
		var s scenario
		if err := json.Unmarshal(sc.Bytes(), &s); err != nil {
			fmt.Fprintln(os.Stderr, "bad scenario", err)
			os.Exit(2)
		}
		scs = append(scs, s)
	}
	out, err := os.Create(*outF)
	if err != nil {
		fmt.Fprintln(os.Stderr, err)
		os.Exit(2)
	}
	defer out.Close()
	var omu sync.Mutex
	jobs := make(chan int)
	var wg sync.WaitGroup
	bad := 0
	for w := 0; w < *workers; w++ {
		wg.Add(1)
		go func() {
			defer wg.Done()
			for i := range jobs {
				evs, err := run(&scs[i], *scratch)
				omu.Lock()
				if err != nil {
					bad++
					fmt.Fprintf(os.Stderr, "scenario %s: %v\n", scs[i].ID, err)
				} else {
					for _, e := range evs {
						b, _ := json.Marshal(e)
						out.Write(append(b, '\n'))
					}
				}
				omu.Unlock()
			}
		}()
	}
	for i := range scs {
		jobs <- i
	}
	close(jobs)
	wg.Wait()
	fmt.Printf("scenarios=%d not_ok=%d\n", len(scs), bad)
	if bad > len(scs)/20+1 {
		os.Exit(2)
	}
}

func payload(size int) []byte {
	if size < 2 {
		size = 2
	}
	return []byte(`"` + strings.Repeat("a", size-2) + `"`)
}

func run(sc *scenario, scratch string) ([]map[string]any, error) {
	if sc.Eager == "reopen" {
		return runReopen(sc, scratch)
	}
	if sc.Eager == "expire" {
		return runExpire(sc, scratch)
	}
	if sc.Eager != "" {
		return runEager(sc, scratch)
	}
	ctx, cancel := context.WithTimeout(context.Background(), 120*time.Second)
	defer cancel()
	w, err := world.New(ctx, scratch)
	if err != nil {
		return nil, err
	}
	defer w.Close()
	cctx := world.ActorCtx(ctx, "client")
	topic, sub := "projects/ps/topics/t", "projects/ps/subscriptions/s"
	if _, err := w.Pub.CreateTopic(cctx, &pubsubpb.Topic{Name: topic}); err != nil {
		return nil, err
	}
	// long lease: nothing expires or is redelivered by timeout during a scenario
	if _, err := w.Sub.CreateSubscription(cctx, &pubsubpb.Subscription{Name: sub, Topic: topic,
		RetryPolicy: &pubsubpb.RetryPolicy{MinimumBackoff: durationpb.New(10 * time.Minute), MaximumBackoff: durationpb.New(10 * time.Minute)}}); err != nil {
		return nil, err
	}
	s := &session{tr: sc.ID, msgIdx: map[string]int{}, ackID: map[int]string{}, wire: map[int]bool{}}
	s.emit(map[string]any{"op": "Reset"})
	var stream pubsubpb.Subscriber_StreamingPullClient
	streamActor := "stream:" + sc.ID
	sctx, scancel := context.WithCancel(world.ActorCtx(ctx, streamActor))
	defer scancel()
	var park *parker
	nPub := 0
	nthWire := func(j int) (int, bool) {
		var ws []int
		for m := range s.wire {
			ws = append(ws, m)
		}
		sort.Ints(ws)
		if j < 1 || j > len(ws) {
			return 0, false
		}
		return ws[j-1], true
	}
	var fcM, fcB int
	sizes := map[int]int{}
	// deliverable according to the database
	availNow := func() ([]int, error) {
		st, err := w.Project(ctx)
		if err != nil {
			return nil, err
		}
		now := w.NowTU()
		avail := []int{}
		s.mu.Lock()
		defer s.mu.Unlock()
		for _, d := range st.Del {
			if d.Done == -1 && d.At <= now-1 && d.Exp > now+1 {
				for _, m := range st.Msgs {
					if m.ID == d.D[0] {
						if idx, ok := s.msgIdx[m.UUID.String()]; ok {
							avail = append(avail, idx)
						}
					}
				}
			}
		}
		sort.Ints(avail)
		return avail, nil
	}
	// does the harness itself expect another send? Only used to decide how long
	// to wait before declaring the stream quiet (the verdict is the specification's)
	expectMore := func(avail []int) bool {
		s.mu.Lock()
		defer s.mu.Unlock()
		n, bytes := 0, 0
		for m := range s.wire {
			n++
			bytes += sizes[m]
		}
		for _, m := range avail {
			if !s.wire[m] && n+1 <= fcM && (bytes+sizes[m] <= fcB || n == 0) {
				return true
			}
		}
		return false
	}
	quiesce := func(after string) error {
		start := time.Now()
		var avail []int
		for {
			s.mu.Lock()
			last, rerr := s.lastRecv, s.recvErr
			s.mu.Unlock()
			if rerr != nil {
				return fmt.Errorf("stream ended: %w", rerr)
			}
			if time.Since(last) >= quietFor && time.Since(start) >= quietFor {
				var err error
				if avail, err = availNow(); err != nil {
					return err
				}
				if !expectMore(avail) || time.Since(start) > quietMax {
					break
				}
			}
			time.Sleep(20 * time.Millisecond)
		}
		s.mu.Lock()
		defer s.mu.Unlock()
		s.emit(map[string]any{"op": "Quiet", "avail": avail, "after": after, "waited_ms": time.Since(start).Milliseconds()})
		return nil
	}
	for si, st := range sc.Steps {
		if len(sc.RaceAt) == 2 && si == sc.RaceAt[0] && si+1 < len(sc.Steps) {
			park = armParker(streamActor, sc.RaceAt[1])
		}
		if park != nil && si > sc.RaceAt[0]+1 {
			// the racing step was skipped (nothing on the wire to act on): never leave the stream parked
			park.free(streamActor)
			park = nil
		}
		switch st.Op {
		case "Open":
			var err error
			stream, err = w.Sub.StreamingPull(sctx)
			if err != nil {
				return nil, err
			}
			if err := stream.Send(&pubsubpb.StreamingPullRequest{Subscription: sub, StreamAckDeadlineSeconds: 60,
				MaxOutstandingMessages: int64(st.FcM), MaxOutstandingBytes: int64(st.FcB)}); err != nil {
				return nil, err
			}
			s.mu.Lock()
			fcM, fcB = st.FcM, st.FcB
			s.emit(map[string]any{"op": "Open", "fcM": st.FcM, "fcB": st.FcB})
			s.lastRecv = time.Now()
			s.mu.Unlock()
			go func() {
				for {
					resp, err := stream.Recv()
					s.mu.Lock()
					if err != nil {
						if sctx.Err() == nil {
							s.recvErr = err
						}
						s.mu.Unlock()
						return
					}
					ids := []int{}
					for _, rm := range resp.ReceivedMessages {
						idx, ok := s.msgIdx[rm.Message.MessageId]
						if !ok {
							idx = -1
						}
						ids = append(ids, idx)
						s.ackID[idx] = rm.AckId
						s.wire[idx] = true
					}
					s.lastRecv = time.Now()
					s.emit(map[string]any{"op": "Recv", "ids": ids})
					s.mu.Unlock()
				}
			}()
		case "Publish":
			req := &pubsubpb.PublishRequest{Topic: topic}
			for _, sz := range st.Sizes {
				req.Messages = append(req.Messages, &pubsubpb.PubsubMessage{Data: payload(sz)})
			}
			// register the ids before the stream can deliver them: hold the lock across the call
			s.mu.Lock()
			resp, err := w.Pub.Publish(world.ActorCtx(ctx, "publisher"), req)
			if err != nil {
				s.mu.Unlock()
				return nil, err
			}
			ids := []int{}
			for _, id := range resp.MessageIds {
				nPub++
				s.msgIdx[id] = nPub
				sizes[nPub] = len(req.Messages[len(ids)].Data)
				ids = append(ids, nPub)
			}
			s.emit(map[string]any{"op": "Publish", "ids": ids, "sizes": st.Sizes})
			s.mu.Unlock()
		case "Ack", "Nack", "ExtAck", "NackExt":
			s.mu.Lock()
			m, ok := nthWire(st.J)
			if !ok {
				s.mu.Unlock()
				if park != nil && si == sc.RaceAt[0]+1 {
					park.free(streamActor)
					park = nil
					if err := quiesce("Race"); err != nil {
						return nil, err
					}
				}
				continue
			}
			id := s.ackID[m]
			// NackExt: ONE request that nacks m (deadline 0) and extends another outstanding
			// message (deadline 30 s): in the contract that is a nack of m and nothing else
			extID := ""
			if st.Op == "NackExt" {
				var ws []int
				for x := range s.wire {
					if x != m {
						ws = append(ws, x)
					}
				}
				sort.Ints(ws)
				if len(ws) > 0 {
					extID = s.ackID[ws[0]]
				}
			}
			delete(s.wire, m)
			evOp := st.Op
			if evOp == "NackExt" {
				evOp = "Nack"
			}
			s.emit(map[string]any{"op": evOp, "ids": []int{m}})
			s.mu.Unlock()
			var err error
			switch st.Op {
			case "Ack":
				err = stream.Send(&pubsubpb.StreamingPullRequest{AckIds: []string{id}})
			case "Nack": // a nack on the gRPC stream is a zero modify-deadline
				err = stream.Send(&pubsubpb.StreamingPullRequest{ModifyDeadlineAckIds: []string{id}, ModifyDeadlineSeconds: []int32{0}})
			case "NackExt":
				req := &pubsubpb.StreamingPullRequest{ModifyDeadlineAckIds: []string{id}, ModifyDeadlineSeconds: []int32{0}}
				if extID != "" {
					req.ModifyDeadlineAckIds = append(req.ModifyDeadlineAckIds, extID)
					req.ModifyDeadlineSeconds = append(req.ModifyDeadlineSeconds, 30)
				}
				err = stream.Send(req)
			case "ExtAck":
				_, err = w.Sub.Acknowledge(cctx, &pubsubpb.AcknowledgeRequest{Subscription: sub, AckIds: []string{id}})
			}
			if err != nil {
				return nil, err
			}
		default:
			continue
		}
		if park != nil && si == sc.RaceAt[0] {
			// the next step runs inside the stream's reaction to this one
			parked := park.await(400 * time.Millisecond)
			s.mu.Lock()
			s.emit(map[string]any{"op": "Race", "k": sc.RaceAt[1], "parked": parked})
			s.mu.Unlock()
			continue
		}
		if park != nil && si == sc.RaceAt[0]+1 {
			park.free(streamActor)
			park = nil
		}
		if err := quiesce(st.Op); err != nil {
			if park != nil {
				park.free(streamActor)
			}
			return nil, err
		}
	}
	if park != nil {
		park.free(streamActor)
	}
	scancel()
	s.mu.Lock()
	defer s.mu.Unlock()
	return s.out, nil
}
