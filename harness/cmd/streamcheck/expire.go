package main

import (
	"context"
	"fmt"
	"sort"
	"time"

	"google.golang.org/protobuf/types/known/durationpb"

	"go.6river.tech/mmmbbb/grpc/pubsubpb"

	"go.6river.tech/mmmbbb/verifharness/world"
)

// Expire sessions (C11: "... not yet acknowledged, nacked or EXPIRED"): flow control full with one
// outstanding message whose retention (4 s, real time) then runs out; the next notification on
// the subscription (a publish) must let the stream notice that the slot is free and send the next
// deliverable message.
func runExpire(sc *scenario, scratch string) ([]map[string]any, error) {
	ctx, cancel := context.WithTimeout(context.Background(), 60*time.Second)
	defer cancel()
	w, err := world.New(ctx, scratch)
	if err != nil {
		return nil, err
	}
	defer w.Close()
	cctx := world.ActorCtx(ctx, "client")
	topic, sub := "projects/ps/topics/t", "projects/ps/subscriptions/s"
	if _, err := w.Pub.CreateTopic(cctx, &pubsubpb.Topic{Name: topic}); err != nil {
		return nil, err
	}
	if _, err := w.Sub.CreateSubscription(cctx, &pubsubpb.Subscription{Name: sub, Topic: topic,
		MessageRetentionDuration: durationpb.New(4 * time.Second),
		RetryPolicy:              &pubsubpb.RetryPolicy{MinimumBackoff: durationpb.New(10 * time.Minute), MaximumBackoff: durationpb.New(10 * time.Minute)}}); err != nil {
		return nil, err
	}
	s := &session{tr: sc.ID, msgIdx: map[string]int{}, ackID: map[int]string{}, wire: map[int]bool{}}
	s.emit(map[string]any{"op": "Reset"})
	sctx, scancel := context.WithCancel(world.ActorCtx(ctx, "stream:"+sc.ID))
	defer scancel()
	stream, err := w.Sub.StreamingPull(sctx)
	if err != nil {
		return nil, err
	}
	if err := stream.Send(&pubsubpb.StreamingPullRequest{Subscription: sub, StreamAckDeadlineSeconds: 60, MaxOutstandingMessages: 1, MaxOutstandingBytes: 1000000}); err != nil {
		return nil, err
	}
	s.emit(map[string]any{"op": "Open", "fcM": 1, "fcB": 1000000})
	recv := make(chan []int, 16)
	go func() {
		for {
			resp, err := stream.Recv()
			if err != nil {
				close(recv)
				return
			}
			var ids []int
			s.mu.Lock()
			for _, m := range resp.ReceivedMessages {
				ids = append(ids, s.msgIdx[m.Message.MessageId])
			}
			s.emit(map[string]any{"op": "Recv", "ids": ids})
			s.mu.Unlock()
			recv <- ids
		}
	}()
	n := 0
	publish := func() error {
		s.mu.Lock()
		defer s.mu.Unlock()
		resp, err := w.Pub.Publish(cctx, &pubsubpb.PublishRequest{Topic: topic, Messages: []*pubsubpb.PubsubMessage{{Data: payload(10)}}})
		if err != nil {
			return err
		}
		n++
		s.msgIdx[resp.MessageIds[0]] = n
		s.emit(map[string]any{"op": "Publish", "ids": []int{n}, "sizes": []int{10}})
		return nil
	}
	if err := publish(); err != nil { // m1
		return nil, err
	}
	t1 := time.Now()
	select {
	case ids := <-recv:
		if len(ids) != 1 || ids[0] != 1 {
			return nil, fmt.Errorf("expire precondition: first message not received: %v", ids)
		}
	case <-time.After(5 * time.Second):
		return nil, fmt.Errorf("expire precondition: nothing received")
	}
	time.Sleep(3 * time.Second)
	if err := publish(); err != nil { // m2: waits behind the full flow control
		return nil, err
	}
	time.Sleep(time.Until(t1.Add(4300 * time.Millisecond))) // m1's retention is over
	s.mu.Lock()
	s.emit(map[string]any{"op": "Expire", "ids": []int{1}})
	s.mu.Unlock()
	if err := publish(); err != nil { // m3: the notification that makes the stream look again
		return nil, err
	}
	// m2 must arrive promptly (its own retention only ends 7 s after the start)
	select {
	case <-recv:
	case <-time.After(2 * time.Second):
	}
	st, err := w.Project(ctx)
	if err != nil {
		return nil, err
	}
	now := w.NowTU()
	avail := []int{}
	s.mu.Lock()
	for _, d := range st.Del {
		if d.Done == -1 && d.At <= now-1 && d.Exp > now+1 {
			for _, m := range st.Msgs {
				if m.ID == d.D[0] {
					if idx, ok := s.msgIdx[m.UUID.String()]; ok {
						avail = append(avail, idx)
					}
				}
			}
		}
	}
	sort.Ints(avail)
	s.emit(map[string]any{"op": "Quiet", "avail": avail, "after": "Expire"})
	s.mu.Unlock()
	scancel()
	s.mu.Lock()
	defer s.mu.Unlock()
	return s.out, nil
}
