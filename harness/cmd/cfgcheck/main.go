// cfgcheck binds spec/Config.tla and spec/Interval.tla (C17) to the real code.
//
//	cfgcheck -cases cases.ndjson -out results.ndjson -scratch DIR [-workers N] [-seed S]
//
// A case is one JSON line printed by TLC:
//
//	{"kind":"cfg","id":..,"steps":[{"op":"create"|"update"|"deltopic","k":..,"req":{field classes},
//	  "mask":[paths],"want":{"sub":[readingB,readingA],"topic":{"live":..,"labels":token}}},..]}
//	{"kind":"pg","id":..,"rec":{interval record},"want":{"h":..,"s":..,"n":..}}
//	{"kind":"go","rec":{duration string record},"want":{...}}
//
// Configuration cases are executed through the real gRPC API of an in-process
// world (CreateTopic / UpdateTopic / GetTopic / ListTopics, CreateSubscription /
// UpdateSubscription / GetSubscription / ListSubscriptions, DeleteTopic). The
// harness chooses the concrete value of every value class (durations from 1 ns
// to 68 years and sums, label maps, filters, endpoints), remembers what it
// sent at which step, and after every step compares what Get and List return,
// field by field, with the reference tokens computed by TLC. Codec cases call
// sqltypes.ParsePostgreSQLInterval / Interval.Scan / Interval.Value directly.
package main

import (
	"bufio"
	"context"
	"encoding/json"
	"flag"
	"fmt"
	"math"
	"math/big"
	"math/rand"
	"os"
	"sort"
	"strings"
	"sync"
	"time"

	"google.golang.org/grpc"
	"google.golang.org/grpc/codes"
	"google.golang.org/grpc/credentials/insecure"
	"google.golang.org/grpc/status"
	"google.golang.org/protobuf/types/known/durationpb"
	"google.golang.org/protobuf/types/known/fieldmaskpb"

	"go.6river.tech/mmmbbb/ent"
	"go.6river.tech/mmmbbb/faults"
	mbgrpc "go.6river.tech/mmmbbb/grpc"
	"go.6river.tech/mmmbbb/ent/subscription"
	"go.6river.tech/mmmbbb/grpc/pubsubpb"
	"go.6river.tech/mmmbbb/internal"
	"go.6river.tech/mmmbbb/internal/sqltypes"
	"go.6river.tech/mmmbbb/services"

	"go.6river.tech/mmmbbb/verifharness/world"
)

// ---------------------------------------------------------------- case format

type Token struct {
	C string `json:"c"`
	K int    `json:"k"`
}
type RetryTok struct {
	Min Token `json:"min"`
	Max Token `json:"max"`
}
type DLTok struct {
	Topic string `json:"topic"`
	Max   int32  `json:"max"`
}
type SubWant struct {
	Topic    string   `json:"topic"`
	Labels   Token    `json:"labels"`
	Exp      Token    `json:"expiration_policy"`
	Ret      Token    `json:"message_retention_duration"`
	Ord      bool     `json:"enable_message_ordering"`
	Retry    RetryTok `json:"retry_policy"`
	Push     Token    `json:"push_config"`
	Filt     Token    `json:"filter"`
	DL       DLTok    `json:"dead_letter_policy"`
}
type Want struct {
	Sub   []SubWant `json:"sub"`
	Topic struct {
		Live   bool  `json:"live"`
		Labels Token `json:"labels"`
	} `json:"topic"`
}
type Req struct {
	Labels string `json:"labels"`
	Exp    string `json:"exp"`
	Ret    string `json:"ret"`
	Ord    bool   `json:"ord"`
	Retry  struct {
		Present bool   `json:"present"`
		Min     string `json:"min"`
		Max     string `json:"max"`
	} `json:"retry"`
	Push string `json:"push"`
	Filt string `json:"filt"`
	DL   struct {
		Present bool   `json:"present"`
		Topic   string `json:"topic"`
		Max     int32  `json:"max"`
	} `json:"dl"`
	TLabels string `json:"tlabels"`
}
type Step struct {
	Op    string   `json:"op"`
	K     int      `json:"k"`
	Req   Req      `json:"req"`
	Mask  []string `json:"mask"`
	Topic string   `json:"topic"`
	Want  Want     `json:"want"`
}
type Opt struct {
	P bool  `json:"p"`
	V int64 `json:"v"`
}
type Case struct {
	RS    int64           `json:"rs"` // seed of the concrete values of this case (kept in replay files)
	Kind  string          `json:"kind"`
	ID    json.RawMessage `json:"id"`
	Steps []Step          `json:"steps"`
	Rec   json.RawMessage `json:"rec"`
	Want  struct {
		H int64 `json:"h"`
		S int64 `json:"s"`
		N int64 `json:"n"`
	} `json:"want"`
}

type Mismatch struct {
	Step   int      `json:"step"`
	Op     string   `json:"op"`
	Via    string   `json:"via"`
	Field  string   `json:"field"`
	Class  string   `json:"class"`
	InMask bool     `json:"inmask"`
	Mask   []string `json:"mask,omitempty"`
	Want   string   `json:"want"`
	Got    string   `json:"got"`
}
type CodecMM struct {
	Clause  string `json:"clause"`
	Feature string `json:"feature"`
	Str     string `json:"str"`
	Want    string `json:"want"`
	Got     string `json:"got"`
}
type Result struct {
	Idx      int        `json:"idx"`
	Kind     string     `json:"kind"`
	Status   string     `json:"status"` // ok | rejected | error
	Err      string     `json:"err,omitempty"`
	Steps    int        `json:"steps"`
	Evals    int        `json:"evals"`
	MMB      []Mismatch `json:"mmB,omitempty"`
	MMA      []Mismatch `json:"mmA,omitempty"`
	Codec    []CodecMM  `json:"codec,omitempty"`
	Sent     []string   `json:"sent,omitempty"`
	RejectAt int        `json:"reject_at,omitempty"`
}

// ---------------------------------------------------------------- concrete values

type namedDur struct {
	label string
	d     *durationpb.Duration
}

func nd(label string, d time.Duration) namedDur { return namedDur{label, durationpb.New(d)} }

const dayD = 24 * time.Hour
const yearD = 365 * dayD

var smallDurs = []namedDur{
	nd("1ns", 1), nd("999ns", 999), nd("1us", time.Microsecond), nd("1ms", time.Millisecond), nd("1s", time.Second),
	nd("59s", 59*time.Second), nd("1h", time.Hour), nd("1d", dayD), nd("1h+1s+1ns", time.Hour+time.Second+1),
	nd("59s+999ns", 59*time.Second+999), nd("1ms+1us+1ns", time.Millisecond+time.Microsecond+1), nd("1d+1h+59s+1ms", dayD+time.Hour+59*time.Second+time.Millisecond),
}
var hugeDurs = []namedDur{
	nd("30d", 30*dayD), nd("1y", yearD), nd("68y", 68*yearD), nd("68y+30d+59s+999ns", 68*yearD+30*dayD+59*time.Second+999),
	nd("1y+1d+1h+1s+1ms+1us+1ns", yearD+dayD+time.Hour+time.Second+time.Millisecond+time.Microsecond+1),
	{"over292y:300y", &durationpb.Duration{Seconds: 300 * 365 * 86400}},
}

func durOf(class string, pick int) (namedDur, bool) {
	switch class {
	case "small":
		return smallDurs[pick%len(smallDurs)], true
	case "huge":
		return hugeDurs[pick%len(hugeDurs)], true
	case "zero":
		return namedDur{"0", &durationpb.Duration{}}, true
	}
	return namedDur{}, false
}

func labelsOf(class string, k int) map[string]string {
	switch class {
	case "absent":
		return nil
	case "empty":
		return map[string]string{}
	case "small":
		return map[string]string{"a": fmt.Sprintf("v%d", k), "empty-value": ""}
	case "unicode":
		return map[string]string{"ключ": fmt.Sprintf("значение-%d", k), "emoji": "😀é", "sp ace": "tab\there \"q\" \\ /", "k": "line\nbreak"}
	case "many":
		m := map[string]string{}
		for i := 0; i < 64; i++ {
			m[fmt.Sprintf("key-%02d", i)] = fmt.Sprintf("value-%d-%d", k, i)
		}
		return m
	}
	panic("label class " + class)
}

func filterOf(k, pick int) string {
	fs := []string{
		fmt.Sprintf(`attributes.a = "v%d"`, k),
		fmt.Sprintf(`attributes:b%d`, k),
		fmt.Sprintf(`hasPrefix(attributes.c, "p%d")`, k),
		fmt.Sprintf(`NOT attributes:d%d AND attributes.e != "x"`, k),
		fmt.Sprintf(`attributes.f = "x%d" OR attributes:g`, k),
	}
	return fs[pick%len(fs)]
}

// ---------------------------------------------------------------- configuration cases

type sentVals struct {
	labels, tlabels map[string]string
	exp, ret        namedDur
	rmin, rmax      namedDur
	push, filt      string
}

type runner struct {
	w     *world.World
	seed  int64
	nproj int
	pub   pubsubpb.PublisherClient
	sub   pubsubpb.SubscriberClient
	stop  func()
}

var svcSeq int32
var svcMu sync.Mutex

// newRunner makes a fresh world and serves its database through the
// PRODUCTION gRPC service (interceptor chain included), so that a request the
// deployed server answers with an error status is answered the same way here.
func newRunner(scratch string, seed int64) (*runner, error) {
	ctx, cancel := context.WithTimeout(context.Background(), 60*time.Second)
	defer cancel()
	w, err := world.New(ctx, scratch)
	if err != nil {
		return nil, err
	}
	svcMu.Lock()
	svcSeq++
	base := 30000 + int(svcSeq)
	svcMu.Unlock()
	internal.EnableRandomPorts()
	svc := mbgrpc.NewGrpcService(base, 0, nil, faults.NewSet("cfgcheck"),
		func(_ context.Context, server *grpc.Server, client *ent.Client) error {
			return services.InitializeGrpcServers(server, client, nil)
		})
	sctx, scancel := context.WithCancel(context.Background())
	if err := svc.Initialize(sctx, w.Client); err != nil {
		scancel()
		w.Close()
		return nil, err
	}
	ready := make(chan struct{})
	errc := make(chan error, 1)
	go func() { errc <- svc.Start(sctx, ready) }()
	<-ready
	select {
	case err := <-errc:
		scancel()
		w.Close()
		if err == nil {
			err = fmt.Errorf("gRPC service stopped at once")
		}
		return nil, err
	case <-time.After(10 * time.Millisecond):
	}
	conn, err := grpc.NewClient(fmt.Sprintf("127.0.0.1:%d", internal.ResolvePort(base, 0)), grpc.WithTransportCredentials(insecure.NewCredentials()))
	if err != nil {
		scancel()
		w.Close()
		return nil, err
	}
	r := &runner{w: w, seed: seed, pub: pubsubpb.NewPublisherClient(conn), sub: pubsubpb.NewSubscriberClient(conn)}
	r.stop = func() {
		_ = conn.Close()
		// cancelling the context makes the service stop gracefully; Cleanup is
		// not called concurrently (it would race with that shutdown goroutine)
		scancel()
		select {
		case <-errc:
		case <-time.After(10 * time.Second):
		}
		w.Close()
	}
	return r, nil
}

const subPathsN = 8

var subPathSet = map[string]bool{"labels": true, "expiration_policy": true, "message_retention_duration": true,
	"enable_message_ordering": true, "retry_policy": true, "push_config": true, "filter": true, "dead_letter_policy": true}

func durStr(d *durationpb.Duration) string {
	if d == nil {
		return "absent"
	}
	return fmt.Sprintf("%ds+%dns", d.Seconds, d.Nanos)
}

func sameDur(a, b *durationpb.Duration) bool {
	return a != nil && b != nil && a.Seconds == b.Seconds && a.Nanos == b.Nanos
}

func sameMap(a, b map[string]string) bool {
	if len(a) != len(b) {
		return false
	}
	for k, v := range a {
		if w, ok := b[k]; !ok || w != v {
			return false
		}
	}
	return true
}

func mapStr(m map[string]string) string {
	ks := make([]string, 0, len(m))
	for k := range m {
		ks = append(ks, k)
	}
	sort.Strings(ks)
	var sb strings.Builder
	sb.WriteString("{")
	for i, k := range ks {
		if i > 5 {
			fmt.Fprintf(&sb, ",...(%d keys)", len(ks))
			break
		}
		if i > 0 {
			sb.WriteString(",")
		}
		fmt.Fprintf(&sb, "%q:%q", k, m[k])
	}
	sb.WriteString("}")
	return sb.String()
}

type cmpCtx struct {
	sent    map[int]*sentVals
	classAt map[int]Req
	names   map[string]string // model topic -> full name
	step    Step
	via     string
	out     *[]Mismatch
	evals   *int
	// seen remembers the last reported mismatch per field: a wrong value that
	// merely PERSISTS over later steps is reported once, at the step that caused it
	seen map[string]string
}

func (c *cmpCtx) add(field, class, want, got string) {
	key, val := c.via+"/"+field, want+"|"+got
	if c.seen[key] == val {
		return
	}
	c.seen[key] = val
	in := false
	for _, p := range c.step.Mask {
		if p == field || strings.HasPrefix(field, p+".") {
			in = true
		}
	}
	*c.out = append(*c.out, Mismatch{Step: c.step.K, Op: c.step.Op, Via: c.via, Field: field, Class: class, InMask: in,
		Mask: c.step.Mask, Want: want, Got: got})
}

func (c *cmpCtx) durTok(field string, t Token, got *durationpb.Duration, dflt time.Duration, cls func(Req) string, val func(*sentVals) namedDur) {
	*c.evals++
	switch t.C {
	case "default":
		if !sameDur(got, durationpb.New(dflt)) {
			c.add(field, "default", "default "+dflt.String(), durStr(got))
		}
	case "absent":
		if got != nil {
			c.add(field, "absent", "absent", durStr(got))
		}
	case "zero":
		if got == nil || got.Seconds != 0 || got.Nanos != 0 {
			c.add(field, "zero", "0s (present)", durStr(got))
		}
	default:
		s := val(c.sent[t.K])
		if !sameDur(got, s.d) {
			c.add(field, t.C+":"+s.label, fmt.Sprintf("%s = %s (sent at step %d)", s.label, durStr(s.d), t.K), durStr(got))
		}
	}
}

func (c *cmpCtx) compareSub(w SubWant, got *pubsubpb.Subscription) {
	// topic
	*c.evals++
	wantTopic := w.Topic
	if n, ok := c.names[w.Topic]; ok {
		wantTopic = n
	}
	if got.Topic != wantTopic {
		c.add("topic", "name", wantTopic, got.Topic)
	}
	// labels
	*c.evals++
	if w.Labels.C == "empty" {
		if len(got.Labels) != 0 {
			c.add("labels", "empty", "{}", mapStr(got.Labels))
		}
	} else if s := c.sent[w.Labels.K].labels; !sameMap(got.Labels, s) {
		c.add("labels", w.Labels.C, mapStr(s), mapStr(got.Labels))
	}
	c.durTok("expiration_policy", w.Exp, got.GetExpirationPolicy().GetTtl(), 30*dayD, nil, func(s *sentVals) namedDur { return s.exp })
	c.durTok("message_retention_duration", w.Ret, got.GetMessageRetentionDuration(), 7*dayD, nil, func(s *sentVals) namedDur { return s.ret })
	*c.evals++
	if got.EnableMessageOrdering != w.Ord {
		c.add("enable_message_ordering", fmt.Sprint(w.Ord), fmt.Sprint(w.Ord), fmt.Sprint(got.EnableMessageOrdering))
	}
	// retry policy: both bounds absent <=> no block (an empty block is tolerated)
	c.durTok("retry_policy.minimum_backoff", w.Retry.Min, got.GetRetryPolicy().GetMinimumBackoff(), 0, nil, func(s *sentVals) namedDur { return s.rmin })
	c.durTok("retry_policy.maximum_backoff", w.Retry.Max, got.GetRetryPolicy().GetMaximumBackoff(), 0, nil, func(s *sentVals) namedDur { return s.rmax })
	// push
	*c.evals++
	if w.Push.C == "none" {
		if got.GetPushConfig().GetPushEndpoint() != "" {
			c.add("push_config", "none", "no endpoint", got.GetPushConfig().GetPushEndpoint())
		}
	} else if s := c.sent[w.Push.K].push; got.GetPushConfig().GetPushEndpoint() != s {
		c.add("push_config", "endpoint", s, got.GetPushConfig().GetPushEndpoint())
	}
	// filter
	*c.evals++
	if w.Filt.C == "none" {
		if got.Filter != "" {
			c.add("filter", "none", "", got.Filter)
		}
	} else if s := c.sent[w.Filt.K].filt; got.Filter != s {
		c.add("filter", "set", s, got.Filter)
	}
	// dead letter
	*c.evals++
	if w.DL.Topic == "" {
		if got.GetDeadLetterPolicy().GetDeadLetterTopic() != "" || got.GetDeadLetterPolicy().GetMaxDeliveryAttempts() != 0 {
			c.add("dead_letter_policy", "absent", "absent", fmt.Sprintf("%s/%d", got.GetDeadLetterPolicy().GetDeadLetterTopic(), got.GetDeadLetterPolicy().GetMaxDeliveryAttempts()))
		}
	} else {
		wt := w.DL.Topic
		if n, ok := c.names[wt]; ok {
			wt = n
		}
		if got.GetDeadLetterPolicy().GetDeadLetterTopic() != wt || got.GetDeadLetterPolicy().GetMaxDeliveryAttempts() != w.DL.Max {
			c.add("dead_letter_policy", fmt.Sprintf("max=%d", w.DL.Max), fmt.Sprintf("%s/%d", wt, w.DL.Max),
				fmt.Sprintf("%s/%d", got.GetDeadLetterPolicy().GetDeadLetterTopic(), got.GetDeadLetterPolicy().GetMaxDeliveryAttempts()))
		}
	}
}

// fill sets the configuration fields of a Subscription message from a request of classes
func fill(sub *pubsubpb.Subscription, req Req, k int, rnd *rand.Rand, names map[string]string) *sentVals {
	sv := &sentVals{}
	sv.labels = labelsOf(req.Labels, k)
	sub.Labels = sv.labels
	base := rnd.Intn(1000)
	switch req.Exp {
	case "absent":
	case "empty":
		sub.ExpirationPolicy = &pubsubpb.ExpirationPolicy{}
	default:
		sv.exp, _ = durOf(req.Exp, base+k)
		sub.ExpirationPolicy = &pubsubpb.ExpirationPolicy{Ttl: sv.exp.d}
	}
	if req.Ret != "absent" {
		sv.ret, _ = durOf(req.Ret, base/7+k)
		sub.MessageRetentionDuration = sv.ret.d
	}
	sub.EnableMessageOrdering = req.Ord
	if req.Retry.Present {
		sub.RetryPolicy = &pubsubpb.RetryPolicy{}
		if req.Retry.Min != "absent" {
			sv.rmin, _ = durOf(req.Retry.Min, base/3+k)
			sub.RetryPolicy.MinimumBackoff = sv.rmin.d
		}
		if req.Retry.Max != "absent" {
			sv.rmax, _ = durOf(req.Retry.Max, base/5+k)
			sub.RetryPolicy.MaximumBackoff = sv.rmax.d
		}
	}
	switch req.Push {
	case "absent":
	case "empty":
		sub.PushConfig = &pubsubpb.PushConfig{}
	case "endpoint":
		sv.push = fmt.Sprintf("http://127.0.0.1:9/push/%d/%d", k, base)
		sub.PushConfig = &pubsubpb.PushConfig{PushEndpoint: sv.push}
	}
	if req.Filt == "set" {
		sv.filt = filterOf(k, base)
		sub.Filter = sv.filt
	}
	if req.DL.Present {
		sub.DeadLetterPolicy = &pubsubpb.DeadLetterPolicy{DeadLetterTopic: names[req.DL.Topic], MaxDeliveryAttempts: req.DL.Max}
	}
	sv.tlabels = labelsOf(req.TLabels, k+100)
	return sv
}

func (sv *sentVals) describe() string {
	return fmt.Sprintf("exp=%s ret=%s retry=%s/%s labels=%d push=%q filter=%q", sv.exp.label, sv.ret.label, sv.rmin.label, sv.rmax.label, len(sv.labels), sv.push, sv.filt)
}

func (r *runner) runCfg(ctx context.Context, idx int, cs *Case) Result {
	res := Result{Idx: idx, Kind: "cfg", Status: "ok"}
	rs := cs.RS
	if rs == 0 {
		rs = r.seed*1000003 + int64(idx)
	}
	rnd := rand.New(rand.NewSource(rs))
	r.nproj++
	proj := fmt.Sprintf("projects/c%d-%d", idx, r.nproj)
	names := map[string]string{"t1": proj + "/topics/t1", "t2": proj + "/topics/t2", "t3": proj + "/topics/t3"}
	subName := proj + "/subscriptions/s"
	sent := map[int]*sentVals{}
	classAt := map[int]Req{}
	seen := []map[string]string{{}, {}}
	w := struct {
		Pub pubsubpb.PublisherClient
		Sub pubsubpb.SubscriberClient
	}{r.pub, r.sub}
	fail := func(err error) Result {
		res.Status, res.Err = "error", err.Error()
		return res
	}
	for _, st := range cs.Steps {
		if st.Op == "end" {
			break
		}
		switch st.Op {
		case "create":
			sub := &pubsubpb.Subscription{Name: subName, Topic: names["t1"]}
			sv := fill(sub, st.Req, st.K, rnd, names)
			sent[st.K], classAt[st.K] = sv, st.Req
			res.Sent = append(res.Sent, fmt.Sprintf("step %d create: %s", st.K, sv.describe()))
			for _, t := range []string{"t1", "t2", "t3"} {
				tp := &pubsubpb.Topic{Name: names[t]}
				if t == "t1" {
					tp.Labels = sv.tlabels
				}
				if _, err := w.Pub.CreateTopic(ctx, tp); err != nil {
					return fail(fmt.Errorf("create topic: %w", err))
				}
			}
			if _, err := w.Sub.CreateSubscription(ctx, sub); err != nil {
				if c := status.Code(err); c == codes.InvalidArgument || c == codes.Unimplemented || c == codes.Unknown || c == codes.NotFound || c == codes.Internal {
					// the server rejects this value: not part of C17
					res.Status, res.RejectAt, res.Err = "rejected", st.K, err.Error()
					return res
				}
				return fail(err)
			}
		case "update":
			sub := &pubsubpb.Subscription{Name: subName}
			sv := fill(sub, st.Req, st.K, rnd, names)
			sent[st.K], classAt[st.K] = sv, st.Req
			res.Sent = append(res.Sent, fmt.Sprintf("step %d update %v: %s", st.K, st.Mask, sv.describe()))
			var paths []string
			topicLabels := false
			for _, p := range st.Mask {
				if subPathSet[p] {
					paths = append(paths, p)
				} else if p == "topic.labels" {
					topicLabels = true
				}
			}
			rnd.Shuffle(len(paths), func(i, j int) { paths[i], paths[j] = paths[j], paths[i] })
			if _, err := w.Sub.UpdateSubscription(ctx, &pubsubpb.UpdateSubscriptionRequest{Subscription: sub, UpdateMask: &fieldmaskpb.FieldMask{Paths: paths}}); err != nil {
				if c := status.Code(err); c == codes.InvalidArgument || c == codes.Unimplemented || c == codes.NotFound || c == codes.Internal || c == codes.Unknown {
					res.Status, res.RejectAt, res.Err = "rejected", st.K, err.Error()
					return res
				}
				return fail(err)
			}
			if st.Want.Topic.Live {
				tm := &fieldmaskpb.FieldMask{}
				if topicLabels {
					tm.Paths = []string{"labels"}
				}
				if _, err := w.Pub.UpdateTopic(ctx, &pubsubpb.UpdateTopicRequest{Topic: &pubsubpb.Topic{Name: names["t1"], Labels: sv.tlabels}, UpdateMask: tm}); err != nil {
					return fail(fmt.Errorf("update topic: %w", err))
				}
			}
		case "deltopic":
			if _, err := w.Pub.DeleteTopic(ctx, &pubsubpb.DeleteTopicRequest{Topic: names[st.Topic]}); err != nil {
				return fail(fmt.Errorf("delete topic: %w", err))
			}
		default:
			return fail(fmt.Errorf("unknown op %q", st.Op))
		}
		res.Steps++
		// read back: Get and List
		got, err := w.Sub.GetSubscription(ctx, &pubsubpb.GetSubscriptionRequest{Subscription: subName})
		if err != nil {
			return fail(fmt.Errorf("get subscription: %w", err))
		}
		var listed *pubsubpb.Subscription
		tok := ""
		for {
			lr, err := w.Sub.ListSubscriptions(ctx, &pubsubpb.ListSubscriptionsRequest{Project: proj, PageToken: tok})
			if err != nil {
				return fail(fmt.Errorf("list subscriptions: %w", err))
			}
			for _, s := range lr.Subscriptions {
				if s.Name == subName {
					listed = s
				}
			}
			tok = lr.NextPageToken
			if tok == "" || listed != nil {
				break
			}
		}
		if listed == nil {
			return fail(fmt.Errorf("subscription missing from ListSubscriptions"))
		}
		for ri, outp := range []*[]Mismatch{&res.MMB, &res.MMA} {
			ev := 0
			evp := &ev
			if ri == 0 {
				evp = &res.Evals
			}
			for _, via := range []string{"get", "list"} {
				c := &cmpCtx{sent: sent, classAt: classAt, names: names, step: st, via: via, out: outp, evals: evp, seen: seen[ri]}
				if via == "get" {
					c.compareSub(st.Want.Sub[ri], got)
				} else {
					c.compareSub(st.Want.Sub[ri], listed)
				}
			}
		}
		// enforcement probe: after a create, or an update that names expiration_policy, the stored
		// expiry instant must be "now + the TTL that Get reports" (what is shown is what is enforced)
		expInMask := false
		for _, p := range st.Mask {
			if p == "expiration_policy" {
				expInMask = true
			}
		}
		if st.Op == "create" || (st.Op == "update" && expInMask) {
			row, err := r.w.Client.Subscription.Query().Where(subscription.Name(subName), subscription.DeletedAtIsNil()).Only(ctx)
			if err != nil {
				return fail(fmt.Errorf("subscription row: %w", err))
			}
			res.Evals++
			shown := got.GetExpirationPolicy().GetTtl().AsDuration()
			left := time.Until(row.ExpiresAt)
			if d := left - shown; d > 20*time.Second || d < -20*time.Second {
				mm := Mismatch{Step: st.K, Op: st.Op, Via: "get", Field: "expiration_policy.enforced", Class: st.Req.Exp, InMask: expInMask, Mask: st.Mask,
					Want: "expires in " + shown.String() + " (the reported TTL)", Got: "expires in " + left.Round(time.Second).String()}
				res.MMB = append(res.MMB, mm)
				res.MMA = append(res.MMA, mm)
			}
		}
		if st.Want.Topic.Live {
			gt, err := w.Pub.GetTopic(ctx, &pubsubpb.GetTopicRequest{Topic: names["t1"]})
			if err != nil {
				return fail(fmt.Errorf("get topic: %w", err))
			}
			lt, err := w.Pub.ListTopics(ctx, &pubsubpb.ListTopicsRequest{Project: proj})
			if err != nil {
				return fail(fmt.Errorf("list topics: %w", err))
			}
			var ltp *pubsubpb.Topic
			for _, t := range lt.Topics {
				if t.Name == names["t1"] {
					ltp = t
				}
			}
			if ltp == nil {
				return fail(fmt.Errorf("topic missing from ListTopics"))
			}
			for via, t := range map[string]*pubsubpb.Topic{"get": gt, "list": ltp} {
				res.Evals++
				tl := st.Want.Topic.Labels
				var mm *Mismatch
				if tl.C == "empty" {
					if len(t.Labels) != 0 {
						mm = &Mismatch{Want: "{}", Got: mapStr(t.Labels)}
					}
				} else if s := sent[tl.K].tlabels; !sameMap(t.Labels, s) {
					mm = &Mismatch{Want: mapStr(s), Got: mapStr(t.Labels)}
				}
				if mm != nil {
					mm.Step, mm.Op, mm.Via, mm.Field, mm.Class, mm.Mask = st.K, st.Op, via, "topic.labels", tl.C, st.Mask
					for _, p := range st.Mask {
						if p == "topic.labels" {
							mm.InMask = true
						}
					}
					res.MMB = append(res.MMB, *mm)
					res.MMA = append(res.MMA, *mm)
				}
			}
		}
	}
	if len(res.MMB) == 0 && len(res.MMA) == 0 {
		res.Sent = nil
	}
	return res
}

// ---------------------------------------------------------------- codec cases

func totalNs(h, s, n int64) (int64, bool) {
	t := new(big.Int).Mul(big.NewInt(h), big.NewInt(3600_000_000_000))
	t.Add(t, new(big.Int).Mul(big.NewInt(s), big.NewInt(1_000_000_000)))
	t.Add(t, big.NewInt(n))
	if !t.IsInt64() {
		return 0, false
	}
	return t.Int64(), true
}

type pgRec struct {
	Y, Mo, D Opt
	Tneg     bool
	H, M, S  int64
	Fd       int
	Fv       int64
}

// renderPg prints the record as PostgreSQL's default output style does
func renderPg(r pgRec) string {
	var sb strings.Builder
	isZero, isBefore := true, false
	part := func(o Opt, unit string) {
		if !o.P || o.V == 0 {
			return
		}
		if !isZero {
			sb.WriteString(" ")
		}
		if isBefore && o.V > 0 {
			sb.WriteString("+")
		}
		fmt.Fprintf(&sb, "%d %s", o.V, unit)
		if o.V != 1 {
			sb.WriteString("s")
		}
		isBefore = o.V < 0
		isZero = false
	}
	part(r.Y, "year")
	part(r.Mo, "mon")
	part(r.D, "day")
	if !isZero {
		sb.WriteString(" ")
	}
	if r.Tneg {
		sb.WriteString("-")
	} else if isBefore {
		sb.WriteString("+")
	}
	fmt.Fprintf(&sb, "%02d:%02d:%02d", r.H, r.M, r.S)
	if r.Fd > 0 {
		fmt.Fprintf(&sb, ".%0*d", r.Fd, r.Fv)
	}
	return sb.String()
}

func roundTrip(d time.Duration) *CodecMM {
	v, err := sqltypes.Interval(d).Value()
	if err != nil {
		return &CodecMM{Clause: "codec-roundtrip", Feature: "value-error", Str: fmt.Sprint(int64(d)), Want: "a value", Got: err.Error()}
	}
	var back sqltypes.Interval
	if err := back.Scan(v); err != nil {
		return &CodecMM{Clause: "codec-roundtrip", Feature: "scan-error", Str: fmt.Sprint(v), Want: fmt.Sprint(int64(d)), Got: err.Error()}
	}
	if time.Duration(back) != d {
		return &CodecMM{Clause: "codec-roundtrip", Feature: "value", Str: fmt.Sprint(v), Want: fmt.Sprint(int64(d)), Got: fmt.Sprint(int64(back))}
	}
	js, err := json.Marshal(sqltypes.Interval(d))
	if err == nil {
		var b2 sqltypes.Interval
		if err := json.Unmarshal(js, &b2); err != nil || time.Duration(b2) != d {
			return &CodecMM{Clause: "codec-roundtrip", Feature: "json", Str: string(js), Want: fmt.Sprint(int64(d)), Got: fmt.Sprint(int64(b2), err)}
		}
	}
	return nil
}

func runCodec(idx int, cs *Case) Result {
	res := Result{Idx: idx, Kind: cs.Kind, Status: "ok", Steps: 1}
	want, fits := totalNs(cs.Want.H, cs.Want.S, cs.Want.N)
	var str, feature string
	switch cs.Kind {
	case "pg":
		var raw struct {
			Y, Mo, D Opt
			Tneg     bool
			H, M, S  int64
			Fd       int
			Fv       int64
		}
		if err := json.Unmarshal(cs.Rec, &raw); err != nil {
			res.Status, res.Err = "error", err.Error()
			return res
		}
		str = renderPg(pgRec(raw))
		switch {
		case raw.Tneg:
			feature = "time=negative"
		case raw.Fd > 0:
			feature = fmt.Sprintf("fraction-digits=%d", raw.Fd)
		default:
			feature = "other"
		}
	case "go":
		var raw struct {
			Neg  bool
			H, M Opt
			Tail string
		}
		if err := json.Unmarshal(cs.Rec, &raw); err != nil {
			res.Status, res.Err = "error", err.Error()
			return res
		}
		if raw.Neg {
			str = "-"
		}
		if raw.H.P {
			str += fmt.Sprintf("%dh", raw.H.V)
		}
		if raw.M.P {
			str += fmt.Sprintf("%dm", raw.M.V)
		}
		str += strings.ReplaceAll(raw.Tail, "{micro}", "µ")
		feature = "go-duration"
	case "rt":
		var d int64
		if err := json.Unmarshal(cs.Rec, &d); err != nil {
			res.Status, res.Err = "error", err.Error()
			return res
		}
		res.Evals = 1
		if mm := roundTrip(time.Duration(d)); mm != nil {
			res.Codec = append(res.Codec, *mm)
		}
		return res
	}
	if !fits {
		// the reference value is outside the representable range: any answer but a panic is fine
		_, _ = sqltypes.ParsePostgreSQLInterval(str)
		res.Status = "rejected"
		return res
	}
	res.Evals = 3
	clause := "codec-pg-parse"
	if cs.Kind == "go" {
		clause = "codec-go-parse"
	}
	got, err := sqltypes.ParsePostgreSQLInterval(str)
	if err != nil {
		res.Codec = append(res.Codec, CodecMM{Clause: clause, Feature: feature, Str: str, Want: time.Duration(want).String(), Got: "error: " + err.Error()})
	} else if int64(got) != want {
		res.Codec = append(res.Codec, CodecMM{Clause: clause, Feature: feature, Str: str, Want: time.Duration(want).String(), Got: got.String()})
	}
	var iv sqltypes.Interval
	if err := iv.Scan(str); err == nil && int64(iv) != want && len(res.Codec) == 0 {
		res.Codec = append(res.Codec, CodecMM{Clause: clause, Feature: feature + "(Scan)", Str: str, Want: time.Duration(want).String(), Got: iv.String()})
	}
	if mm := roundTrip(time.Duration(want)); mm != nil {
		res.Codec = append(res.Codec, *mm)
	}
	return res
}

// ---------------------------------------------------------------- main

func main() {
	casesPath := flag.String("cases", "", "ndjson of cases")
	outPath := flag.String("out", "", "results ndjson")
	scratch := flag.String("scratch", os.TempDir(), "scratch directory")
	workers := flag.Int("workers", 8, "parallel worlds")
	seed := flag.Int64("seed", 1, "seed for concrete values")
	withRT := flag.Bool("rt", true, "add the Scan(Value(d)) = d family over boundary and seeded durations")
	flag.Parse()
	f, err := os.Open(*casesPath)
	if err != nil {
		fmt.Fprintln(os.Stderr, err)
		os.Exit(2)
	}
	var cases []*Case
	sc := bufio.NewScanner(f)
	sc.Buffer(make([]byte, 1<<20), 1<<26)
	for sc.Scan() {
		if len(sc.Bytes()) == 0 {
			continue
		}
		var c Case
		if err := json.Unmarshal(sc.Bytes(), &c); err != nil {
			fmt.Fprintln(os.Stderr, "bad case:", err)
			os.Exit(2)
		}
		cases = append(cases, &c)
	}
	f.Close()
	// the round-trip family Scan(Value(d)) = d over boundary and seeded durations
	rnd := rand.New(rand.NewSource(*seed))
	addRT := func(d int64) {
		b, _ := json.Marshal(d)
		cases = append(cases, &Case{Kind: "rt", Rec: b})
	}
	if !*withRT {
		addRT = func(int64) {}
	}
	for _, d := range []int64{0, 1, -1, 999, 1000, 1001, 999999, 1000000, 999999999, 1000000000, 59999999999, 60000000000,
		3599999999999, 3600000000000, 86400000000000, math.MaxInt64, math.MinInt64, math.MaxInt64 - 1, math.MinInt64 + 1} {
		addRT(d)
	}
	for i := 0; i < 2000; i++ {
		// spread over all magnitudes
		addRT(rnd.Int63() >> uint(rnd.Intn(63)) * int64(1-2*rnd.Intn(2)))
	}
	results := make([]Result, len(cases))
	jobs := make(chan int)
	var wg sync.WaitGroup
	var toolErr error
	var mu sync.Mutex
	for wk := 0; wk < *workers; wk++ {
		wg.Add(1)
		go func() {
			defer wg.Done()
			var r *runner
			n := 0
			defer func() {
				if r != nil {
					r.stop()
				}
			}()
			for i := range jobs {
				c := cases[i]
				if c.Kind != "cfg" {
					results[i] = runCodec(i, c)
					continue
				}
				if r == nil || n >= 300 {
					if r != nil {
						r.stop()
						r = nil
					}
					nr, err := newRunner(*scratch, *seed)
					if err != nil {
						mu.Lock()
						toolErr = err
						mu.Unlock()
						results[i] = Result{Idx: i, Kind: "cfg", Status: "error", Err: err.Error()}
						continue
					}
					r = nr
					n = 0
				}
				n++
				ctx, cancel := context.WithTimeout(context.Background(), 60*time.Second)
				results[i] = r.runCfg(ctx, i, c)
				cancel()
			}
		}()
	}
	for i := range cases {
		jobs <- i
	}
	close(jobs)
	wg.Wait()
	if toolErr != nil {
		fmt.Fprintln(os.Stderr, "cfgcheck:", toolErr)
		os.Exit(2)
	}
	out, err := os.Create(*outPath)
	if err != nil {
		fmt.Fprintln(os.Stderr, err)
		os.Exit(2)
	}
	wr := bufio.NewWriter(out)
	enc := json.NewEncoder(wr)
	for _, r := range results {
		_ = enc.Encode(r)
	}
	wr.Flush()
	out.Close()
}
