package main

import (
	"encoding/json"
	"fmt"
	"math/rand"
	"os"
)

type replayFile struct {
	Prop   string         `json:"prop"`
	Replay map[string]any `json:"replay"`
}

func rstr(m map[string]any, k string) string { s, _ := m[k].(string); return s }
func rint(m map[string]any, k string) int {
	f, _ := m[k].(float64)
	return int(f)
}
func rints(m map[string]any, k string) []int {
	var out []int
	if l, ok := m[k].([]any); ok {
		for _, x := range l {
			if f, ok := x.(float64); ok {
				out = append(out, int(f))
			}
		}
	}
	return out
}
func rstrs(m map[string]any, k string) []string {
	var out []string
	if l, ok := m[k].([]any); ok {
		for _, x := range l {
			if s, ok := x.(string); ok {
				out = append(out, s)
			}
		}
	}
	return out
}
func rattrs(m map[string]any, k string) map[string]string {
	out := map[string]string{}
	if a, ok := m[k].(map[string]any); ok {
		for n, v := range a {
			if s, ok := v.(string); ok {
				out[n] = s
			}
		}
	}
	return out
}
func contains(xs []int, x int) bool {
	for _, y := range xs {
		if x == y {
			return true
		}
	}
	return false
}

// runReplay re-executes exactly one recorded case.
func runReplay(in, out, scratch string) error {
	b, err := os.ReadFile(in)
	if err != nil {
		return err
	}
	var rf replayFile
	if err := json.Unmarshal(b, &rf); err != nil {
		return err
	}
	rp := rf.Replay
	res := newResult("replay", 0)
	c := &c08ctx{res: res, dedup: map[uint64]struct{}{}, selAcc: &synSel{}, selRej: &synSel{}}
	rng := rand.New(rand.NewSource(1))
	pre := rf.Prop
	switch rstr(rp, "kind") {
	case "c07-eval":
		s := rstr(rp, "filter")
		attrs := rattrs(rp, "attrs")
		p := safeParse(s)
		if !p.ok() {
			res.add(violation{Clause: pre + ":parse", Detail: "valid-filter-rejected", Msg: fmt.Sprintf("ParseString(%q): %v %v", s, p.Err, p.Out), Replay: rp})
			break
		}
		got, e, o := evalAll(p.F, []map[string]string{attrs})
		if e != nil || o.bad() {
			res.add(violation{Clause: pre + ":total", Detail: "evaluate-" + kindOfErr(o, e), Msg: fmt.Sprintf("Evaluate of %q: %v %v", s, e, o), Replay: rp})
			break
		}
		if !contains(rints(rp, "expect"), got[0]) {
			res.add(violation{Clause: pre + ":eval", Detail: "result-differs-from-reference",
				Msg: fmt.Sprintf("filter %s on attributes %s: implementation %d, reference %v", s, jsonStr(attrs), got[0], rints(rp, "expect")), Replay: rp})
		}
	case "c07-law":
		f, g := rstr(rp, "f"), rstr(rp, "g")
		pf, pg := safeParse(f), safeParse(g)
		if !pf.ok() || !pg.ok() {
			res.add(violation{Clause: pre + ":parse", Detail: "valid-filter-rejected", Msg: fmt.Sprintf("ParseString: %v %v", pf.Err, pg.Err), Replay: rp})
			break
		}
		maps := []map[string]string{rattrs(rp, "attrs")}
		r1, _, _ := evalAll(pf.F, maps)
		r2, _, _ := evalAll(pg.F, maps)
		if r1[0] != r2[0] {
			res.add(violation{Clause: pre + ":law", Detail: rstr(rp, "law"),
				Msg: fmt.Sprintf("%s: %s = %d but %s = %d on attributes %s", rstr(rp, "law"), f, r1[0], g, r2[0], jsonStr(maps[0])), Replay: rp})
		}
	case "c08-parse":
		s := rstr(rp, "string")
		acc := rint(rp, "acc")
		mode := "canon"
		if _, ok := rp["plain_rendering_rejected"]; ok {
			mode = "kw:?"
		}
		c.checkString(s, acc, nil, mode, rng)
		if mode != "canon" {
			// keep the recorded classification
			for _, e := range res.Sigs {
				e.Detail = "quoted-string-taken-as-keyword"
			}
		}
	case "c08-roundtrip", "fuzz":
		s := rstr(rp, "string")
		p := safeParse(s)
		if p.Out.bad() {
			res.add(violation{Clause: pre + ":total", Detail: "parse-" + kindOf(p.Out), Msg: fmt.Sprintf("ParseString(%q): %s", s, p.Out), Replay: rp})
			break
		}
		if p.Err == nil {
			names, vals := rstrs(rp, "names"), rstrs(rp, "vals")
			if rstr(rp, "kind") == "fuzz" {
				names, vals = fuzzNames, fuzzVals
			}
			c.roundTrip(s, p, names, vals, rng, false)
		}
	case "grpc-job":
		var job grpcJob
		jb, _ := json.Marshal(rp["job"])
		if err := json.Unmarshal(jb, &job); err != nil {
			return err
		}
		jobs := []grpcJob{job}
		if ps := rstr(rp, "plain"); ps != "" && job.Kind == "syn" {
			jobs = append(jobs, grpcJob{Kind: "syn", ID: job.ID + 1, S: ps})
		}
		results, crashed, err := runGrpcJobs(jobs, scratch, 1)
		if err != nil {
			return err
		}
		var plain *grpcResult
		if len(jobs) == 2 {
			for i := range results {
				if results[i].ID == job.ID+1 {
					plain = &results[i]
				}
			}
		}
		for range crashed {
			res.add(violation{Clause: pre + ":total", Detail: "grpc-server-crash", Msg: "the process died while serving the request", Replay: rp})
		}
		for _, r := range results {
			if r.Err != "" {
				return fmt.Errorf("%s", r.Err)
			}
			if job.Kind == "syn" {
				if r.ID == job.ID {
					mode := "canon"
					if plain != nil {
						mode = "kw:?"
					}
					judgeSyn(res, job.S, rint(rp, "acc"), mode, r, plain, rstr(rp, "plain"))
				}
				continue
			}
			for k, sr := range r.Subs {
				if sr.Create != "OK" {
					res.add(violation{Clause: pre + ":parse", Detail: "valid-filter-rejected", Msg: fmt.Sprintf("CreateSubscription(filter=%q): %s", job.Filters[k].S, sr.Create), Replay: rp})
					continue
				}
				got := make([]int, nMaps)
				for _, i := range sr.Got {
					if i >= 0 && i < nMaps {
						got[i] = 1
					}
				}
				r0, r1 := rints(rp, "expect_r0"), rints(rp, "expect_r1")
				if _, one := rp["map"]; one {
					i := rint(rp, "map")
					if !contains(rints(rp, "expect"), got[i]) {
						res.add(violation{Clause: pre + ":e2e", Detail: "delivered-set-differs-from-reference",
							Msg: fmt.Sprintf("subscription with filter %s, message attributes %s: delivered=%d, reference %v", job.Filters[k].S, jsonStr(attrsOf(i, *job.Vocab)), got[i], rints(rp, "expect")), Replay: rp})
					}
				} else if len(r0) == nMaps && len(r1) == nMaps && differs(got, r0) && differs(got, r1) {
					res.add(violation{Clause: pre + ":e2e", Detail: "delivered-set-differs-from-reference",
						Msg: fmt.Sprintf("subscription with filter %s received %s, reference %s / %s", job.Filters[k].S, joinInts(got), joinInts(r0), joinInts(r1)), Replay: rp})
				}
			}
		}
	default:
		return fmt.Errorf("unknown replay kind %q", rstr(rp, "kind"))
	}
	return res.write(out)
}
