package main

// The slices through the real gRPC API (in-process server of harness/world).
// A panic in a gRPC handler kills the whole process, therefore everything
// here runs in a CHILD process (this binary, -mode grpc-worker).  The child
// logs {"start":id} before and the result after every job; when it dies the
// parent re-runs the jobs that were in flight one by one to find the culprit
// and carries on with the rest.

import (
	"bufio"
	"bytes"
	"context"
	"encoding/json"
	"fmt"
	"os"
	"os/exec"
	"path/filepath"
	"sort"
	"sync"
	"time"

	"google.golang.org/grpc/codes"
	"google.golang.org/grpc/status"
	"google.golang.org/protobuf/types/known/fieldmaskpb"

	"go.6river.tech/mmmbbb/grpc/pubsubpb"
	"go.6river.tech/mmmbbb/verifharness/world"
)

type grpcJob struct {
	Kind    string         `json:"kind"` // e2e | syn
	ID      int            `json:"id"`
	Vocab   *vocab         `json:"vocab,omitempty"`
	Filters []e2eJobFilter `json:"filters,omitempty"`
	S       string         `json:"s,omitempty"`
}

type subResult struct {
	Create string `json:"create"`
	Got    []int  `json:"got"`
	Dups   int    `json:"dups"`
}

type getResult struct {
	Code   string `json:"code"`
	Filter string `json:"filter"`
}

type grpcResult struct {
	ID        int         `json:"id"`
	Err       string      `json:"err,omitempty"`
	Subs      []subResult `json:"subs,omitempty"`
	Create    string      `json:"create,omitempty"`
	CreateGet getResult   `json:"create_get"`
	Update    string      `json:"update,omitempty"`
	UpdateGet getResult   `json:"update_get"`
}

const baseFilter = `attributes:base`
const callTimeout = 30 * time.Second

func code(err error) string {
	if err == nil {
		return "OK"
	}
	return status.Code(err).String()
}

type workerWorld struct {
	w        *world.World
	topic    string
	baseSub  string
	prepared bool
}

func (ww *workerWorld) prepareSyn(ctx context.Context) error {
	if ww.prepared {
		return nil
	}
	ww.topic = "projects/p/topics/syn"
	ww.baseSub = "projects/p/subscriptions/base"
	c, cancel := context.WithTimeout(ctx, callTimeout)
	defer cancel()
	if _, err := ww.w.Pub.CreateTopic(c, &pubsubpb.Topic{Name: ww.topic}); err != nil {
		return fmt.Errorf("CreateTopic: %w", err)
	}
	if _, err := ww.w.Sub.CreateSubscription(c, &pubsubpb.Subscription{Name: ww.baseSub, Topic: ww.topic, Filter: baseFilter}); err != nil {
		return fmt.Errorf("CreateSubscription(base): %w", err)
	}
	ww.prepared = true
	return nil
}

func (ww *workerWorld) get(ctx context.Context, name string) getResult {
	c, cancel := context.WithTimeout(ctx, callTimeout)
	defer cancel()
	s, err := ww.w.Sub.GetSubscription(c, &pubsubpb.GetSubscriptionRequest{Subscription: name})
	if err != nil {
		return getResult{Code: code(err)}
	}
	return getResult{Code: "OK", Filter: s.Filter}
}

func (ww *workerWorld) runSyn(ctx context.Context, j grpcJob) grpcResult {
	r := grpcResult{ID: j.ID}
	if err := ww.prepareSyn(ctx); err != nil {
		r.Err = err.Error()
		return r
	}
	name := fmt.Sprintf("projects/p/subscriptions/c%d", j.ID)
	c, cancel := context.WithTimeout(ctx, callTimeout)
	_, err := ww.w.Sub.CreateSubscription(c, &pubsubpb.Subscription{Name: name, Topic: ww.topic, Filter: j.S})
	cancel()
	r.Create = code(err)
	r.CreateGet = ww.get(ctx, name)
	if r.CreateGet.Code == "OK" {
		c, cancel = context.WithTimeout(ctx, callTimeout)
		_, _ = ww.w.Sub.DeleteSubscription(c, &pubsubpb.DeleteSubscriptionRequest{Subscription: name})
		cancel()
	}
	c, cancel = context.WithTimeout(ctx, callTimeout)
	_, err = ww.w.Sub.UpdateSubscription(c, &pubsubpb.UpdateSubscriptionRequest{
		Subscription: &pubsubpb.Subscription{Name: ww.baseSub, Filter: j.S},
		UpdateMask:   &fieldmaskpb.FieldMask{Paths: []string{"filter"}}})
	cancel()
	r.Update = code(err)
	r.UpdateGet = ww.get(ctx, ww.baseSub)
	if r.UpdateGet.Code != "OK" || r.UpdateGet.Filter != baseFilter {
		// restore the base filter for the next job
		c, cancel = context.WithTimeout(ctx, callTimeout)
		_, err = ww.w.Sub.UpdateSubscription(c, &pubsubpb.UpdateSubscriptionRequest{
			Subscription: &pubsubpb.Subscription{Name: ww.baseSub, Filter: baseFilter},
			UpdateMask:   &fieldmaskpb.FieldMask{Paths: []string{"filter"}}})
		cancel()
		if g := ww.get(ctx, ww.baseSub); err != nil || g.Filter != baseFilter {
			r.Err = fmt.Sprintf("could not restore the base filter: %v (now %q)", err, g.Filter)
		}
	}
	return r
}

func (ww *workerWorld) runE2E(ctx context.Context, j grpcJob) grpcResult {
	r := grpcResult{ID: j.ID}
	topic := fmt.Sprintf("projects/p/topics/e%d", j.ID)
	c, cancel := context.WithTimeout(ctx, callTimeout)
	_, err := ww.w.Pub.CreateTopic(c, &pubsubpb.Topic{Name: topic})
	cancel()
	if err != nil {
		r.Err = "CreateTopic: " + err.Error()
		return r
	}
	subs := make([]string, len(j.Filters))
	r.Subs = make([]subResult, len(j.Filters))
	for k, f := range j.Filters {
		subs[k] = fmt.Sprintf("projects/p/subscriptions/e%d_%d", j.ID, k)
		c, cancel := context.WithTimeout(ctx, callTimeout)
		_, err := ww.w.Sub.CreateSubscription(c, &pubsubpb.Subscription{Name: subs[k], Topic: topic, Filter: f.S})
		cancel()
		r.Subs[k].Create = code(err)
		r.Subs[k].Got = []int{}
	}
	for lo := 0; lo < nMaps; lo += 16 {
		req := &pubsubpb.PublishRequest{Topic: topic}
		for i := lo; i < lo+16; i++ {
			req.Messages = append(req.Messages, &pubsubpb.PubsubMessage{
				Data: []byte(fmt.Sprintf(`{"i":%d}`, i)), Attributes: attrsOf(i, *j.Vocab)})
		}
		c, cancel := context.WithTimeout(ctx, callTimeout)
		_, err := ww.w.Pub.Publish(c, req)
		cancel()
		if err != nil {
			r.Err = "Publish: " + err.Error()
			return r
		}
	}
	for k := range j.Filters {
		if r.Subs[k].Create != "OK" {
			continue
		}
		seen := map[int]bool{}
		for round := 0; round < 50; round++ {
			c, cancel := context.WithTimeout(ctx, callTimeout)
			resp, err := ww.w.Sub.Pull(c, &pubsubpb.PullRequest{Subscription: subs[k], MaxMessages: 1000, ReturnImmediately: true}) // nolint:staticcheck
			cancel()
			if err != nil {
				r.Err = "Pull: " + err.Error()
				return r
			}
			if len(resp.ReceivedMessages) == 0 {
				break
			}
			var acks []string
			for _, m := range resp.ReceivedMessages {
				var d struct {
					I int `json:"i"`
				}
				if err := json.Unmarshal(m.Message.Data, &d); err != nil {
					r.Err = fmt.Sprintf("unexpected payload %q", m.Message.Data)
					return r
				}
				if seen[d.I] {
					r.Subs[k].Dups++
				}
				seen[d.I] = true
				acks = append(acks, m.AckId)
			}
			c, cancel = context.WithTimeout(ctx, callTimeout)
			_, err = ww.w.Sub.Acknowledge(c, &pubsubpb.AcknowledgeRequest{Subscription: subs[k], AckIds: acks})
			cancel()
			if err != nil {
				r.Err = "Acknowledge: " + err.Error()
				return r
			}
		}
		for i := range seen {
			r.Subs[k].Got = append(r.Subs[k].Got, i)
		}
		sort.Ints(r.Subs[k].Got)
	}
	// keep the database small
	for k := range j.Filters {
		if r.Subs[k].Create == "OK" {
			c, cancel := context.WithTimeout(ctx, callTimeout)
			_, _ = ww.w.Sub.DeleteSubscription(c, &pubsubpb.DeleteSubscriptionRequest{Subscription: subs[k]})
			cancel()
		}
	}
	return r
}

func runGrpcWorker(in, out, scratch string, workers int) error {
	var jobs []grpcJob
	f, err := os.Open(in)
	if err != nil {
		return err
	}
	sc := bufio.NewScanner(f)
	sc.Buffer(make([]byte, 1<<20), 1<<26)
	for sc.Scan() {
		var j grpcJob
		if err := json.Unmarshal(sc.Bytes(), &j); err != nil {
			return err
		}
		jobs = append(jobs, j)
	}
	f.Close()
	of, err := os.Create(out)
	if err != nil {
		return err
	}
	defer of.Close()
	var mu sync.Mutex
	emit := func(v any) {
		b, _ := json.Marshal(v)
		mu.Lock()
		of.Write(append(b, '\n'))
		mu.Unlock()
	}
	if workers > 8 {
		workers = 8
	}
	if workers > len(jobs) {
		workers = len(jobs)
	}
	ch := make(chan grpcJob)
	var wg sync.WaitGroup
	errs := make(chan error, workers)
	for w := 0; w < workers; w++ {
		wg.Add(1)
		go func() {
			defer wg.Done()
			ctx := context.Background()
			wd, err := world.New(ctx, scratch)
			if err != nil {
				errs <- err
				for range ch {
				}
				return
			}
			defer wd.Close()
			ww := &workerWorld{w: wd}
			for j := range ch {
				emit(map[string]int{"start": j.ID})
				var r grpcResult
				if j.Kind == "e2e" {
					r = ww.runE2E(ctx, j)
				} else {
					r = ww.runSyn(ctx, j)
				}
				emit(map[string]any{"done": r})
			}
		}()
	}
	for _, j := range jobs {
		ch <- j
	}
	close(ch)
	wg.Wait()
	select {
	case err := <-errs:
		return err
	default:
	}
	return nil
}

var childSeq int

// runChild runs the jobs in one child process; returns results, the ids that
// were started but not finished, and whether the child ended normally.
func runChild(jobs []grpcJob, scratch string, workers int) (done map[int]grpcResult, inflight map[int]bool, ok bool, stderr string, err error) {
	childSeq++
	dir := filepath.Join(scratch, fmt.Sprintf("grpc%d_%d", os.Getpid(), childSeq))
	if err = os.MkdirAll(dir, 0o755); err != nil {
		return
	}
	defer os.RemoveAll(dir)
	jf := filepath.Join(dir, "jobs.ndjson")
	rf := filepath.Join(dir, "results.ndjson")
	var buf bytes.Buffer
	for _, j := range jobs {
		b, _ := json.Marshal(j)
		buf.Write(b)
		buf.WriteByte('\n')
	}
	if err = os.WriteFile(jf, buf.Bytes(), 0o644); err != nil {
		return
	}
	self, e := os.Executable()
	if e != nil {
		err = e
		return
	}
	cmd := exec.Command(self, "-mode", "grpc-worker", "-in", jf, "-out", rf, "-scratch", dir, "-workers", fmt.Sprint(workers))
	var eb bytes.Buffer
	cmd.Stderr = &eb
	cmd.Stdout = &eb
	runErr := cmd.Run()
	ok = runErr == nil
	stderr = eb.String()
	if len(stderr) > 3000 {
		stderr = stderr[:1500] + "\n...\n" + stderr[len(stderr)-1500:]
	}
	done = map[int]grpcResult{}
	inflight = map[int]bool{}
	if f, e := os.Open(rf); e == nil {
		sc := bufio.NewScanner(f)
		sc.Buffer(make([]byte, 1<<20), 1<<26)
		for sc.Scan() {
			var rec struct {
				Start *int        `json:"start"`
				Done  *grpcResult `json:"done"`
			}
			if json.Unmarshal(sc.Bytes(), &rec) != nil {
				continue
			}
			if rec.Start != nil {
				inflight[*rec.Start] = true
			}
			if rec.Done != nil {
				done[rec.Done.ID] = *rec.Done
				delete(inflight, rec.Done.ID)
			}
		}
		f.Close()
	}
	return
}

// runGrpcJobs runs all jobs, surviving crashes of the server.
func runGrpcJobs(jobs []grpcJob, scratch string, workers int) (results []grpcResult, crashed []grpcJob, err error) {
	remaining := jobs
	byID := map[int]grpcJob{}
	for _, j := range jobs {
		byID[j.ID] = j
	}
	for len(remaining) > 0 {
		done, inflight, ok, stderr, e := runChild(remaining, scratch, workers)
		if e != nil {
			return nil, nil, e
		}
		for _, r := range done {
			results = append(results, r)
		}
		if ok && len(inflight) == 0 && len(done) == len(remaining) {
			break
		}
		if len(done) == 0 && len(inflight) == 0 {
			return nil, nil, fmt.Errorf("gRPC worker failed before the first job:\n%s", stderr)
		}
		// the child died: find the culprit(s) among the jobs in flight
		var ids []int
		for id := range inflight {
			ids = append(ids, id)
		}
		sort.Ints(ids)
		for _, id := range ids {
			d1, _, ok1, _, e1 := runChild([]grpcJob{byID[id]}, scratch, 1)
			if e1 != nil {
				return nil, nil, e1
			}
			if r, have := d1[id]; have && ok1 {
				results = append(results, r)
			} else {
				crashed = append(crashed, byID[id])
			}
		}
		var rest []grpcJob
		for _, j := range remaining {
			if _, d := done[j.ID]; !d && !inflight[j.ID] {
				rest = append(rest, j)
			}
		}
		if len(rest) == len(remaining) {
			return nil, nil, fmt.Errorf("gRPC worker makes no progress:\n%s", stderr)
		}
		remaining = rest
	}
	sort.Slice(results, func(i, j int) bool { return results[i].ID < results[j].ID })
	return results, crashed, nil
}

var _ = codes.OK
