package main

import (
	"encoding/json"
	"fmt"
	"math/rand"
	"regexp"
	"sort"
	"strings"
	"sync"
	"unicode/utf8"
)

type sentCase struct {
	S   []string `json:"s"`
	Acc int      `json:"acc"`
	Del []int    `json:"del"`
	Ins [][]int  `json:"ins"`
	Rep [][]int  `json:"rep"`
	P   []string `json:"p"`
	Ext []int    `json:"ext"`
}

// an empty quoted attribute name in the source text (classification of findings only)
var emptyNameRe = regexp.MustCompile(`attributes\s*[:.]\s*""`)

var tokSeq = []string{"attributes", ":", ".", "Ident", "String", "=", "!=", "hasPrefix", "(", ")", ",", "AND", "OR", "NOT", "-"}

type synPick struct {
	prio  uint64
	kinds []string
	acc   int
	s     string
	mode  string
}

type synSel struct {
	mu   sync.Mutex
	n    int
	list []synPick
}

func (s *synSel) offer(p synPick) {
	if s.n == 0 {
		return
	}
	s.mu.Lock()
	defer s.mu.Unlock()
	if len(s.list) < s.n {
		s.list = append(s.list, p)
		return
	}
	mi := 0
	for i := range s.list {
		if s.list[i].prio > s.list[mi].prio {
			mi = i
		}
	}
	if p.prio < s.list[mi].prio {
		s.list[mi] = p
	}
}

type c08ctx struct {
	res     *result
	seed    int64
	kwv     int
	selAcc  *synSel
	selRej  *synSel
	corpus  []string // accepted sentences (canonical text), seeds of the fuzzer
	corpMu  sync.Mutex
	dedupMu sync.Mutex
	dedup   map[uint64]struct{}
}

func (c *c08ctx) first(h uint64) bool {
	c.dedupMu.Lock()
	defer c.dedupMu.Unlock()
	if _, ok := c.dedup[h]; ok {
		return false
	}
	c.dedup[h] = struct{}{}
	return true
}

func hasString(kinds []string) bool {
	for _, k := range kinds {
		if k == "String" {
			return true
		}
	}
	return false
}

// mapsFor builds attribute maps that can tell two filters over the given
// names and values apart: every name absent or bound to one of the values,
// the values extended by one character, their proper prefixes and "".
func mapsFor(names, vals []string, rng *rand.Rand) []map[string]string {
	uniq := func(xs []string, max int) []string {
		seen := map[string]bool{}
		var out []string
		for _, x := range xs {
			if !seen[x] {
				seen[x] = true
				out = append(out, x)
			}
			if len(out) >= max {
				break
			}
		}
		return out
	}
	ns := uniq(names, 4)
	var vs []string
	for _, v := range uniq(vals, 4) {
		vs = append(vs, v, v+"~")
		if v != "" {
			_, sz := utf8.DecodeLastRuneInString(v)
			vs = append(vs, v[:len(v)-sz])
		}
	}
	vs = uniq(append(vs, "", "other"), 10)
	if len(ns) == 0 {
		return []map[string]string{{}, {"x": "a"}}
	}
	opts := len(vs) + 1
	total := 1
	for range ns {
		total *= opts
		if total > 4096 {
			break
		}
	}
	var out []map[string]string
	if total <= 256 {
		for m := 0; m < total; m++ {
			a := map[string]string{}
			x := m
			for _, n := range ns {
				c := x % opts
				x /= opts
				if c > 0 {
					a[n] = vs[c-1]
				}
			}
			out = append(out, a)
		}
		return out
	}
	out = append(out, map[string]string{})
	for m := 0; m < 160; m++ {
		a := map[string]string{}
		for _, n := range ns {
			c := rng.Intn(opts)
			if c > 0 {
				a[n] = vs[c-1]
			}
		}
		out = append(out, a)
	}
	return out
}

// roundTrip: print the parsed filter, parse the text again, compare.
// The property asks for an EQUIVALENT filter: the oracle is equality of the
// evaluation on the maps of mapsFor; structural inequality is only counted.
func (c *c08ctx) roundTrip(s string, p parsed, names, vals []string, rng *rand.Rand, fuzz bool) {
	res := c.res
	pre := "C08:roundtrip"
	rp := map[string]any{"kind": "c08-roundtrip", "string": s, "names": names, "vals": vals}
	s2, err, out := printFilter(p.F)
	if out.bad() {
		res.add(violation{Clause: "C08:total", Detail: "print-" + kindOf(out), Msg: fmt.Sprintf("AsFilter of parsed %q: %s", s, out), Replay: rp})
		return
	}
	if err != nil {
		res.add(violation{Clause: pre, Detail: "print-error", Msg: fmt.Sprintf("AsFilter of parsed %q: %v", s, err), Replay: rp})
		return
	}
	p2 := safeParse(s2)
	if p2.Out.bad() {
		res.add(violation{Clause: "C08:total", Detail: "parse-" + kindOf(p2.Out), Msg: fmt.Sprintf("ParseString(%q) (printed form of %q): %s", s2, s, p2.Out), Replay: rp})
		return
	}
	if p2.Err != nil {
		d := "printed-form-does-not-parse"
		if emptyNameRe.MatchString(s) {
			d = "printed-form-does-not-parse:empty-attribute-name"
		}
		res.add(violation{Clause: pre, Detail: d, Msg: fmt.Sprintf("%q parses, its printed form %q does not: %v", s, s2, p2.Err), Replay: rp})
		return
	}
	maps := mapsFor(names, vals, rng)
	r1, e1, o1 := evalAll(p.F, maps)
	r2, e2, o2 := evalAll(p2.F, maps)
	if o1.bad() || o2.bad() || e1 != nil || e2 != nil {
		res.add(violation{Clause: "C08:total", Detail: "evaluate-" + kindOfErr(o1, e1), Msg: fmt.Sprintf("Evaluate of %q / %q: %v %v %v %v", s, s2, e1, e2, o1, o2), Replay: rp})
		return
	}
	for i := range maps {
		if r1[i] != r2[i] {
			res.add(violation{Clause: pre, Detail: "printed-form-not-equivalent",
				Msg: fmt.Sprintf("%q evaluates to %d, its printed form %q to %d on %s", s, r1[i], s2, r2[i], jsonStr(maps[i])), Replay: rp})
			return
		}
	}
	if fuzz {
		res.count("fuzz_roundtrips", 1)
	} else {
		res.count("roundtrips", 1)
		res.count("roundtrip_evaluations", int64(2*len(maps)))
	}
	if !sameStructure(p.F, p2.F) {
		res.count("roundtrip_structure_differs_but_equivalent", 1)
	}
}

// checkString: one concrete string with the reference verdict.
func (c *c08ctx) checkString(s string, acc int, toks []tok, mode string, rng *rand.Rand) {
	res := c.res
	res.count("strings_parsed", 1)
	p := safeParse(s)
	rp := map[string]any{"kind": "c08-parse", "string": s, "acc": acc}
	if p.Out.bad() {
		res.add(violation{Clause: "C08:total", Detail: "parse-" + kindOf(p.Out), Msg: fmt.Sprintf("ParseString(%q): %s", s, p.Out), Replay: rp})
		return
	}
	ok := p.Err == nil
	if ok && acc == 0 {
		d := "nonsentence-accepted"
		if strings.HasPrefix(mode, "kw:") {
			// does the acceptance hinge on what the string literals denote?
			kinds := make([]string, len(toks))
			for i, t := range toks {
				kinds[i] = t.Kind
			}
			plain := joinToks(lexTokens(kinds, "canon", nil), 0, nil)
			if pp := safeParse(plain); !pp.Out.bad() && pp.Err != nil {
				d = "quoted-string-taken-as-keyword"
				rp["plain_rendering_rejected"] = plain
				rp["string_content"] = mode[3:]
			}
		}
		res.add(violation{Clause: "C08:accept", Detail: d, Msg: fmt.Sprintf("not a sentence of the grammar, but accepted: %s", s), Replay: rp})
	}
	if !ok && acc == 1 {
		res.add(violation{Clause: "C08:accept", Detail: "sentence-rejected", Msg: fmt.Sprintf("a sentence of the grammar, but rejected: %s (%v)", s, p.Err), Replay: rp})
	}
	if ok && acc == 1 {
		names, vals := tokTexts(toks)
		c.roundTrip(s, p, names, vals, rng, false)
	}
}

func (c *c08ctx) checkTokenString(kinds []string, acc int, idx int64, sub int) {
	key := strings.Join(kinds, " ")
	h := hash64([]byte(key))
	c.res.count("token_strings", 1)
	if !c.first(h) {
		c.res.count("token_strings_duplicate", 1)
		return
	}
	c.res.count("distinct_cases", 1)
	if len(kinds) >= 2 {
		c.res.count("distinct_nontrivial", 1)
	}
	rng := rand.New(rand.NewSource(c.seed*1000003 + int64(h%1000000007)))
	canon := lexTokens(kinds, "canon", nil)
	s0 := joinToks(canon, 0, nil)
	switch acc {
	case 1:
		c.res.count("token_strings_accepted", 1)
	case 0:
		c.res.count("token_strings_rejected", 1)
	default:
		// unsettled by the documentation (a keyword-spelled word where a name is
		// expected): totality and round trip only
		c.res.count("token_strings_unsettled", 1)
		c.res.count("strings_parsed", 1)
		p := safeParse(s0)
		if p.Out.bad() {
			c.res.add(violation{Clause: "C08:total", Detail: "parse-" + kindOf(p.Out), Msg: fmt.Sprintf("ParseString(%q): %s", s0, p.Out),
				Replay: map[string]any{"kind": "fuzz", "string": s0}})
		} else if p.Err == nil {
			c.res.count("token_strings_unsettled_parsed", 1)
			names, vals := tokTexts(canon)
			c.roundTrip(s0, p, append(names, "AND", "OR", "NOT"), vals, rng, false)
		}
		return
	}
	c.checkString(s0, acc, canon, "canon", rng)
	prio := hash64([]byte(fmt.Sprintf("%d/%s", c.seed, key)))
	if acc == 1 {
		if len(kinds) <= 24 {
			c.corpMu.Lock()
			if len(c.corpus) < 4000 {
				c.corpus = append(c.corpus, s0)
			}
			c.corpMu.Unlock()
		}
		// seeded variants of quoting, escapes, white space, pools
		for v := 0; v < 2; v++ {
			ts := lexTokens(kinds, "rand", rng)
			s := joinToks(ts, rng.Intn(3), rng)
			c.checkString(s, 1, ts, "rand", rng)
			if v == 0 && len(s) <= 256 { // Pub/Sub documents a 256 byte limit for filters
				c.selAcc.offer(synPick{prio: prio, kinds: kinds, acc: 1, s: s, mode: "rand"})
			}
		}
		return
	}
	mode, sel := "canon", s0
	if hasString(kinds) {
		// string literals that denote a keyword or a punctuation mark are still string literals
		var picks []string
		if c.kwv < 0 || c.kwv >= len(keywordContents) {
			picks = keywordContents
		} else {
			for _, i := range rng.Perm(len(keywordContents))[:c.kwv] {
				picks = append(picks, keywordContents[i])
			}
		}
		for _, k := range picks {
			ts := lexTokens(kinds, "kw:"+k, nil)
			s := joinToks(ts, 0, nil)
			c.checkString(s, 0, ts, "kw:"+k, rng)
			if rng.Intn(2) == 0 {
				mode, sel = "kw:"+k, s
			}
		}
	}
	if sel != "" {
		c.selRej.offer(synPick{prio: prio, kinds: kinds, acc: 0, s: sel, mode: mode})
	}
}

func apply(kind string, s []string, p int, t string) []string {
	switch kind {
	case "del":
		out := make([]string, 0, len(s)-1)
		out = append(out, s[:p]...)
		return append(out, s[p+1:]...)
	case "ins":
		out := make([]string, 0, len(s)+1)
		out = append(out, s[:p]...)
		out = append(out, t)
		return append(out, s[p:]...)
	default:
		out := make([]string, len(s))
		copy(out, s)
		out[p] = t
		return out
	}
}

func (c *c08ctx) handle(idx int64, raw []byte) {
	var sc sentCase
	if err := json.Unmarshal(raw, &sc); err != nil {
		c.res.count("bad_lines", 1)
		return
	}
	if sc.Ext != nil {
		// short strings: p and p followed by each token
		c.res.count("short_prefix_lines", 1)
		c.checkTokenString(sc.P, sc.Acc, idx, 0)
		if len(sc.Ext) == len(tokSeq) {
			for t, a := range sc.Ext {
				c.checkTokenString(append(append([]string{}, sc.P...), tokSeq[t]), a, idx, t+1)
			}
		}
		return
	}
	if sc.S == nil || len(sc.Del) != len(sc.S) || len(sc.Ins) != len(sc.S)+1 || len(sc.Rep) != len(sc.S) {
		c.res.count("bad_lines", 1)
		return
	}
	c.res.count("sentences", 1)
	c.res.sample(2, map[string]any{"sentence_tokens": sc.S, "reference": "Accepts", "verdict": sc.Acc,
		"rendered": joinToks(lexTokens(sc.S, "canon", nil), 0, nil), "mutations": len(sc.Del) + 15*len(sc.Ins) + 14*len(sc.Rep)})
	n := 0
	c.checkTokenString(sc.S, sc.Acc, idx, n)
	for p, a := range sc.Del {
		n++
		c.checkTokenString(apply("del", sc.S, p, ""), a, idx, n)
	}
	for p, row := range sc.Ins {
		for t, a := range row {
			n++
			c.checkTokenString(apply("ins", sc.S, p, tokSeq[t]), a, idx, n)
		}
	}
	for p, row := range sc.Rep {
		for t, a := range row {
			if tokSeq[t] == sc.S[p] {
				continue
			}
			n++
			c.checkTokenString(apply("rep", sc.S, p, tokSeq[t]), a, idx, n)
		}
	}
	c.res.count("mutations", int64(n))
}

func runC08(in, out string, seed int64, workers, kwv, grpcN, fuzzN int, scratch string) error {
	res := newResult("c08", seed)
	c := &c08ctx{res: res, seed: seed, kwv: kwv, selAcc: &synSel{n: grpcN / 2}, selRej: &synSel{n: grpcN - grpcN/2},
		dedup: map[uint64]struct{}{}}
	if err := readCases(in, workers, c.handle); err != nil {
		return err
	}
	if grpcN > 0 {
		if err := c.runSynGrpc(scratch, workers); err != nil {
			return err
		}
	}
	if fuzzN > 0 {
		sort.Strings(c.corpus)
		runFuzz(c, fuzzN, workers)
	}
	return res.write(out)
}

// judgeSyn: CreateSubscription / UpdateSubscription(filter) answer OK iff the
// string is a sentence; a rejected string is never stored.
// plain (optional): the result for the same token string with ordinary string
// contents; an over-acceptance counts as "quoted string taken as keyword" only
// when that plain rendering was rejected by the same call.
func judgeSyn(res *result, s string, acc int, mode string, r grpcResult, plain *grpcResult, plainS string) {
	rp := map[string]any{"kind": "grpc-job", "job": grpcJob{Kind: "syn", ID: 0, S: s}, "acc": acc}
	if plain != nil {
		rp["plain"] = plainS
	}
	for _, call := range []struct {
		name string
		code string
		get  getResult
	}{{"CreateSubscription", r.Create, r.CreateGet}, {"UpdateSubscription", r.Update, r.UpdateGet}} {
		if call.code == "DeadlineExceeded" {
			res.add(violation{Clause: "C08:total", Detail: "grpc-hang", Msg: fmt.Sprintf("%s(filter=%q) did not answer", call.name, s), Replay: rp})
			continue
		}
		ok := call.code == "OK"
		if ok && acc == 0 {
			d := "nonsentence-accepted"
			if strings.HasPrefix(mode, "kw:") && plain != nil {
				pc := plain.Create
				if call.name == "UpdateSubscription" {
					pc = plain.Update
				}
				if pc != "OK" {
					d = "quoted-string-taken-as-keyword"
				}
			}
			res.add(violation{Clause: "C08:accept", Detail: d, Msg: fmt.Sprintf("%s accepted a filter that is not a sentence of the grammar: %s", call.name, s), Replay: rp})
		}
		if !ok && acc == 1 {
			res.add(violation{Clause: "C08:accept", Detail: "sentence-rejected", Msg: fmt.Sprintf("%s rejected (%s) a sentence of the grammar: %s", call.name, call.code, s), Replay: rp})
		}
		if !ok {
			// never stored
			if call.name == "CreateSubscription" && call.get.Code != "NotFound" {
				res.add(violation{Clause: "C08:stored", Detail: "rejected-create-left-a-subscription",
					Msg: fmt.Sprintf("CreateSubscription(filter=%q) answered %s but GetSubscription answers %s (filter %q)", s, call.code, call.get.Code, call.get.Filter), Replay: rp})
			}
			if call.name == "UpdateSubscription" && (call.get.Code != "OK" || call.get.Filter != baseFilter) {
				res.add(violation{Clause: "C08:stored", Detail: "rejected-update-changed-the-filter",
					Msg: fmt.Sprintf("UpdateSubscription(filter=%q) answered %s but the stored filter is now %q (%s), was %q", s, call.code, call.get.Filter, call.get.Code, baseFilter), Replay: rp})
			}
		}
		res.count("grpc_calls_judged", 1)
	}
}

func (c *c08ctx) runSynGrpc(scratch string, workers int) error {
	picks := append(append([]synPick{}, c.selAcc.list...), c.selRej.list...)
	sort.Slice(picks, func(i, j int) bool { return picks[i].prio < picks[j].prio })
	var jobs []grpcJob
	var used []synPick
	plainOf := map[int]int{}
	for _, p := range picks {
		if p.s == "" || !utf8.ValidString(p.s) {
			continue
		}
		id := len(jobs)
		jobs = append(jobs, grpcJob{Kind: "syn", ID: id, S: p.s})
		used = append(used, p)
		if p.acc == 0 && strings.HasPrefix(p.mode, "kw:") {
			plain := joinToks(lexTokens(p.kinds, "canon", nil), 0, nil)
			plainOf[id] = len(jobs)
			jobs = append(jobs, grpcJob{Kind: "syn", ID: len(jobs), S: plain})
			used = append(used, synPick{kinds: p.kinds, acc: 0, s: plain, mode: "canon"})
		}
	}
	results, crashed, err := runGrpcJobs(jobs, scratch, workers)
	if err != nil {
		return err
	}
	for _, j := range crashed {
		c.res.add(violation{Clause: "C08:total", Detail: "grpc-server-crash", Msg: fmt.Sprintf("the process died while serving Create/UpdateSubscription(filter=%q)", j.S),
			Replay: map[string]any{"kind": "grpc-job", "job": j, "acc": used[j.ID].acc}})
	}
	for _, r := range results {
		p := used[r.ID]
		if r.Err != "" {
			return fmt.Errorf("gRPC slice, job %d (%q): %s", r.ID, p.s, r.Err)
		}
		var plain *grpcResult
		plainS := ""
		if pid, ok := plainOf[r.ID]; ok {
			plainS = used[pid].s
			for i := range results {
				if results[i].ID == pid {
					plain = &results[i]
				}
			}
		}
		judgeSyn(c.res, p.s, p.acc, p.mode, r, plain, plainS)
		c.res.count("grpc_strings", 1)
		if p.acc == 1 {
			c.res.count("grpc_strings_accepted", 1)
		}
		c.res.sample(6, map[string]any{"via": "grpc", "filter": p.s, "reference_accepts": p.acc, "create": r.Create, "get_after_create": r.CreateGet.Code,
			"update": r.Update, "filter_after_update": r.UpdateGet.Filter})
	}
	return nil
}
