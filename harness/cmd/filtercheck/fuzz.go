package main

// Seeded fuzzing over arbitrary byte strings (the part of C08's quantifier
// that has no specification-side oracle): only totality (no panic, no hang)
// and, for whatever the parser accepts, the print/parse round trip.

import (
	"fmt"
	"math/rand"
	"strings"
	"sync"
)

var fuzzLexemes = []string{
	"attributes", ":", ".", "=", "!=", "!", "hasPrefix", "(", ")", ",", "AND", "OR", "NOT", "-",
	"x", "y", "z", "AND", "attributes", "é", "日本", "_", "and", "or", "not",
	`"a"`, `"b"`, `""`, `"AND"`, `"\n"`, `"é"`, `"\x41"`, `"\101"`, `"\U0001F600"`, `"a\"b"`, `"\\"`,
	"`raw`", "'c'", "'ab'", "1", "1.5", "0x1f", ".5", "1e9",
	"/* c */", "// c\n", "/*", "*/", "//",
	"\"", "\\", "`", "'", "\x00", "\xff", "\xc3", " ", "\ufeff", " ", "\t", "\n", "\r", "\v",
	"&&", "||", "<", ">", "<=", "!==", "==", "[", "]", "{", "}", "*", "+", "/", "%", "?", ";", "@", "#", "$",
}

const fuzzAlphabet = "attributes:.=!\"hasPrefix(),ANDORNOT- \t\nxyzabc\\'`/*0123456789_é"

func fuzzString(rng *rand.Rand, corpus []string, kind int) string {
	switch kind {
	case 0: // arbitrary bytes
		n := rng.Intn(40)
		b := make([]byte, n)
		for i := range b {
			b[i] = byte(rng.Intn(256))
		}
		return string(b)
	case 1: // characters of the language
		n := rng.Intn(48)
		rs := []rune(fuzzAlphabet)
		var b strings.Builder
		for i := 0; i < n; i++ {
			b.WriteRune(rs[rng.Intn(len(rs))])
		}
		return b.String()
	case 2: // lexeme soup
		n := 1 + rng.Intn(14)
		var b strings.Builder
		for i := 0; i < n; i++ {
			b.WriteString(fuzzLexemes[rng.Intn(len(fuzzLexemes))])
			if rng.Intn(3) > 0 {
				b.WriteByte(' ')
			}
		}
		return b.String()
	default: // byte-level mutations of a sentence
		s := `attributes:x AND attributes.y = "a"`
		if len(corpus) > 0 {
			s = corpus[rng.Intn(len(corpus))]
		}
		b := []byte(s)
		for k := 1 + rng.Intn(3); k > 0; k-- {
			switch rng.Intn(5) {
			case 0:
				if len(b) > 0 {
					i := rng.Intn(len(b))
					b = append(b[:i], b[i+1:]...)
				}
			case 1:
				i := rng.Intn(len(b) + 1)
				b = append(b[:i], append([]byte{fuzzAlphabet[rng.Intn(len(fuzzAlphabet)-2)]}, b[i:]...)...)
			case 2:
				if len(b) > 0 {
					b[rng.Intn(len(b))] = byte(rng.Intn(256))
				}
			case 3:
				i := rng.Intn(len(b) + 1)
				lx := fuzzLexemes[rng.Intn(len(fuzzLexemes))]
				b = append(b[:i], append([]byte(lx), b[i:]...)...)
			default:
				if len(b) > 1 {
					i := rng.Intn(len(b))
					j := i + rng.Intn(len(b)-i)
					b = append(b[:j], append(append([]byte{}, b[i:j]...), b[j:]...)...)
				}
			}
		}
		return string(b)
	}
}

var fuzzNames = []string{"x", "y", "z", "a", "b", "c"}
var fuzzVals = []string{"a", "b", "c"}

func fuzzOne(c *c08ctx, s string, rng *rand.Rand) {
	res := c.res
	res.count("fuzz_strings", 1)
	p := safeParse(s)
	if p.Out.bad() {
		res.add(violation{Clause: "C08:total", Detail: "parse-" + kindOf(p.Out), Msg: fmt.Sprintf("fuzz: ParseString(%q): %s", s, p.Out),
			Replay: map[string]any{"kind": "fuzz", "string": s}})
		return
	}
	if p.Err != nil {
		return
	}
	res.count("fuzz_strings_parsed", 1)
	c.roundTrip(s, p, fuzzNames, fuzzVals, rng, true)
}

func runFuzz(c *c08ctx, n, workers int) {
	var wg sync.WaitGroup
	per := (n + workers - 1) / workers
	for w := 0; w < workers; w++ {
		wg.Add(1)
		go func(w int) {
			defer wg.Done()
			for i := w * per; i < (w+1)*per && i < n; i++ {
				rng := rand.New(rand.NewSource(c.seed*7919 + int64(i)*104729 + 3))
				fuzzOne(c, fuzzString(rng, c.corpus, i%4), rng)
			}
		}(w)
	}
	wg.Wait()
	// a few fixed strings with undocumented lexical forms (crash / round trip only)
	for i, s := range []string{"", " ", `attributes:x // c`, `attributes:x /* c */ AND attributes:y`, "attributes:`x`", `attributes:'x'`,
		`attributes.x ! = "a"`, `attributes:AND`, `attributes:NOT AND NOT attributes:OR`, `attributes:é`, `attributes.x = "\xff"`,
		`attributes:""`, `attributes."" = ""`, `hasPrefix(attributes."", "")`, strings.Repeat("(", 200) + "attributes:x" + strings.Repeat(")", 200),
		strings.Repeat("NOT (", 100) + "attributes:x" + strings.Repeat(")", 100), "attributes:x" + strings.Repeat(" AND attributes:x", 300)} {
		fuzzOne(c, s, rand.New(rand.NewSource(int64(i))))
	}
}
