package main

// The only place that touches the code under verification directly:
// filter.Parser.ParseString, (*Filter).Evaluate, (*Filter).AsFilter.
// Every call is guarded: a panic is recovered and reported, and a call that
// does not return within the watchdog is reported as a hang.

import (
	"fmt"
	"reflect"
	"strings"
	"time"

	"go.6river.tech/mmmbbb/filter"
)

const parseWatchdog = 2 * time.Second

type outcome struct {
	Panic   string
	Timeout bool
}

func (o outcome) bad() bool { return o.Panic != "" || o.Timeout }
func (o outcome) String() string {
	if o.Timeout {
		return "hang (> watchdog)"
	}
	return "panic: " + o.Panic
}

// guard runs fn on its own goroutine, recovers a panic and gives up after d.
func guard(d time.Duration, fn func()) outcome {
	ch := make(chan outcome, 1)
	go func() {
		defer func() {
			if r := recover(); r != nil {
				ch <- outcome{Panic: fmt.Sprint(r)}
			}
		}()
		fn()
		ch <- outcome{}
	}()
	t := time.NewTimer(d)
	defer t.Stop()
	select {
	case o := <-ch:
		return o
	case <-t.C:
		return outcome{Timeout: true}
	}
}

type parsed struct {
	F   *filter.Filter
	Err error
	Out outcome
}

func (p parsed) ok() bool { return !p.Out.bad() && p.Err == nil && p.F != nil }

func safeParse(s string) parsed {
	var p parsed
	var f *filter.Filter
	var err error
	p.Out = guard(parseWatchdog, func() { f, err = filter.Parser.ParseString("verif", s) })
	if p.Out.Timeout {
		// a loaded machine can stall a goroutine: a hang is only reported when
		// the same parse, run again on its own, exceeds the watchdog again
		time.Sleep(200 * time.Millisecond)
		var f2 *filter.Filter
		var err2 error
		if o2 := guard(parseWatchdog, func() { f2, err2 = filter.Parser.ParseString("verif", s) }); !o2.Timeout {
			p.Out = o2
			if !o2.bad() {
				p.F, p.Err = f2, err2
			}
			return p
		}
	}
	if !p.Out.bad() {
		p.F, p.Err = f, err
	}
	return p
}

// evalAll evaluates f on every map; res[i] is 0/1, or an error / panic / hang.
func evalAll(f *filter.Filter, maps []map[string]string) (res []int, err error, out outcome) {
	res = make([]int, len(maps))
	out = guard(5*time.Second, func() {
		for i, m := range maps {
			b, e := f.Evaluate(m)
			if e != nil {
				err = fmt.Errorf("map %d: %w", i, e)
				return
			}
			if b {
				res[i] = 1
			}
		}
	})
	return
}

func printFilter(f *filter.Filter) (s string, err error, out outcome) {
	out = guard(5*time.Second, func() {
		var b strings.Builder
		err = f.AsFilter(&b)
		s = b.String()
	})
	return
}

func sameStructure(a, b *filter.Filter) bool { return reflect.DeepEqual(a, b) }
