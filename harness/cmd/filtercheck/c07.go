package main

import (
	"encoding/json"
	"fmt"
	"math/rand"
	"sort"
	"sync"
)

// c07case: one line of FilterEnum / FilterSim.  r0 / r1: prefix structure A
// with NeMissing FALSE / TRUE; b0 / b1: structure B; absent fields equal the
// field they cannot differ from (see FilterEnum.Case).
type c07case struct {
	F  AST   `json:"f"`
	R0 []int `json:"r0"`
	R1 []int `json:"r1"`
	B0 []int `json:"b0"`
	B1 []int `json:"b1"`
}

func (c *c07case) normalize() bool {
	if c.F == nil || len(c.R0) != nMaps {
		return false
	}
	ne, pre := c.R1 != nil, c.B0 != nil
	if !ne {
		c.R1 = c.R0
	}
	if !pre {
		c.B0 = c.R0
	}
	if c.B1 == nil {
		switch {
		case ne && pre:
			return false // FilterEnum prints b1 in this case
		case ne:
			c.B1 = c.R1
		default:
			c.B1 = c.B0
		}
	}
	return len(c.R1) == nMaps && len(c.B0) == nMaps && len(c.B1) == nMaps
}

// refs: the two reference verdict vectors (NeMissing FALSE, TRUE) for a vocabulary
func (c *c07case) refs(v vocab) ([]int, []int) {
	if v.Rel == "B" {
		return c.B0, c.B1
	}
	return c.R0, c.R1
}

const nMaps = 64

// neTally: the documentation leaves attributes.k != "v" on a message without k
// open; the implementation has to agree with ONE reference variant over the
// whole run.  Where the two references differ we only tally, and decide at
// the end.
type neTally struct {
	mu   sync.Mutex
	n    [2]int64
	ex   [2][]violation
	kind string
}

func (t *neTally) add(agree int, v violation) {
	t.mu.Lock()
	t.n[agree]++
	if len(t.ex[agree]) < maxExamples {
		t.ex[agree] = append(t.ex[agree], v)
	}
	t.mu.Unlock()
}

type e2ePick struct {
	prio uint64
	idx  int64
	c    c07case
}

type e2eSel struct {
	mu   sync.Mutex
	n    int
	list []e2ePick
	max  uint64
}

func (s *e2eSel) offer(p e2ePick) {
	if s.n == 0 {
		return
	}
	s.mu.Lock()
	defer s.mu.Unlock()
	if len(s.list) < s.n {
		s.list = append(s.list, p)
	} else {
		mi := 0
		for i := range s.list {
			if s.list[i].prio > s.list[mi].prio {
				mi = i
			}
		}
		if p.prio >= s.list[mi].prio {
			return
		}
		s.list[mi] = p
	}
}

func caseRng(seed, idx int64, salt int64) *rand.Rand {
	return rand.New(rand.NewSource(seed*1000003 + idx*7919 + salt*104729 + 17))
}

func mapsOf(v vocab) []map[string]string {
	ms := make([]map[string]string, nMaps)
	for i := range ms {
		ms[i] = attrsOf(i, v)
	}
	return ms
}

func nonConstant(r []int) bool {
	for _, x := range r {
		if x != r[0] {
			return true
		}
	}
	return false
}

func differs(a, b []int) bool {
	for i := range a {
		if a[i] != b[i] {
			return true
		}
	}
	return false
}

// compareRef compares implementation results with both references.
func compareRef(res *result, tally *neTally, c c07case, got []int, filt string, v vocab, via string) {
	ref0, ref1 := c.refs(v)
	for i := 0; i < nMaps; i++ {
		r0, r1 := ref0[i], ref1[i]
		rp := map[string]any{"kind": "c07-eval", "via": via, "filter": filt, "attrs": attrsOf(i, v), "vocab": v, "map": i,
			"ast": c.F, "ref_ne_missing_false": r0, "ref_ne_missing_true": r1}
		if r0 == r1 {
			if got[i] != r0 {
				rp["expect"] = []int{r0}
				res.add(violation{Clause: "C07:eval", Detail: via + "-result-differs-from-reference",
					Msg:    fmt.Sprintf("filter %s on attributes %s: implementation %d, reference %d", filt, jsonStr(attrsOf(i, v)), got[i], r0),
					Replay: rp})
			}
			continue
		}
		agree := 0
		if got[i] == r1 {
			agree = 1
		}
		rp["expect"] = []int{1 - got[i]} // what the OTHER reading demands, used if this side turns out to be the minority
		tally.add(agree, violation{Clause: "C07:eval", Detail: "ne-on-missing-attribute-read-inconsistently",
			Msg:    fmt.Sprintf("filter %s on attributes %s: implementation %d agrees with NeMissing=%v only", filt, jsonStr(attrsOf(i, v)), got[i], agree == 1),
			Replay: rp})
	}
}

func checkC07Case(res *result, tally *neTally, sel *e2eSel, idx int64, raw []byte, seed int64, variants, lawEvery int) {
	var c c07case
	if err := json.Unmarshal(raw, &c); err != nil || !c.normalize() {
		res.count("bad_lines", 1)
		return
	}
	fj, _ := json.Marshal(c.F)
	nontrivial := nonConstant(c.R0)
	res.seen(hash64(fj), nontrivial)
	res.count("asts", 1)
	leaves := countLeaves(c.F)
	res.count(fmt.Sprintf("asts_%d_leaves", leaves), 1)
	if differs(c.R0, c.R1) {
		res.count("asts_ne_sensitive", 1)
	}
	if differs(c.R0, c.B0) {
		res.count("asts_prefix_structure_sensitive", 1)
	}
	if nontrivial && sel != nil {
		sel.offer(e2ePick{prio: hash64([]byte(fmt.Sprintf("%d/%d", seed, idx))), idx: idx, c: c})
	}
	for vi := 0; vi < variants; vi++ {
		rng := caseRng(seed, idx, int64(vi))
		v := pickVocab(rng, false)
		o := pickOpts(rng)
		conc := concretize(c.F, v)
		s := renderAST(conc, o, rng)
		maps := mapsOf(v)
		p := safeParse(s)
		if p.Out.bad() {
			res.add(violation{Clause: "C07:total", Detail: "parse-" + kindOf(p.Out), Msg: fmt.Sprintf("ParseString(%q): %s", s, p.Out),
				Replay: map[string]any{"kind": "c08-parse", "string": s, "acc": 1}})
			continue
		}
		if p.Err != nil {
			res.add(violation{Clause: "C07:parse", Detail: "valid-filter-rejected", Msg: fmt.Sprintf("ParseString(%q): %v", s, p.Err),
				Replay: map[string]any{"kind": "c08-parse", "string": s, "acc": 1}})
			continue
		}
		got, err, out := evalAll(p.F, maps)
		if out.bad() || err != nil {
			res.add(violation{Clause: "C07:total", Detail: "evaluate-" + kindOfErr(out, err), Msg: fmt.Sprintf("Evaluate of %q: %v %v", s, err, out),
				Replay: map[string]any{"kind": "c07-eval", "via": "direct", "filter": s, "attrs": map[string]string{}, "expect": []int{0, 1}}})
			continue
		}
		res.count("evaluations", nMaps)
		compareRef(res, tally, c, got, s, v, "direct")
		if vi == 0 {
			res.sample(3, map[string]any{"ast": c.F, "filter": s, "vocab": v, "attrs": attrsOf(27, v), "impl": got[27], "ref_ne_missing_false": pick0(c, v)[27], "ref_ne_missing_true": pick1(c, v)[27]})
			// determinism: the same parsed filter again, and a fresh parse of the same text
			again, _, _ := evalAll(p.F, maps)
			if differs(got, again) {
				res.add(violation{Clause: "C07:law", Detail: "nondeterministic", Msg: fmt.Sprintf("two evaluations of %q differ", s),
					Replay: map[string]any{"kind": "c07-law", "law": "determinism", "f": s, "g": s, "relation": "eq", "vocab": v}})
			}
			res.count("evaluations", nMaps)
		}
		// metamorphic laws, implementation against implementation (on every AST,
		// or - three-leaf ASTs of the exhaustive tier - on every lawEvery-th)
		if lawEvery > 1 && leaves == 3 && hash64([]byte(fmt.Sprintf("law/%d/%d", seed, idx)))%uint64(lawEvery) != 0 {
			continue
		}
		res.count("asts_with_law_checks", 1)
		laws := []struct {
			name string
			g    AST
			rel  string
			base AST
		}{
			{"double-negation", doubleNeg(conc), "eq", conc},
			{"parenthesisation", parenthesise(conc), "eq", conc},
		}
		if hasSeq(conc) {
			laws = append(laws, struct {
				name string
				g    AST
				rel  string
				base AST
			}{"commutativity", commute(conc), "eq", conc})
		}
		if op(conc) == "and" || op(conc) == "or" {
			laws = append(laws, struct {
				name string
				g    AST
				rel  string
				base AST
			}{"de-morgan", deMorgan(conc), "eq", neg(conc)})
		}
		for _, l := range laws {
			o2 := pickOpts(rng)
			gs := renderAST(l.g, o2, rng)
			bs, bres := s, got
			if l.name == "de-morgan" {
				bs = renderAST(l.base, o2, rng)
				pb := safeParse(bs)
				if !pb.ok() {
					res.add(violation{Clause: "C07:parse", Detail: "valid-filter-rejected", Msg: fmt.Sprintf("ParseString(%q): %v %v", bs, pb.Err, pb.Out),
						Replay: map[string]any{"kind": "c08-parse", "string": bs, "acc": 1}})
					continue
				}
				var e error
				var ob outcome
				bres, e, ob = evalAll(pb.F, maps)
				if e != nil || ob.bad() {
					res.add(violation{Clause: "C07:total", Detail: "evaluate-" + kindOfErr(ob, e), Msg: fmt.Sprintf("Evaluate of %q: %v %v", bs, e, ob),
						Replay: map[string]any{"kind": "c07-eval", "via": "direct", "filter": bs, "attrs": map[string]string{}, "expect": []int{0, 1}}})
					continue
				}
				res.count("evaluations", nMaps)
			}
			pg := safeParse(gs)
			if !pg.ok() {
				res.add(violation{Clause: "C07:parse", Detail: "valid-filter-rejected", Msg: fmt.Sprintf("ParseString(%q): %v %v", gs, pg.Err, pg.Out),
					Replay: map[string]any{"kind": "c08-parse", "string": gs, "acc": 1}})
				continue
			}
			gres, e, og := evalAll(pg.F, maps)
			if e != nil || og.bad() {
				res.add(violation{Clause: "C07:total", Detail: "evaluate-" + kindOfErr(og, e), Msg: fmt.Sprintf("Evaluate of %q: %v %v", gs, e, og),
					Replay: map[string]any{"kind": "c07-eval", "via": "direct", "filter": gs, "attrs": map[string]string{}, "expect": []int{0, 1}}})
				continue
			}
			res.count("evaluations", nMaps)
			res.count("law_checks", 1)
			for i := 0; i < nMaps; i++ {
				if gres[i] != bres[i] {
					res.add(violation{Clause: "C07:law", Detail: l.name,
						Msg: fmt.Sprintf("%s: %s = %d but %s = %d on attributes %s", l.name, bs, bres[i], gs, gres[i], jsonStr(maps[i])),
						Replay: map[string]any{"kind": "c07-law", "law": l.name, "f": bs, "g": gs, "relation": "eq", "attrs": maps[i]}})
					break
				}
			}
		}
	}
}

func pick0(c c07case, v vocab) []int { r, _ := c.refs(v); return r }
func pick1(c c07case, v vocab) []int { _, r := c.refs(v); return r }

func kindOf(o outcome) string {
	if o.Timeout {
		return "hang"
	}
	return "panic"
}
func kindOfErr(o outcome, err error) string {
	if o.bad() {
		return kindOf(o)
	}
	return "error"
}

func runC07(in, out string, seed int64, workers, variants, e2e, e2eGroup, lawEvery int, scratch string) error {
	res := newResult("c07", seed)
	tally := &neTally{}
	sel := &e2eSel{n: e2e}
	err := readCases(in, workers, func(idx int64, raw []byte) {
		checkC07Case(res, tally, sel, idx, raw, seed, variants, lawEvery)
	})
	if err != nil {
		return err
	}
	if e2e > 0 {
		if err := runC07E2E(res, tally, sel, seed, e2eGroup, scratch, workers); err != nil {
			return err
		}
	}
	finishTally(res, tally)
	return res.write(out)
}

func finishTally(res *result, tally *neTally) {
	res.Counters["ne_sensitive_agree_ne_missing_false"] = tally.n[0]
	res.Counters["ne_sensitive_agree_ne_missing_true"] = tally.n[1]
	switch {
	case tally.n[0] == 0 && tally.n[1] == 0:
		res.NeVariant = "undetermined"
	case tally.n[1] == 0:
		res.NeVariant = "NeMissing=FALSE"
	case tally.n[0] == 0:
		res.NeVariant = "NeMissing=TRUE"
	default:
		minor := 0
		res.NeVariant = "NeMissing=TRUE (inconsistent)"
		if tally.n[0] > tally.n[1] {
			minor = 1
			res.NeVariant = "NeMissing=FALSE (inconsistent)"
		}
		for _, v := range tally.ex[minor] {
			res.add(v)
		}
		res.mu.Lock()
		if e := res.Sigs["C07:eval|ne-on-missing-attribute-read-inconsistently"]; e != nil {
			e.Count = int(tally.n[minor])
		}
		res.mu.Unlock()
	}
}

// ---------------------------------------------------------------- through the gRPC API

type e2eJobFilter struct {
	Idx int64  `json:"idx"`
	S   string `json:"s"`
}

func runC07E2E(res *result, tally *neTally, sel *e2eSel, seed int64, group int, scratch string, workers int) error {
	sort.Slice(sel.list, func(i, j int) bool { return sel.list[i].idx < sel.list[j].idx })
	// group by vocabulary: one topic, one set of 64 messages per group
	type grp struct {
		v     vocab
		picks []e2ePick
		strs  []string
	}
	open := map[string]*grp{}
	var all []*grp
	for _, p := range sel.list {
		rng := caseRng(seed, p.idx, 991)
		v := pickVocab(rng, true)
		if len(renderAST(concretize(p.c.F, v), ropts{Minus: 1, WS: 2}, rng)) > 256 {
			res.count("e2e_skipped_longer_than_256_bytes", 1)
			continue
		}
		key := jsonStr(v)
		g := open[key]
		if g == nil || len(g.picks) >= group {
			g = &grp{v: v}
			open[key] = g
			all = append(all, g)
		}
		o := pickOpts(rng)
		txt := renderAST(concretize(p.c.F, v), o, rng)
		if len(txt) > 256 { // Pub/Sub documents a 256 byte limit for filters: use the tightest spelling
			txt = renderAST(concretize(p.c.F, v), ropts{Minus: 1, WS: 2}, rng)
		}
		g.picks = append(g.picks, p)
		g.strs = append(g.strs, txt)
	}
	var jobs []grpcJob
	byID := map[int]*grp{}
	for i, g := range all {
		j := grpcJob{Kind: "e2e", ID: i, Vocab: &g.v}
		for k, s := range g.strs {
			j.Filters = append(j.Filters, e2eJobFilter{Idx: g.picks[k].idx, S: s})
		}
		byID[i] = g
		jobs = append(jobs, j)
	}
	results, crashed, err := runGrpcJobs(jobs, scratch, workers)
	if err != nil {
		return err
	}
	for _, j := range crashed {
		res.add(violation{Clause: "C07:e2e", Detail: "server-crash", Msg: fmt.Sprintf("the process died while serving filters %s", short(jsonStr(j.Filters), 300)),
			Replay: map[string]any{"kind": "grpc-job", "job": j}})
	}
	for _, r := range results {
		g := byID[r.ID]
		if g == nil {
			continue
		}
		if r.Err != "" {
			return fmt.Errorf("gRPC slice, group %d: %s", r.ID, r.Err)
		}
		for k, sr := range r.Subs {
			p := g.picks[k]
			s := g.strs[k]
			if sr.Create != "OK" {
				res.add(violation{Clause: "C07:parse", Detail: "valid-filter-rejected", Msg: fmt.Sprintf("CreateSubscription(filter=%q): %s", s, sr.Create),
					Replay: map[string]any{"kind": "grpc-job", "job": grpcJob{Kind: "e2e", ID: 0, Vocab: &g.v, Filters: []e2eJobFilter{{Idx: p.idx, S: s}}},
						"expect_r0": pick0(p.c, g.v), "expect_r1": pick1(p.c, g.v)}})
				continue
			}
			got := make([]int, nMaps)
			for _, i := range sr.Got {
				if i >= 0 && i < nMaps {
					got[i] = 1
				}
			}
			res.count("e2e_filters", 1)
			res.count("e2e_messages", nMaps)
			res.count("evaluations", nMaps)
			compareRefE2E(res, tally, p.c, got, s, g.v, p.idx)
			if k == 0 {
				res.sample(5, map[string]any{"via": "grpc", "filter": s, "vocab": g.v, "received_message_numbers": sr.Got, "reference_ne_missing_false": joinInts(pick0(p.c, g.v))})
			}
		}
	}
	return nil
}

func compareRefE2E(res *result, tally *neTally, c c07case, got []int, filt string, v vocab, idx int64) {
	job := grpcJob{Kind: "e2e", ID: 0, Vocab: &v, Filters: []e2eJobFilter{{Idx: idx, S: filt}}}
	ref0, ref1 := c.refs(v)
	for i := 0; i < nMaps; i++ {
		r0, r1 := ref0[i], ref1[i]
		rp := map[string]any{"kind": "grpc-job", "job": job, "expect_r0": ref0, "expect_r1": ref1, "map": i, "attrs": attrsOf(i, v)}
		if r0 == r1 {
			rp["expect"] = []int{r0}
			if got[i] != r0 {
				what := "did not receive a message its filter matches"
				if got[i] == 1 {
					what = "received a message its filter does not match"
				}
				res.add(violation{Clause: "C07:e2e", Detail: "delivered-set-differs-from-reference",
					Msg:    fmt.Sprintf("subscription with filter %s %s: attributes %s (reference %d)", filt, what, jsonStr(attrsOf(i, v)), r0),
					Replay: rp})
			}
			continue
		}
		agree := 0
		if got[i] == r1 {
			agree = 1
		}
		rp["expect"] = []int{1 - got[i]}
		tally.add(agree, violation{Clause: "C07:eval", Detail: "ne-on-missing-attribute-read-inconsistently",
			Msg:    fmt.Sprintf("subscription with filter %s, message attributes %s: delivered=%d agrees with NeMissing=%v only", filt, jsonStr(attrsOf(i, v)), got[i], agree == 1),
			Replay: rp})
	}
}
