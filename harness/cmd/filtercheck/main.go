// filtercheck binds spec/FilterEnum.tla, FilterSim.tla (C07) and
// spec/FilterSyntax.tla (C08) to the real filter package and to the real gRPC
// API: it reads the cases TLC printed (AST / token string + reference
// verdicts), renders them to concrete syntax and compares the implementation
// with the reference.
//
//	filtercheck -mode c07 -in DIR -out result.json -seed S [-variants V] [-e2e N] [-scratch DIR]
//	filtercheck -mode c08 -in DIR -out result.json -seed S [-kwvariants K] [-grpc N] [-fuzz N] [-scratch DIR]
//	filtercheck -mode replay -in replay.json -out result.json [-scratch DIR]
//	filtercheck -mode grpc-worker -in jobs.ndjson -out results.ndjson -scratch DIR   (internal child)
package main

import (
	"bufio"
	"encoding/json"
	"flag"
	"fmt"
	"hash/fnv"
	"os"
	"path/filepath"
	"runtime"
	"sort"
	"strings"
	"sync"
)

type violation struct {
	Clause string         `json:"clause"`
	Detail string         `json:"detail"`
	Msg    string         `json:"msg"`
	Replay map[string]any `json:"replay"`
}

type sigEntry struct {
	Clause   string      `json:"clause"`
	Detail   string      `json:"detail"`
	Count    int         `json:"count"`
	Examples []violation `json:"examples"`
}

type result struct {
	mu          sync.Mutex
	Mode        string               `json:"mode"`
	Seed        int64                `json:"seed"`
	Counters    map[string]int64     `json:"counters"`
	Sigs        map[string]*sigEntry `json:"violations"`
	Samples     []any                `json:"samples"`
	Notes       []string             `json:"notes"`
	NeVariant   string               `json:"ne_variant,omitempty"`
	distinct    map[uint64]struct{}
	distinctAll map[uint64]struct{}
}

func newResult(mode string, seed int64) *result {
	return &result{Mode: mode, Seed: seed, Counters: map[string]int64{}, Sigs: map[string]*sigEntry{},
		distinct: map[uint64]struct{}{}, distinctAll: map[uint64]struct{}{}}
}

const maxExamples = 3

func (r *result) add(v violation) {
	r.mu.Lock()
	defer r.mu.Unlock()
	k := v.Clause + "|" + v.Detail
	e := r.Sigs[k]
	if e == nil {
		e = &sigEntry{Clause: v.Clause, Detail: v.Detail}
		r.Sigs[k] = e
	}
	e.Count++
	if len(e.Examples) < maxExamples {
		e.Examples = append(e.Examples, v)
	} else if len(v.Msg) < len(e.Examples[maxExamples-1].Msg) {
		// prefer short reproducers
		e.Examples[maxExamples-1] = v
		sort.SliceStable(e.Examples, func(i, j int) bool { return len(e.Examples[i].Msg) < len(e.Examples[j].Msg) })
	}
}

func (r *result) count(k string, n int64) {
	r.mu.Lock()
	r.Counters[k] += n
	r.mu.Unlock()
}

func (r *result) note(s string) {
	r.mu.Lock()
	r.Notes = append(r.Notes, s)
	r.mu.Unlock()
}

func (r *result) sample(max int, v any) {
	r.mu.Lock()
	if len(r.Samples) < max {
		r.Samples = append(r.Samples, v)
	}
	r.mu.Unlock()
}

func hash64(b []byte) uint64 { h := fnv.New64a(); h.Write(b); return h.Sum64() }

// seen records a case; nontrivial ones also in the distinct-nontrivial set
func (r *result) seen(h uint64, nontrivial bool) {
	r.mu.Lock()
	r.distinctAll[h] = struct{}{}
	if nontrivial {
		r.distinct[h] = struct{}{}
	}
	r.mu.Unlock()
}

func (r *result) write(path string) error {
	r.mu.Lock()
	defer r.mu.Unlock()
	if len(r.distinctAll) > 0 {
		r.Counters["distinct_nontrivial"] = int64(len(r.distinct))
		r.Counters["distinct_cases"] = int64(len(r.distinctAll))
	}
	b, err := json.MarshalIndent(r, "", " ")
	if err != nil {
		return err
	}
	return os.WriteFile(path, b, 0o644)
}

// readCases streams the JSON lines TLC printed ("{...}" as a TLA+ string) from
// every file of dir (or the single file) to the workers.
func readCases(in string, workers int, handle func(idx int64, raw []byte)) error {
	var files []string
	st, err := os.Stat(in)
	if err != nil {
		return err
	}
	if st.IsDir() {
		files, _ = filepath.Glob(filepath.Join(in, "*.out"))
		sort.Strings(files)
	} else {
		files = []string{in}
	}
	type item struct {
		idx int64
		raw []byte
	}
	ch := make(chan item, 4096)
	var wg sync.WaitGroup
	for w := 0; w < workers; w++ {
		wg.Add(1)
		go func() {
			defer wg.Done()
			for it := range ch {
				var inner string
				if err := json.Unmarshal(it.raw, &inner); err != nil {
					continue
				}
				handle(it.idx, []byte(inner))
			}
		}()
	}
	var idx int64
	for _, fn := range files {
		f, err := os.Open(fn)
		if err != nil {
			return err
		}
		sc := bufio.NewScanner(f)
		sc.Buffer(make([]byte, 1<<20), 1<<28)
		for sc.Scan() {
			b := sc.Bytes()
			if len(b) < 2 || b[0] != '"' || b[1] != '{' {
				continue
			}
			cp := make([]byte, len(b))
			copy(cp, b)
			ch <- item{idx, cp}
			idx++
		}
		f.Close()
		if err := sc.Err(); err != nil {
			return err
		}
	}
	close(ch)
	wg.Wait()
	return nil
}

func main() {
	mode := flag.String("mode", "", "c07 | c08 | replay | grpc-worker")
	in := flag.String("in", "", "input: directory of TLC outputs (*.out), or a file")
	out := flag.String("out", "", "result file")
	seed := flag.Int64("seed", 1, "seed of every random choice")
	workers := flag.Int("workers", runtime.NumCPU(), "parallel workers")
	variants := flag.Int("variants", 1, "C07: concrete renderings per AST")
	e2e := flag.Int("e2e", 0, "C07: number of filters sent through the gRPC API")
	e2eGroup := flag.Int("e2e-group", 12, "C07: subscriptions per topic in the gRPC slice")
	lawEvery := flag.Int("law-every", 1, "C07: check the laws on every n-th three-leaf AST (1 = all)")
	kwv := flag.Int("kwvariants", 2, "C08: keyword-content renderings per rejected string (-1 = all)")
	grpcN := flag.Int("grpc", 0, "C08: number of strings sent through CreateSubscription / UpdateSubscription")
	fuzzN := flag.Int("fuzz", 0, "C08: number of fuzzed byte strings")
	scratch := flag.String("scratch", os.TempDir(), "scratch directory (database files)")
	flag.Parse()

	var err error
	switch *mode {
	case "c07":
		err = runC07(*in, *out, *seed, *workers, *variants, *e2e, *e2eGroup, *lawEvery, *scratch)
	case "c08":
		err = runC08(*in, *out, *seed, *workers, *kwv, *grpcN, *fuzzN, *scratch)
	case "replay":
		err = runReplay(*in, *out, *scratch)
	case "grpc-worker":
		err = runGrpcWorker(*in, *out, *scratch, *workers)
	default:
		err = fmt.Errorf("unknown mode %q", *mode)
	}
	if err != nil {
		fmt.Fprintln(os.Stderr, "filtercheck:", err)
		os.Exit(2)
	}
}

func short(s string, n int) string {
	if len(s) > n {
		return s[:n] + "..."
	}
	return s
}

func jsonStr(v any) string { b, _ := json.Marshal(v); return string(b) }

func joinInts(xs []int) string {
	var b strings.Builder
	for _, x := range xs {
		b.WriteByte(byte('0' + x))
	}
	return b.String()
}
