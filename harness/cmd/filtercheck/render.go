package main

// Rendering of filter ASTs (record format of spec/Filter.tla) and of token
// strings (alphabet of spec/FilterSyntax.tla) to concrete filter text, with
// seeded variants of quoting, escapes, whitespace and "-" vs "NOT".
//
// Only spellings the documented language settles are produced here:
// unquoted names are ASCII identifiers that are not (case-insensitively)
// keywords; everything else is a double-quoted string with the escapes
// \" \\ \n \t \r \uXXXX.

import (
	"fmt"
	"math/rand"
	"strings"

	"go.6river.tech/mmmbbb/verifharness/busexec"
)

type AST = busexec.AST

func op(a AST) string { s, _ := a["op"].(string); return s }
func kid(a AST) AST {
	if m, ok := a["x"].(map[string]any); ok {
		return m
	}
	return nil
}
func kids(a AST) []AST {
	var out []AST
	switch l := a["xs"].(type) {
	case []any:
		for _, x := range l {
			if m, ok := x.(map[string]any); ok {
				out = append(out, m)
			}
		}
	case []AST:
		out = append(out, l...)
	}
	return out
}
func str(a AST, k string) string { s, _ := a[k].(string); return s }

func mkNot(x AST) AST { return AST{"op": "not", "x": x} }
func mkPar(x AST) AST { return AST{"op": "par", "x": x} }
func mkSeq(o string, xs []AST) AST {
	l := make([]any, len(xs))
	for i, x := range xs {
		l[i] = x
	}
	return AST{"op": o, "xs": l}
}

// ---------------------------------------------------------------- vocabularies

// A vocabulary maps the ids of FilterEnum (n1..n3, v0..v2) to concrete strings.
// vals[0] is always "", vals[1] is a proper non-empty prefix of vals[2].
//
// Rel "A": vals[1] is a proper non-empty prefix of vals[2];
// Rel "B": vals[1] is a proper substring of vals[2] but NOT a prefix of it
// (tells hasPrefix from contains / hasSuffix / case-insensitive matching).
type vocab struct {
	Names [3]string `json:"names"`
	Vals  [3]string `json:"vals"`
	Rel   string    `json:"rel"`
}

var nameSets = [][3]string{
	{"x", "y", "z"},
	{"AND", "NOT", "attributes"},       // keyword-like: must be quoted
	{"hasPrefix", "OR", "and"},         // keyword-like
	{"é", "日本", "naïve_ключ"},           // unicode (rendered quoted)
	{"foo bar", "a.b", "q\"r\\s"},      // need quoting / escapes
	{"k", "kk", "kkk"},                 // prefixes of one another
	{"", "a", " "},                     // the empty name (a String, hence in the grammar)
	{"_x1", "X", "x"},                  // case, underscore, digits
	{"-", "(", ":"},                    // punctuation as names
	{"line\nbreak", "tab\t", "\U0001F600"}, // control characters, astral plane
}

// sets that contain the empty name are not used through the API (an empty
// attribute key is not a valid Pub/Sub attribute)
func nameSetForAPI(i int) bool { return nameSets[i][0] != "" }

var valSets = [][3]string{
	{"", "a", "ab"},
	{"", "é", "éa"},
	{"", "AND", "AND OR"},
	{"", " ", "  "},
	{"", "a\"", "a\"b\\"},
	{"", "x", "x\n"},
	{"", "日", "日本"},
	{"", "attributes", "attributes:x"},
	{"", "0", "00"},
	{"", "A", "Aa"},
}

// prefix structure B of FilterEnum.tla
var valSetsB = [][3]string{
	{"", "b", "ab"},
	{"", "é", "aé"},
	{"", "OR", "AND OR"},
	{"", " ", "a "},
	{"", "b\\", "a\"b\\"},
	{"", "\n", "x\n"},
	{"", "本", "日本"},
	{"", "x", "attributes:x"},
	{"", "0", "10"},
	{"", "a", "Aa"}, // also: matching is case-sensitive
	{"", "b", "abc"},
}

func init() {
	for _, v := range valSets {
		if v[0] != "" || v[1] == "" || !strings.HasPrefix(v[2], v[1]) || v[1] == v[2] {
			panic("bad value set A")
		}
	}
	for _, v := range valSetsB {
		if v[0] != "" || v[1] == "" || strings.HasPrefix(v[2], v[1]) || strings.HasPrefix(v[1], v[2]) || !strings.Contains(v[2], v[1]) {
			panic("bad value set B")
		}
	}
}

func pickVocab(rng *rand.Rand, api bool) vocab {
	for {
		i := rng.Intn(len(nameSets))
		if api && !nameSetForAPI(i) {
			continue
		}
		if rng.Intn(3) == 0 {
			return vocab{Names: nameSets[i], Vals: valSetsB[rng.Intn(len(valSetsB))], Rel: "B"}
		}
		return vocab{Names: nameSets[i], Vals: valSets[rng.Intn(len(valSets))], Rel: "A"}
	}
}

var nameIdx = map[string]int{"n1": 0, "n2": 1, "n3": 2}
var valIdx = map[string]int{"v0": 0, "v1": 1, "v2": 2}

// concretize replaces name / value ids by the strings of the vocabulary.
func concretize(a AST, v vocab) AST {
	switch op(a) {
	case "has":
		return AST{"op": "has", "k": v.Names[nameIdx[str(a, "k")]]}
	case "eq", "ne", "pre":
		return AST{"op": op(a), "k": v.Names[nameIdx[str(a, "k")]], "v": v.Vals[valIdx[str(a, "v")]]}
	case "not", "par":
		return AST{"op": op(a), "x": concretize(kid(a), v)}
	default:
		var xs []AST
		for _, x := range kids(a) {
			xs = append(xs, concretize(x, v))
		}
		return mkSeq(op(a), xs)
	}
}

// attrsOf is attribute map number m (0..63) of FilterEnum.MapAt.
func attrsOf(m int, v vocab) map[string]string {
	out := map[string]string{}
	for j := 0; j < 3; j++ {
		c := (m >> (2 * uint(j))) & 3
		if c != 0 {
			out[v.Names[j]] = v.Vals[c-1]
		}
	}
	return out
}

// ---------------------------------------------------------------- lexemes

func isKeywordLike(s string) bool {
	switch strings.ToLower(s) {
	case "and", "or", "not", "attributes", "hasprefix":
		return true
	}
	return false
}

// plainIdent: may be written without quotes in every reading of the documentation
func plainIdent(s string) bool {
	if s == "" || isKeywordLike(s) {
		return false
	}
	for i, r := range s {
		if !(r == '_' || (r >= 'a' && r <= 'z') || (r >= 'A' && r <= 'Z') || (i > 0 && r >= '0' && r <= '9')) {
			return false
		}
	}
	return true
}

type ropts struct {
	Minus int // 0 NOT, 1 "-", 2 per occurrence
	Quote int // 0 names quoted only when needed, 1 always, 2 per occurrence
	Esc   int // 0 minimal escapes, 1 random \uXXXX escapes
	WS    int // 0 single spaces, 1 runs of blanks/tabs/newlines, 2 tight
}

func pickOpts(rng *rand.Rand) ropts {
	return ropts{Minus: rng.Intn(3), Quote: rng.Intn(3), Esc: rng.Intn(2), WS: rng.Intn(3)}
}

func quoteStr(s string, esc int, rng *rand.Rand) string {
	var b strings.Builder
	b.WriteByte('"')
	for _, r := range s {
		switch {
		case r == '"':
			b.WriteString(`\"`)
		case r == '\\':
			b.WriteString(`\\`)
		case r == '\n':
			b.WriteString(`\n`)
		case r == '\t':
			b.WriteString(`\t`)
		case r == '\r':
			b.WriteString(`\r`)
		case r < 0x20 || r == 0x7f:
			fmt.Fprintf(&b, `\u%04x`, r)
		case esc == 1 && r <= 0xffff && rng != nil && rng.Intn(3) == 0:
			fmt.Fprintf(&b, `\u%04x`, r)
		default:
			b.WriteRune(r)
		}
	}
	b.WriteByte('"')
	return b.String()
}

// tok is a token of the alphabet of FilterSyntax.tla with its lexeme.
type tok struct {
	Kind string
	Lex  string
	Name bool   // an attribute name position
	Text string // for Ident / String: the denoted string
}

func kw(k string) tok { return tok{Kind: k, Lex: k} }

func nameTok(s string, o ropts, rng *rand.Rand) tok {
	quoted := !plainIdent(s)
	if !quoted {
		switch o.Quote {
		case 1:
			quoted = true
		case 2:
			quoted = rng.Intn(2) == 0
		}
	}
	if quoted {
		return tok{Kind: "String", Lex: quoteStr(s, o.Esc, rng), Name: true, Text: s}
	}
	return tok{Kind: "Ident", Lex: s, Name: true, Text: s}
}

func valTok(s string, o ropts, rng *rand.Rand) tok {
	return tok{Kind: "String", Lex: quoteStr(s, o.Esc, rng), Text: s}
}

func negTok(o ropts, rng *rand.Rand) tok {
	m := o.Minus
	if m == 2 {
		m = rng.Intn(2)
	}
	if m == 1 {
		return kw("-")
	}
	return kw("NOT")
}

// condToks renders a Condition; termToks a Term (adding the parentheses an
// AST that is not grammar-shaped would need).
func condToks(a AST, o ropts, rng *rand.Rand) []tok {
	switch op(a) {
	case "and", "or":
		k := "AND"
		if op(a) == "or" {
			k = "OR"
		}
		var out []tok
		for i, x := range kids(a) {
			if i > 0 {
				out = append(out, kw(k))
			}
			out = append(out, termToks(x, o, rng)...)
		}
		return out
	}
	return termToks(a, o, rng)
}

func termToks(a AST, o ropts, rng *rand.Rand) []tok {
	switch op(a) {
	case "not":
		x := kid(a)
		out := []tok{negTok(o, rng)}
		if op(x) == "not" || op(x) == "and" || op(x) == "or" {
			out = append(out, kw("("))
			out = append(out, condToks(x, o, rng)...)
			return append(out, kw(")"))
		}
		return append(out, termToks(x, o, rng)...)
	case "par":
		out := []tok{kw("(")}
		out = append(out, condToks(kid(a), o, rng)...)
		return append(out, kw(")"))
	case "and", "or":
		out := []tok{kw("(")}
		out = append(out, condToks(a, o, rng)...)
		return append(out, kw(")"))
	case "has":
		return []tok{kw("attributes"), kw(":"), nameTok(str(a, "k"), o, rng)}
	case "eq", "ne":
		e := "="
		if op(a) == "ne" {
			e = "!="
		}
		return []tok{kw("attributes"), kw("."), nameTok(str(a, "k"), o, rng), kw(e), valTok(str(a, "v"), o, rng)}
	case "pre":
		return []tok{kw("hasPrefix"), kw("("), kw("attributes"), kw("."), nameTok(str(a, "k"), o, rng), kw(","),
			valTok(str(a, "v"), o, rng), kw(")")}
	}
	panic("cannot render filter op " + op(a))
}

func wordy(k string) bool {
	switch k {
	case "attributes", "hasPrefix", "AND", "OR", "NOT", "Ident":
		return true
	}
	return false
}

func blank(rng *rand.Rand) string {
	n := 1 + rng.Intn(3)
	var b strings.Builder
	for i := 0; i < n; i++ {
		b.WriteByte(" \t\n "[rng.Intn(4)])
	}
	return b.String()
}

// joinToks: ws 0 = one space between all tokens; 1 = random runs of white
// space (also at both ends); 2 = tight: no space around punctuation, one
// space around the keywords AND OR NOT and between word-like tokens.
func joinToks(ts []tok, ws int, rng *rand.Rand) string {
	var b strings.Builder
	if ws == 1 && rng.Intn(2) == 0 {
		b.WriteString(blank(rng))
	}
	for i, t := range ts {
		if i > 0 {
			p := ts[i-1]
			switch ws {
			case 0:
				b.WriteByte(' ')
			case 1:
				b.WriteString(blank(rng))
			default:
				kwd := func(k string) bool { return k == "AND" || k == "OR" || k == "NOT" }
				if (wordy(p.Kind) && wordy(t.Kind)) || kwd(p.Kind) || kwd(t.Kind) {
					b.WriteByte(' ')
				}
			}
		}
		b.WriteString(t.Lex)
	}
	if ws == 1 && rng.Intn(2) == 0 {
		b.WriteString(blank(rng))
	}
	return b.String()
}

func renderAST(a AST, o ropts, rng *rand.Rand) string {
	return joinToks(condToks(a, o, rng), o.WS, rng)
}

// ---------------------------------------------------------------- AST transformations (laws)

// neg: the Term "NOT a" for a Condition a
func neg(a AST) AST {
	switch op(a) {
	case "and", "or", "not":
		return mkNot(mkPar(a))
	}
	return mkNot(a)
}

func doubleNeg(a AST) AST { return neg(neg(a)) }

// deMorgan: for a = x1 AND .. AND xn returns (NOT x1) OR .. OR (NOT xn), dually
func deMorgan(a AST) AST {
	d := "or"
	if op(a) == "or" {
		d = "and"
	}
	var xs []AST
	for _, x := range kids(a) {
		xs = append(xs, neg(x))
	}
	return mkSeq(d, xs)
}

// commute reverses the operands of every AND / OR sequence
func commute(a AST) AST {
	switch op(a) {
	case "and", "or":
		ks := kids(a)
		xs := make([]AST, len(ks))
		for i, x := range ks {
			xs[len(ks)-1-i] = commute(x)
		}
		return mkSeq(op(a), xs)
	case "not", "par":
		return AST{"op": op(a), "x": commute(kid(a))}
	}
	return a
}

// parenthesise wraps the whole Condition and every operand of every sequence
func parenthesise(a AST) AST {
	var inner func(a AST) AST
	inner = func(a AST) AST {
		switch op(a) {
		case "and", "or":
			var xs []AST
			for _, x := range kids(a) {
				xs = append(xs, mkPar(inner(x)))
			}
			return mkSeq(op(a), xs)
		case "not", "par":
			return AST{"op": op(a), "x": inner(kid(a))}
		}
		return a
	}
	return mkPar(inner(a))
}

func hasSeq(a AST) bool {
	switch op(a) {
	case "and", "or":
		return true
	case "not", "par":
		return hasSeq(kid(a))
	}
	return false
}

func countLeaves(a AST) int {
	switch op(a) {
	case "and", "or":
		n := 0
		for _, x := range kids(a) {
			n += countLeaves(x)
		}
		return n
	case "not", "par":
		return countLeaves(kid(a))
	}
	return 1
}

// ---------------------------------------------------------------- token strings (C08)

var identPool = []string{"x", "y_1", "Abc", "_u", "attr", "andy", "ORe", "hasprefix2", "k9", "NOTE"}

// stringPool: contents for String tokens in accepted sentences (names and values)
var stringPool []string

var keywordContents = []string{"AND", "OR", "NOT", "-", "(", ")", ":", ".", ",", "=", "!", "attributes", "hasPrefix"}

func init() {
	seen := map[string]bool{}
	add := func(s string) {
		if !seen[s] {
			seen[s] = true
			stringPool = append(stringPool, s)
		}
	}
	for _, ns := range nameSets {
		for _, s := range ns {
			add(s)
		}
	}
	for _, vs := range append(append([][3]string{}, valSets...), valSetsB...) {
		for _, s := range vs {
			add(s)
		}
	}
}

// lexTokens gives lexemes to a token string. mode: "canon" = Ident x/y/z,
// String "a"/"b"/"c"; "rand" = seeded pools and quoting/escape variants;
// "kw:<c>" = canonical, but every String denotes <c>.
func lexTokens(kinds []string, mode string, rng *rand.Rand) []tok {
	out := make([]tok, len(kinds))
	ni, si := 0, 0
	esc := 0
	if mode == "rand" {
		esc = rng.Intn(2)
	}
	for i, k := range kinds {
		namePos := i > 0 && (kinds[i-1] == ":" || kinds[i-1] == ".")
		switch k {
		case "Ident":
			s := string(rune('x' + ni%3))
			ni++
			if mode == "rand" {
				s = identPool[rng.Intn(len(identPool))]
			}
			out[i] = tok{Kind: k, Lex: s, Text: s, Name: namePos}
		case "String":
			s := string(rune('a' + si%3))
			si++
			if mode == "rand" {
				s = stringPool[rng.Intn(len(stringPool))]
			} else if strings.HasPrefix(mode, "kw:") {
				s = mode[3:]
			}
			out[i] = tok{Kind: k, Lex: quoteStr(s, esc, rng), Text: s, Name: namePos}
		default:
			out[i] = kw(k)
		}
	}
	return out
}

func tokTexts(ts []tok) (names, vals []string) {
	for _, t := range ts {
		if t.Kind == "Ident" || t.Kind == "String" {
			if t.Name {
				names = append(names, t.Text)
			} else {
				vals = append(vals, t.Text)
			}
		}
	}
	return
}
