// Package world builds one isolated instance of the system under verification:
// a fresh SQLite file behind the wrapped driver, the repository's ent client,
// an in-process gRPC server with the repository's Publisher and Subscriber
// services, a virtual clock (implemented by shifting every stored timestamp;
// the code has no clock seam and compares time.Now() only with stored times),
// and the projection of the five tables onto the abstract state of Bus.tla.
package world

import (
	"context"
	"database/sql"
	"encoding/json"
	"fmt"
	"net"
	"os"
	"path/filepath"
	"sort"
	"sync"
	"time"

	"entgo.io/ent/dialect"
	entsql "entgo.io/ent/dialect/sql"
	"github.com/google/uuid"
	"github.com/rs/zerolog"
	"google.golang.org/grpc"
	"google.golang.org/grpc/credentials/insecure"
	"google.golang.org/grpc/metadata"
	"google.golang.org/grpc/test/bufconn"

	"go.6river.tech/mmmbbb/db"
	"go.6river.tech/mmmbbb/ent"
	_ "go.6river.tech/mmmbbb/ent/runtime"
	"go.6river.tech/mmmbbb/grpc/pubsubpb"
	"go.6river.tech/mmmbbb/services"

	"go.6river.tech/mmmbbb/verifharness/sqlwrap"
)

// TU is the number of specification time units per second in traces.
const TU = 10

// Base is the virtual time (in TU) at which a world starts; positive so that
// "seek to the past" targets stay positive.
const Base = 1000

type World struct {
	Dir    string
	DB     *sql.DB
	Client *ent.Client
	Srv    *grpc.Server
	Conn   *grpc.ClientConn
	Pub    pubsubpb.PublisherClient
	Sub    pubsubpb.SubscriberClient

	mu     sync.Mutex
	start  time.Time
	offset time.Duration

	topicID map[uuid.UUID]int
	subID   map[uuid.UUID]int
	msgID   map[uuid.UUID]int
	delID   map[uuid.UUID][3]int
	delUUID map[[3]int]uuid.UUID
	kcount  map[[2]int]int
	delN    map[uuid.UUID]int
	nDel    int

	// Filters maps a stored filter string to the AST (as JSON-able value) the
	// harness generated it from.
	Filters map[string]any
	// Names maps concrete resource names to model names.
	ModelName map[string]string
	// ModelProj maps concrete project ids to model project ids.
	ModelProj map[string]string
	closeOnce sync.Once
}

func init() {
	zerolog.SetGlobalLevel(zerolog.Disabled)
}

var worldSeq int64
var worldSeqMu sync.Mutex

var (
	templateOnce  sync.Once
	templateErr   error
	templateBytes []byte
)

func makeTemplate(ctx context.Context, dir string) error {
	tdir, err := os.MkdirTemp(dir, "template")
	if err != nil {
		return err
	}
	defer os.RemoveAll(tdir)
	dsn := db.SQLiteDSN(filepath.Join(tdir, "bus"), true, false)
	conn, err := sql.Open(sqlwrap.DriverName, dsn)
	if err != nil {
		return err
	}
	client := ent.NewClient(ent.Driver(entsql.OpenDB(dialect.SQLite, conn)))
	if err := db.MigrateUpEnt(ctx, client.Schema); err != nil {
		client.Close()
		return fmt.Errorf("migrate: %w", err)
	}
	if _, err := conn.ExecContext(ctx, "PRAGMA wal_checkpoint(TRUNCATE)"); err != nil {
		client.Close()
		return err
	}
	if err := client.Close(); err != nil {
		return err
	}
	templateBytes, err = os.ReadFile(filepath.Join(tdir, "bus.sqlite3"))
	return err
}

// New creates a world under dir (a fresh sub-directory is made).
func New(ctx context.Context, dir string) (*World, error) {
	sqlwrap.Register()
	worldSeqMu.Lock()
	worldSeq++
	n := worldSeq
	worldSeqMu.Unlock()
	wdir := filepath.Join(dir, fmt.Sprintf("w%d_%d", os.Getpid(), n))
	if err := os.MkdirAll(wdir, 0o755); err != nil {
		return nil, err
	}
	// ent's schema migration is not safe to run concurrently in one process:
	// migrate a template database once and copy the file for every world.
	templateOnce.Do(func() { templateErr = makeTemplate(ctx, dir) })
	if templateErr != nil {
		return nil, templateErr
	}
	if err := os.WriteFile(filepath.Join(wdir, "bus.sqlite3"), templateBytes, 0o644); err != nil {
		return nil, err
	}
	dsn := db.SQLiteDSN(filepath.Join(wdir, "bus"), true, false)
	conn, err := sql.Open(sqlwrap.DriverName, dsn)
	if err != nil {
		return nil, err
	}
	conn.SetMaxOpenConns(10)
	conn.SetMaxIdleConns(10)
	client := ent.NewClient(ent.Driver(entsql.OpenDB(dialect.SQLite, conn)))
	w := &World{
		Dir: wdir, DB: conn, Client: client, start: time.Now(),
		topicID: map[uuid.UUID]int{}, subID: map[uuid.UUID]int{}, msgID: map[uuid.UUID]int{},
		delID: map[uuid.UUID][3]int{}, delUUID: map[[3]int]uuid.UUID{}, kcount: map[[2]int]int{},
		delN: map[uuid.UUID]int{}, Filters: map[string]any{}, ModelName: map[string]string{},
	}
	lis := bufconn.Listen(1 << 20)
	w.Srv = grpc.NewServer(grpc.ChainUnaryInterceptor(actorUnary), grpc.ChainStreamInterceptor(actorStream))
	if err := services.InitializeGrpcServers(w.Srv, client, nil); err != nil {
		return nil, err
	}
	go func() { _ = w.Srv.Serve(lis) }()
	w.Conn, err = grpc.NewClient("passthrough:///bufnet",
		grpc.WithContextDialer(func(ctx context.Context, _ string) (net.Conn, error) { return lis.DialContext(ctx) }),
		grpc.WithTransportCredentials(insecure.NewCredentials()))
	if err != nil {
		return nil, err
	}
	w.Pub = pubsubpb.NewPublisherClient(w.Conn)
	w.Sub = pubsubpb.NewSubscriberClient(w.Conn)
	return w, nil
}

// ActorCtx tags a context with an actor name both for direct calls into the
// code (sqlwrap) and for calls through the in-process gRPC API (metadata that
// the world's server copies back into the handler's context).
func ActorCtx(ctx context.Context, actor string) context.Context {
	return metadata.AppendToOutgoingContext(sqlwrap.WithActor(ctx, actor), "verif-actor", actor)
}

// serverCancels holds, per actor, the cancel function of the context of the
// request handler currently running for it, so that a fault driver can cancel
// a request SERVER-side at an exact database interaction (a client-side cancel
// reaches the handler asynchronously).
var serverCancels sync.Map

// CancelServerRequest cancels the handler context of the actor's current
// request; false if none is running.
func CancelServerRequest(actor string) bool {
	if c, ok := serverCancels.Load(actor); ok {
		c.(context.CancelFunc)()
		return true
	}
	return false
}

func actorFromMD(ctx context.Context) (context.Context, func()) {
	if md, ok := metadata.FromIncomingContext(ctx); ok {
		if v := md.Get("verif-actor"); len(v) > 0 {
			a := v[len(v)-1]
			cctx, cancel := context.WithCancel(sqlwrap.WithActor(ctx, a))
			serverCancels.Store(a, cancel)
			return cctx, func() { serverCancels.Delete(a); cancel() }
		}
	}
	return ctx, func() {}
}

func actorUnary(ctx context.Context, req any, _ *grpc.UnaryServerInfo, h grpc.UnaryHandler) (any, error) {
	c, done := actorFromMD(ctx)
	defer done()
	return h(c, req)
}

type actorStreamWrap struct {
	grpc.ServerStream
	ctx context.Context
}

func (s *actorStreamWrap) Context() context.Context { return s.ctx }

func actorStream(srv any, ss grpc.ServerStream, _ *grpc.StreamServerInfo, h grpc.StreamHandler) error {
	c, done := actorFromMD(ss.Context())
	defer done()
	return h(srv, &actorStreamWrap{ServerStream: ss, ctx: c})
}

func (w *World) Close() {
	w.closeOnce.Do(func() {
		if w.Conn != nil {
			_ = w.Conn.Close()
		}
		if w.Srv != nil {
			w.Srv.Stop()
		}
		if w.Client != nil {
			_ = w.Client.Close()
		}
		_ = os.RemoveAll(w.Dir)
	})
}

// ---------------------------------------------------------------- clock

// VNow is the virtual time as a duration since the virtual epoch.
func (w *World) VNow() time.Duration {
	w.mu.Lock()
	defer w.mu.Unlock()
	return time.Since(w.start) + w.offset
}

// NowTU is the virtual time in TU (floor).
func (w *World) NowTU() int { return durTU(w.VNow()) + Base }

func durTU(d time.Duration) int {
	u := time.Second / TU
	if d >= 0 {
		return int(d / u)
	}
	return -int((-d + u - 1) / u)
}

// DurTU converts a duration to TU (floor), capped so it fits TLC's integers.
func DurTU(d time.Duration) int {
	const capTU = 2000000000
	v := d / (time.Second / TU)
	if v > capTU {
		return capTU
	}
	if v < -capTU {
		return -capTU
	}
	return int(v)
}

// TimeTU converts a stored (real-frame) timestamp to virtual TU.
func (w *World) TimeTU(t time.Time) int {
	w.mu.Lock()
	defer w.mu.Unlock()
	return durTU(t.Sub(w.start)+w.offset) + Base
}

// RealOf converts a virtual instant (duration since virtual epoch) to the
// real-frame time.Time that the code would have to see for it.
func (w *World) RealOf(v time.Duration) time.Time {
	w.mu.Lock()
	defer w.mu.Unlock()
	return w.start.Add(v - w.offset)
}

var tsCols = map[string][]string{
	"topics":        {"created_at", "deleted_at"},
	"subscriptions": {"created_at", "expires_at", "deleted_at"},
	"messages":      {"published_at"},
	"deliveries":    {"published_at", "attempt_at", "last_attempted_at", "completed_at", "expires_at"},
	"snapshots":     {"created_at", "expires_at", "acked_messages_before"},
}
var tsTables = []string{"topics", "subscriptions", "messages", "deliveries", "snapshots"}

// Advance moves the virtual clock forward by d: every stored timestamp is
// shifted back by d in one transaction. Must not run concurrently with
// operations of the system.
func (w *World) Advance(ctx context.Context, d time.Duration) error {
	if d == 0 {
		return nil
	}
	ctx = sqlwrap.WithActor(ctx, "harness")
	tx, err := w.DB.BeginTx(ctx, nil)
	if err != nil {
		return err
	}
	defer func() { _ = tx.Rollback() }()
	for _, tbl := range tsTables {
		cols := tsCols[tbl]
		q := "SELECT rowid"
		for _, c := range cols {
			q += ", " + c
		}
		q += " FROM " + tbl
		rows, err := tx.QueryContext(ctx, q)
		if err != nil {
			return err
		}
		type upd struct {
			rowid int64
			vals  []sql.NullTime
		}
		var ups []upd
		for rows.Next() {
			u := upd{vals: make([]sql.NullTime, len(cols))}
			dest := []any{&u.rowid}
			for i := range u.vals {
				dest = append(dest, &u.vals[i])
			}
			if err := rows.Scan(dest...); err != nil {
				rows.Close()
				return fmt.Errorf("scan %s: %w", tbl, err)
			}
			ups = append(ups, u)
		}
		rows.Close()
		for _, u := range ups {
			set := ""
			var args []any
			for i, c := range cols {
				if !u.vals[i].Valid {
					continue
				}
				if set != "" {
					set += ", "
				}
				set += c + " = ?"
				args = append(args, u.vals[i].Time.Add(-d))
			}
			if set == "" {
				continue
			}
			args = append(args, u.rowid)
			if _, err := tx.ExecContext(ctx, "UPDATE "+tbl+" SET "+set+" WHERE rowid = ?", args...); err != nil {
				return fmt.Errorf("shift %s: %w", tbl, err)
			}
		}
	}
	if err := tx.Commit(); err != nil {
		return err
	}
	w.mu.Lock()
	w.offset += d
	w.mu.Unlock()
	return nil
}

// ---------------------------------------------------------------- projection

type PTopic struct {
	ID     int               `json:"id"`
	Name   string            `json:"name"`
	Proj   string            `json:"proj"`
	Live   bool              `json:"live"`
	DelAt  int               `json:"delAt"`
	Labels map[string]string `json:"labels"`
	Real   string            `json:"-"`
	UUID   uuid.UUID         `json:"-"`
}
type PSub struct {
	ID     int               `json:"id"`
	Name   string            `json:"name"`
	Proj   string            `json:"proj"`
	Topic  int               `json:"topic"`
	Live   bool              `json:"live"`
	DelAt  int               `json:"delAt"`
	Exp    int               `json:"exp"`
	TTL    int               `json:"ttl"`
	MTTL   int               `json:"mttl"`
	Ord    bool              `json:"ord"`
	Filt   any               `json:"filt"`
	MinB   int               `json:"minB"`
	MaxB   int               `json:"maxB"`
	DLT    int               `json:"dlt"`
	MaxAtt int               `json:"maxAtt"`
	Delay  int               `json:"delay"`
	Push   string            `json:"push"`
	Labels map[string]string `json:"labels"`
	Real   string            `json:"-"`
	UUID   uuid.UUID         `json:"-"`
	// raw durations for the harness's own backoff transcription
	MinBackoff, MaxBackoff time.Duration `json:"-"`
}
type PMsg struct {
	ID    int               `json:"id"`
	Topic int               `json:"topic"`
	Pub   int               `json:"pub"`
	Key   string            `json:"key"`
	Attrs map[string]string `json:"attrs"`
	UUID  uuid.UUID         `json:"-"`
	Body  []byte            `json:"-"`
}
type PDel struct {
	D    [3]int    `json:"d"`
	N    int       `json:"n"`
	Done int       `json:"done"`
	Att  int       `json:"att"`
	At   int       `json:"at"`
	Exp  int       `json:"exp"`
	Pub  int       `json:"pub"`
	UUID uuid.UUID `json:"-"`
}
type PSnap struct {
	Name  string `json:"name"`
	Proj  string `json:"proj"`
	Topic int    `json:"topic"`
	Real  string `json:"-"`
}
type State struct {
	Topics []PTopic `json:"topics"`
	Subs   []PSub   `json:"subs"`
	Msgs   []PMsg   `json:"msgs"`
	Del    []PDel   `json:"del"`
	Snaps  []PSnap  `json:"snaps"`
}

func (w *World) projOf(real string) string {
	// projects/<p>/<kind>/<name>
	parts := splitN(real, '/', 4)
	if len(parts) >= 2 {
		if m, ok := w.ModelProj[parts[1]]; ok {
			return m
		}
		return parts[1]
	}
	return ""
}
func splitN(s string, sep byte, n int) []string {
	var out []string
	for len(out) < n-1 {
		i := -1
		for j := 0; j < len(s); j++ {
			if s[j] == sep {
				i = j
				break
			}
		}
		if i < 0 {
			break
		}
		out = append(out, s[:i])
		s = s[i+1:]
	}
	return append(out, s)
}

func (w *World) modelName(real string) string {
	if m, ok := w.ModelName[real]; ok {
		return m
	}
	return real
}

func labelsOf(s sql.NullString) map[string]string {
	m := map[string]string{}
	if s.Valid && s.String != "" && s.String != "null" {
		_ = json.Unmarshal([]byte(s.String), &m)
	}
	if m == nil {
		m = map[string]string{}
	}
	return m
}

func parseIv(s sql.NullString) time.Duration {
	if !s.Valid || s.String == "" {
		return 0
	}
	d, err := time.ParseDuration(s.String)
	if err != nil {
		return -1
	}
	return d
}

func (w *World) tuOrNeg(t sql.NullTime) int {
	if !t.Valid {
		return -1
	}
	return w.TimeTU(t.Time)
}

// MsgModelID returns (assigning if new) the model id of a message uuid.
func (w *World) MsgModelID(id uuid.UUID) int {
	w.mu.Lock()
	defer w.mu.Unlock()
	if v, ok := w.msgID[id]; ok {
		return v
	}
	v := len(w.msgID) + 1
	w.msgID[id] = v
	return v
}

// DelOf returns the model id of a delivery uuid (after a projection saw it).
func (w *World) DelOf(id uuid.UUID) ([3]int, bool) {
	w.mu.Lock()
	defer w.mu.Unlock()
	d, ok := w.delID[id]
	return d, ok
}

// UUIDOfDel returns the delivery uuid for a model delivery id.
func (w *World) UUIDOfDel(d [3]int) (uuid.UUID, bool) {
	w.mu.Lock()
	defer w.mu.Unlock()
	u, ok := w.delUUID[d]
	return u, ok
}

// LatestDel returns the newest known delivery of message m on subscription s.
func (w *World) LatestDel(m, s int) ([3]int, bool) {
	w.mu.Lock()
	defer w.mu.Unlock()
	k := w.kcount[[2]int{m, s}]
	if k == 0 {
		return [3]int{}, false
	}
	return [3]int{m, s, k}, true
}

// DeliveryPublishedAt returns the stored published_at of a delivery row at
// full resolution (real-clock frame).
func (w *World) DeliveryPublishedAt(id uuid.UUID) (time.Time, bool) {
	var t sql.NullTime
	err := w.DB.QueryRowContext(sqlwrap.WithActor(context.Background(), "harness"),
		"SELECT published_at FROM deliveries WHERE id = ?", id).Scan(&t)
	if err != nil || !t.Valid {
		return time.Time{}, false
	}
	return t.Time, true
}

// Project reads the five tables and returns the abstract state.
func (w *World) Project(ctx context.Context) (*State, error) {
	ctx = sqlwrap.WithActor(ctx, "harness")
	tx, err := w.DB.BeginTx(ctx, &sql.TxOptions{ReadOnly: true})
	if err != nil {
		return nil, err
	}
	defer func() { _ = tx.Rollback() }()
	st := &State{Topics: []PTopic{}, Subs: []PSub{}, Msgs: []PMsg{}, Del: []PDel{}, Snaps: []PSnap{}}

	rows, err := tx.QueryContext(ctx, "SELECT id, name, live, deleted_at, labels FROM topics ORDER BY rowid")
	if err != nil {
		return nil, err
	}
	for rows.Next() {
		var id uuid.UUID
		var name string
		var live sql.NullBool
		var del sql.NullTime
		var labels sql.NullString
		if err := rows.Scan(&id, &name, &live, &del, &labels); err != nil {
			rows.Close()
			return nil, fmt.Errorf("scan topics: %w", err)
		}
		w.mu.Lock()
		n, ok := w.topicID[id]
		if !ok {
			n = len(w.topicID) + 1
			w.topicID[id] = n
		}
		w.mu.Unlock()
		st.Topics = append(st.Topics, PTopic{ID: n, Name: w.modelName(name), Proj: w.projOf(name), Real: name, UUID: id,
			Live: live.Valid && live.Bool && !del.Valid, DelAt: w.tuOrNeg(del), Labels: labelsOf(labels)})
	}
	rows.Close()

	rows, err = tx.QueryContext(ctx, `SELECT id, topic_id, name, expires_at, live, deleted_at, ttl, message_ttl,
		ordered_delivery, labels, min_backoff, max_backoff, push_endpoint, filter, max_delivery_attempts,
		dead_letter_topic_id, delivery_delay FROM subscriptions ORDER BY rowid`)
	if err != nil {
		return nil, err
	}
	for rows.Next() {
		var id, topic uuid.UUID
		var name string
		var exp, del sql.NullTime
		var live, ord sql.NullBool
		var ttl, mttl, labels, minB, maxB, push, filt, delay sql.NullString
		var maxAtt sql.NullInt64
		var dlt uuid.NullUUID
		if err := rows.Scan(&id, &topic, &name, &exp, &live, &del, &ttl, &mttl, &ord, &labels, &minB, &maxB,
			&push, &filt, &maxAtt, &dlt, &delay); err != nil {
			rows.Close()
			return nil, fmt.Errorf("scan subscriptions: %w", err)
		}
		w.mu.Lock()
		n, ok := w.subID[id]
		if !ok {
			n = len(w.subID) + 1
			w.subID[id] = n
		}
		tn := w.topicID[topic]
		dn := 0
		if dlt.Valid {
			dn = w.topicID[dlt.UUID]
		}
		w.mu.Unlock()
		var f any = map[string]any{"op": "true"}
		if filt.Valid && filt.String != "" {
			if ast, ok := w.Filters[filt.String]; ok {
				f = ast
			} else {
				f = map[string]any{"op": "unknown", "text": filt.String}
			}
		}
		ps := PSub{ID: n, Name: w.modelName(name), Proj: w.projOf(name), Real: name, UUID: id, Topic: tn,
			Live: live.Valid && live.Bool && !del.Valid, DelAt: w.tuOrNeg(del), Exp: w.tuOrNeg(exp),
			TTL: DurTU(parseIv(ttl)), MTTL: DurTU(parseIv(mttl)), Ord: ord.Valid && ord.Bool, Filt: f,
			MinB: DurTU(parseIv(minB)), MaxB: DurTU(parseIv(maxB)), DLT: dn, MaxAtt: int(maxAtt.Int64),
			Delay: DurTU(parseIv(delay)), Push: push.String, Labels: labelsOf(labels),
			MinBackoff: parseIv(minB), MaxBackoff: parseIv(maxB)}
		st.Subs = append(st.Subs, ps)
	}
	rows.Close()

	rows, err = tx.QueryContext(ctx, "SELECT id, topic_id, published_at, order_key, attributes, payload FROM messages ORDER BY rowid")
	if err != nil {
		return nil, err
	}
	for rows.Next() {
		var id, topic uuid.UUID
		var pub sql.NullTime
		var key, attrs sql.NullString
		var body []byte
		if err := rows.Scan(&id, &topic, &pub, &key, &attrs, &body); err != nil {
			rows.Close()
			return nil, fmt.Errorf("scan messages: %w", err)
		}
		n := w.MsgModelID(id)
		w.mu.Lock()
		tn := w.topicID[topic]
		w.mu.Unlock()
		st.Msgs = append(st.Msgs, PMsg{ID: n, Topic: tn, Pub: w.tuOrNeg(pub), Key: key.String, Attrs: labelsOf(attrs), UUID: id, Body: body})
	}
	rows.Close()

	rows, err = tx.QueryContext(ctx, `SELECT id, message_id, subscription_id, published_at, attempt_at, attempts,
		completed_at, expires_at FROM deliveries ORDER BY rowid`)
	if err != nil {
		return nil, err
	}
	for rows.Next() {
		var id, mid, sid uuid.UUID
		var pub, at, done, exp sql.NullTime
		var att int
		if err := rows.Scan(&id, &mid, &sid, &pub, &at, &att, &done, &exp); err != nil {
			rows.Close()
			return nil, fmt.Errorf("scan deliveries: %w", err)
		}
		m := w.MsgModelID(mid)
		w.mu.Lock()
		s := w.subID[sid]
		d, ok := w.delID[id]
		if !ok {
			w.kcount[[2]int{m, s}]++
			d = [3]int{m, s, w.kcount[[2]int{m, s}]}
			w.delID[id] = d
			w.delUUID[d] = id
			w.nDel++
			w.delN[id] = w.nDel
		}
		n := w.delN[id]
		w.mu.Unlock()
		st.Del = append(st.Del, PDel{D: d, N: n, Done: w.tuOrNeg(done), Att: att, At: w.tuOrNeg(at), Exp: w.tuOrNeg(exp), Pub: w.tuOrNeg(pub), UUID: id})
	}
	rows.Close()

	rows, err = tx.QueryContext(ctx, "SELECT name, topic_id FROM snapshots ORDER BY rowid")
	if err != nil {
		return nil, err
	}
	for rows.Next() {
		var name string
		var topic uuid.UUID
		if err := rows.Scan(&name, &topic); err != nil {
			rows.Close()
			return nil, fmt.Errorf("scan snapshots: %w", err)
		}
		w.mu.Lock()
		tn := w.topicID[topic]
		w.mu.Unlock()
		st.Snaps = append(st.Snaps, PSnap{Name: w.modelName(name), Proj: w.projOf(name), Topic: tn, Real: name})
	}
	rows.Close()
	sort.SliceStable(st.Del, func(i, j int) bool { return st.Del[i].N < st.Del[j].N })
	return st, nil
}

// Dump returns a canonical full dump (every column of every row) of the five
// tables, used by the all-or-nothing checks (C09, C16).
func (w *World) Dump(ctx context.Context) (string, error) {
	ctx = sqlwrap.WithActor(ctx, "harness")
	out := ""
	for _, tbl := range tsTables {
		rows, err := w.DB.QueryContext(ctx, "SELECT * FROM "+tbl+" ORDER BY id")
		if err != nil {
			return "", err
		}
		cols, _ := rows.Columns()
		for rows.Next() {
			vals := make([]any, len(cols))
			ptrs := make([]any, len(cols))
			for i := range vals {
				ptrs[i] = &vals[i]
			}
			if err := rows.Scan(ptrs...); err != nil {
				rows.Close()
				return "", err
			}
			out += tbl + "|"
			for i, v := range vals {
				switch x := v.(type) {
				case []byte:
					out += fmt.Sprintf("%s=%s|", cols[i], string(x))
				case time.Time:
					out += fmt.Sprintf("%s=%s|", cols[i], x.UTC().Format(time.RFC3339Nano))
				default:
					out += fmt.Sprintf("%s=%v|", cols[i], x)
				}
			}
			out += "\n"
		}
		rows.Close()
	}
	return out, nil
}
