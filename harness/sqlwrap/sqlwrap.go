// Package sqlwrap wraps the sqlite3 database/sql driver so that the harness
// can observe, count, fail, cancel or block (gate) every BEGIN, statement and
// COMMIT that the code under verification issues, without any hook in the
// repository. Errors of the underlying driver are passed through unchanged so
// that the code's own error classification (duplicate key etc.) keeps working.
package sqlwrap

import (
	"context"
	"database/sql"
	"database/sql/driver"
	"sync"
	"sync/atomic"

	sqlite3 "github.com/mattn/go-sqlite3"
)

const DriverName = "sqlite3verif"

type Kind string

const (
	Begin      Kind = "begin"
	Exec       Kind = "exec"
	Query      Kind = "query"
	Commit     Kind = "commit"      // before the real commit
	CommitDone Kind = "commit-done" // after the real commit succeeded
	Rollback   Kind = "rollback"
	QueryDone  Kind = "query-done" // a query issued OUTSIDE a transaction has been read completely (rows closed)
	StmtDone   Kind = "stmt-done"  // a statement INSIDE a transaction has completed (exec returned / rows closed); errors are ignored
)

// Event describes one interaction with the database.
type Event struct {
	Actor string // actor tag from the context that began the tx / issued the stmt
	Kind  Kind
	SQL   string
	InTx  bool
	Seq   int64 // global sequence number
}

// Hook is called before the interaction happens (for CommitDone: after). If it
// returns a non-nil error the interaction is not performed and the error is
// returned to the caller instead (for CommitDone the error is ignored). A hook
// may block: that is how gates are implemented.
type Hook func(ev Event) error

type actorKey struct{}

// WithActor tags a context; all statements issued under it carry the tag.
func WithActor(ctx context.Context, actor string) context.Context {
	return context.WithValue(ctx, actorKey{}, actor)
}

func ActorOf(ctx context.Context) string {
	if v, ok := ctx.Value(actorKey{}).(string); ok {
		return v
	}
	return ""
}

var (
	hookMu sync.RWMutex
	hook   Hook
	seq    int64
)

// SetHook installs (or with nil removes) the global hook.
func SetHook(h Hook) {
	hookMu.Lock()
	hook = h
	hookMu.Unlock()
}

func fire(actor string, kind Kind, q string, inTx bool) error {
	hookMu.RLock()
	h := hook
	hookMu.RUnlock()
	if h == nil {
		return nil
	}
	return h(Event{Actor: actor, Kind: kind, SQL: q, InTx: inTx, Seq: atomic.AddInt64(&seq, 1)})
}

type drv struct{ base *sqlite3.SQLiteDriver }

func (d *drv) Open(dsn string) (driver.Conn, error) {
	c, err := d.base.Open(dsn)
	if err != nil {
		return nil, err
	}
	return &conn{c: c.(*sqlite3.SQLiteConn)}, nil
}

type conn struct {
	c       *sqlite3.SQLiteConn
	txActor string
	inTx    bool
}

func (c *conn) actor(ctx context.Context) string {
	if a := ActorOf(ctx); a != "" {
		return a
	}
	return c.txActor
}

func (c *conn) Prepare(q string) (driver.Stmt, error) { return c.c.Prepare(q) }
func (c *conn) PrepareContext(ctx context.Context, q string) (driver.Stmt, error) {
	return c.c.PrepareContext(ctx, q)
}
func (c *conn) Close() error                           { return c.c.Close() }
func (c *conn) Begin() (driver.Tx, error)              { return c.BeginTx(context.Background(), driver.TxOptions{}) }
func (c *conn) Ping(ctx context.Context) error         { return c.c.Ping(ctx) }
func (c *conn) ResetSession(ctx context.Context) error { return nil }
func (c *conn) IsValid() bool                          { return true }

func (c *conn) BeginTx(ctx context.Context, opts driver.TxOptions) (driver.Tx, error) {
	a := ActorOf(ctx)
	if err := fire(a, Begin, "BEGIN", false); err != nil {
		return nil, err
	}
	// the sqlite3 driver rejects non-default isolation levels other than
	// the ones it knows; pass through unchanged.
	t, err := c.c.BeginTx(ctx, opts)
	if err != nil {
		return nil, err
	}
	c.txActor, c.inTx = a, true
	return &tx{t: t, c: c}, nil
}

func (c *conn) ExecContext(ctx context.Context, q string, args []driver.NamedValue) (driver.Result, error) {
	if err := fire(c.actor(ctx), Exec, q, c.inTx); err != nil {
		return nil, err
	}
	r, err := c.c.ExecContext(ctx, q, args)
	if err == nil && c.inTx {
		_ = fire(c.actor(ctx), StmtDone, q, true)
	}
	return r, err
}

func (c *conn) QueryContext(ctx context.Context, q string, args []driver.NamedValue) (driver.Rows, error) {
	if err := fire(c.actor(ctx), Query, q, c.inTx); err != nil {
		return nil, err
	}
	r, err := c.c.QueryContext(ctx, q, args)
	if err != nil {
		return r, err
	}
	return &rows{Rows: r, actor: c.actor(ctx), q: q, inTx: c.inTx}, nil
}

// rows reports the end of a non-transactional read (the point after which the reader acts on what
// it saw): a gate may park the reader there.
type rows struct {
	driver.Rows
	actor string
	q     string
	inTx  bool
	once  sync.Once
}

func (r *rows) Close() error {
	err := r.Rows.Close()
	r.once.Do(func() {
		if r.inTx {
			_ = fire(r.actor, StmtDone, r.q, true)
		} else {
			_ = fire(r.actor, QueryDone, r.q, false)
		}
	})
	return err
}

type tx struct {
	t driver.Tx
	c *conn
}

func (t *tx) Commit() error {
	a := t.c.txActor
	if err := fire(a, Commit, "COMMIT", true); err != nil {
		// the transaction must not stay open on the connection
		_ = t.t.Rollback()
		t.c.inTx, t.c.txActor = false, ""
		return err
	}
	err := t.t.Commit()
	t.c.inTx, t.c.txActor = false, ""
	if err == nil {
		_ = fire(a, CommitDone, "COMMIT", false)
	}
	return err
}

func (t *tx) Rollback() error {
	a := t.c.txActor
	_ = fire(a, Rollback, "ROLLBACK", true)
	err := t.t.Rollback()
	t.c.inTx, t.c.txActor = false, ""
	return err
}

var registerOnce sync.Once

// Register registers the wrapped driver under DriverName (idempotent).
func Register() {
	registerOnce.Do(func() {
		sql.Register(DriverName, &drv{base: &sqlite3.SQLiteDriver{}})
	})
}
