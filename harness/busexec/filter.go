package busexec

import (
	"fmt"
	"strconv"
	"strings"
)

// AST is the JSON form of a filter abstract syntax tree of spec/Filter.tla:
// {"op":"has","k":..} {"op":"eq","k":..,"v":..} {"op":"ne",..} {"op":"pre",..}
// {"op":"not","x":AST} {"op":"par","x":AST} {"op":"and","xs":[AST..]}
// {"op":"or","xs":[AST..]} {"op":"true"} (no filter).
type AST = map[string]any

func astOp(a AST) string { s, _ := a["op"].(string); return s }

func sub(a AST, k string) AST {
	switch v := a[k].(type) {
	case map[string]any:
		return v
	}
	return nil
}
func subs(a AST) []AST {
	var out []AST
	if l, ok := a["xs"].([]any); ok {
		for _, x := range l {
			if m, ok := x.(map[string]any); ok {
				out = append(out, m)
			}
		}
	}
	if l, ok := a["xs"].([]AST); ok {
		out = append(out, l...)
	}
	return out
}

// RenderOpts selects among equivalent concrete spellings.
type RenderOpts struct {
	Minus      bool // "-" instead of "NOT"
	QuoteNames bool // attributes:"name" instead of attributes:name
	Spaces     int  // 0 = canonical single spaces, 1 = extra, 2 = minimal
}

func identLike(s string) bool {
	if s == "" {
		return false
	}
	for i, r := range s {
		if !(r == '_' || (r >= 'a' && r <= 'z') || (r >= 'A' && r <= 'Z') || (i > 0 && r >= '0' && r <= '9')) {
			return false
		}
	}
	switch s {
	case "AND", "OR", "NOT", "attributes", "hasPrefix":
		return false
	}
	return true
}

func name(s string, o RenderOpts) string {
	if o.QuoteNames || !identLike(s) {
		return strconv.Quote(s)
	}
	return s
}

// Render renders an AST as a Condition of the grammar.
func Render(a AST, o RenderOpts) string {
	sp := " "
	if o.Spaces == 1 {
		sp = "  "
	}
	switch astOp(a) {
	case "and", "or":
		kw := "AND"
		if astOp(a) == "or" {
			kw = "OR"
		}
		var parts []string
		for _, x := range subs(a) {
			parts = append(parts, renderTerm(x, o))
		}
		return strings.Join(parts, sp+kw+sp)
	default:
		return renderTerm(a, o)
	}
}

func renderTerm(a AST, o RenderOpts) string {
	switch astOp(a) {
	case "not":
		neg := "NOT "
		if o.Minus {
			neg = "-"
		}
		x := sub(a, "x")
		if astOp(x) == "not" { // NOT NOT f is not a Term: parenthesise
			return neg + "(" + Render(x, o) + ")"
		}
		return neg + renderTerm(x, o)
	case "par":
		return "(" + Render(sub(a, "x"), o) + ")"
	case "and", "or":
		return "(" + Render(a, o) + ")"
	case "has":
		return "attributes:" + name(a["k"].(string), o)
	case "eq":
		return "attributes." + name(a["k"].(string), o) + eqs(o, "=") + strconv.Quote(a["v"].(string))
	case "ne":
		return "attributes." + name(a["k"].(string), o) + eqs(o, "!=") + strconv.Quote(a["v"].(string))
	case "pre":
		c := ", "
		if o.Spaces == 2 {
			c = ","
		}
		return "hasPrefix(attributes." + name(a["k"].(string), o) + c + strconv.Quote(a["v"].(string)) + ")"
	}
	panic(fmt.Sprintf("cannot render filter op %q", astOp(a)))
}

func eqs(o RenderOpts, op string) string {
	if o.Spaces == 2 {
		return op
	}
	return " " + op + " "
}
