package busexec

import (
	"context"
	"errors"
	"fmt"
	"io"
	"sync"
	"time"

	"github.com/google/uuid"

	"go.6river.tech/mmmbbb/actions"
	"go.6river.tech/mmmbbb/verifharness/sqlwrap"
)

// Operation "AckNack": ONE stream request that carries acknowledgements AND nacks (the shape the
// HTTP pusher produces, actions.MessageStreamRequest{Ack, Nack}): the streamer's reader must
// apply both in one transaction - the nacks reschedule by the backoff (or dead-letter), unlike
// the zero deadline of a gRPC client. The request is driven through actions.MessageStreamer.Go
// with a scripted connection; the streamer's own fetches are parked for the whole operation
// (hold: "GetSubscriptionMessages"), so the only transaction of the actor is the ack + nack one,
// and generic fault enumeration (C09) hits exactly its statements and its commit.

type ackNackConn struct {
	mu      sync.Mutex
	req     *actions.MessageStreamRequest
	n       int
	second  chan struct{} // closed when Receive is called the second time: the request was handled
	release chan struct{}
	closed  chan struct{} // closed by Close(): the streamer is shutting down (its context ended)
	once    sync.Once
}

func (c *ackNackConn) Close() error { c.once.Do(func() { close(c.closed) }); return nil }
func (c *ackNackConn) Send(context.Context, *actions.SubscriptionMessageDelivery) error {
	return errors.New("verif: the sender must stay parked during AckNack")
}
func (c *ackNackConn) Receive(ctx context.Context) (*actions.MessageStreamRequest, error) {
	c.mu.Lock()
	c.n++
	n := c.n
	c.mu.Unlock()
	if n == 1 {
		return c.req, nil
	}
	if n == 2 {
		close(c.second)
	}
	select {
	case <-ctx.Done():
		return nil, ctx.Err()
	case <-c.release:
		return nil, io.EOF
	}
}

func (e *Exec) doAckNack(ctx context.Context, st Step) error {
	post, err := e.W.Project(context.Background())
	if err != nil {
		return err
	}
	var subID uuid.UUID
	real := e.RealName("subscriptions", st.Sub)
	for _, s := range post.Subs {
		if s.Live && s.Name == st.Sub {
			subID = s.UUID
		}
	}
	ackU, ackKnown := e.resolveIDs(st.Ids)
	nackU, nackKnown := e.resolveIDs(st.Nids)
	bo, err := e.nackBackoffs(nackKnown)
	if err != nil {
		return err
	}
	if subID == uuid.Nil {
		// no such subscription: a stream cannot be opened on it (the gRPC layer answers NotFound)
		return e.emit(map[string]any{"op": "AckNack", "sub": st.Sub, "ids": [][3]int{}, "nids": [][3]int{}, "bo": []int{}, "t0": e.W.NowTU(), "t1": e.W.NowTU(), "code": "NotFound"})
	}
	var before string
	if e.FaultMode == "cancel" {
		if before, err = e.W.Dump(ctx); err != nil {
			return err
		}
	}
	InstallHook()
	h := newHold()
	h.park = []string{"GetSubscriptionMessages)"}
	h.allow = 1 << 20
	h.set(true)
	actor := sqlActorOf(ctx, e.actor)
	holds.Store(actor, h)
	defer holds.Delete(actor)
	conn := &ackNackConn{req: &actions.MessageStreamRequest{Ack: ackU, Nack: nackU}, second: make(chan struct{}), release: make(chan struct{}), closed: make(chan struct{})}
	ms := &actions.MessageStreamer{Client: e.W.Client, SubscriptionID: &subID, SubscriptionName: real, AutomaticNack: true}
	sctx, cancel := context.WithCancel(ctx)
	done := make(chan error, 1)
	t0 := e.W.NowTU()
	go func() { done <- ms.Go(sctx, conn) }()
	var opErr error
	select {
	case <-conn.second: // the request was handled without error; let everything wind down
		// (the parked sender's BEGIN is about to run with a cancelled context: it is not part of
		// the operation and must not count as one of its interactions)
		if v, ok := faulters.Load(actor); ok {
			f := v.(*faulter)
			f.mu.Lock()
			f.k = 0
			f.mu.Unlock()
		}
		cancel()
		h.set(false)
		close(conn.release)
		select {
		case <-done:
		case <-time.After(3 * time.Second):
			return fmt.Errorf("verif: streamer did not end")
		}
	case <-conn.closed: // the reader failed: the streamer cancels itself; let the parked sender go
		h.set(false)
		select {
		case opErr = <-done:
		case <-time.After(3 * time.Second):
			cancel()
			return fmt.Errorf("verif: streamer did not end after a failure")
		}
		if opErr == nil {
			opErr = fmt.Errorf("verif: streamer ended before handling the request")
		}
		cancel()
	case opErr = <-done:
		if opErr == nil {
			opErr = fmt.Errorf("verif: streamer ended before handling the request")
		}
		cancel()
		h.set(false)
	case <-time.After(5 * time.Second):
		cancel()
		h.set(false)
		return fmt.Errorf("verif: ack + nack request was not handled")
	}
	time.Sleep(10 * time.Millisecond)
	if opErr != nil && e.FaultMode == "cancel" {
		// a cancellation that arrives at the commit does not stop the commit; acknowledgements on a
		// stream have no reply of their own, so a request whose transaction went through IS the real
		// run (and must then be the complete effect - the event is judged by the normal clause)
		if after, derr := e.W.Dump(context.Background()); derr != nil {
			return derr
		} else if after != before {
			opErr = nil
		}
	}
	t1 := e.W.NowTU()
	return e.emit(map[string]any{"op": "AckNack", "sub": st.Sub, "ids": ackKnown, "nids": nackKnown, "bo": bo, "t0": t0, "t1": t1, "code": jobCode(opErr)})
}

// sqlActorOf: the actor name the driver wrapper will see for calls made with ctx.
func sqlActorOf(ctx context.Context, dflt string) string {
	if a := sqlwrap.ActorOf(ctx); a != "" {
		return a
	}
	return dflt
}

// nackBackoffs: the expected backoff (in TU) per named delivery, from the requested retry policy
// and the delivery's current attempt count (the harness's own transcription of the curve).
func (e *Exec) nackBackoffs(known [][3]int) ([]int, error) {
	post, err := e.W.Project(context.Background())
	if err != nil {
		return nil, err
	}
	bo := []int{}
	for _, d := range known {
		b := 0
		for _, pd := range post.Del {
			if pd.D == d {
				for _, ps := range post.Subs {
					if ps.ID == d[1] {
						b = e.boTU(ps.Real, pd.Att)
					}
				}
			}
		}
		bo = append(bo, b)
	}
	return bo, nil
}
