package busexec

import (
	"bytes"
	"context"
	"encoding/json"
	"errors"
	"runtime"
	"strings"
	"sync"
	"time"

	"github.com/google/uuid"

	"go.6river.tech/mmmbbb/actions"
	"go.6river.tech/mmmbbb/verifharness/sqlwrap"
	"go.6river.tech/mmmbbb/verifharness/world"
)

// Fault injection at the database/sql driver boundary (C09): the k-th
// interaction (BEGIN, statement or COMMIT) of one operation fails, or the
// request context is cancelled just before it.

var ErrInjected = errors.New("verif: injected storage failure")

type faulter struct {
	mu     sync.Mutex
	k      int    // 1-based index of the interaction to hit; 0 = disarmed
	n      int    // interactions seen so far
	mode   string // "fail" | "cancel"
	cancel context.CancelFunc
	fired  bool
	kind   sqlwrap.Kind
}

var faulters sync.Map // actor -> *faulter

var installFaultHook sync.Once

// InstallHook installs the executor's driver hook (fault injection + holds); idempotent.
func InstallHook() { installFaultHook.Do(func() { sqlwrap.SetHook(faultHook) }) }

// holds: actors (blocking pulls of the "blocked" scenario mode, stream sessions) whose further
// transactions are parked at BEGIN until released, so that the steps running meanwhile are
// observed before the actor's own next transaction. While holding, a BEGIN issued from one of the
// functions named in `pass` is let through as long as `allow` lasts (stream sessions: the reader's
// ack / modify-deadline transactions pass one at a time, the sender's fetches stay parked).
type hold struct {
	mu      sync.Mutex
	cond    *sync.Cond
	holding bool
	allow   int
	pass    []string      // substrings of function names on the BEGIN's call stack: let through (by allowance)
	park    []string      // substrings that identify the transactions to keep parked; if set, everything ELSE counts as "pass"
	ended   int           // transactions of the actor that have ended so far (commit done / rollback)
	watch   bool          // signal txDone when a transaction of the actor ends (commit done / rollback)
	txDone  chan struct{} // buffered
}

func newHold() *hold {
	h := &hold{txDone: make(chan struct{}, 16)}
	h.cond = sync.NewCond(&h.mu)
	return h
}

// awaitEnded waits until at least n transactions of the actor have ended (or the time is up).
func (h *hold) awaitEnded(n int, max time.Duration) {
	deadline := time.Now().Add(max)
	for time.Now().Before(deadline) {
		h.mu.Lock()
		ok := h.ended >= n
		h.mu.Unlock()
		if ok {
			return
		}
		time.Sleep(5 * time.Millisecond)
	}
}

func (h *hold) set(holding bool) {
	h.mu.Lock()
	h.holding = holding
	h.mu.Unlock()
	h.cond.Broadcast()
}

// letOne lets the next matching BEGIN through and arms the end-of-transaction signal.
func (h *hold) letOne() {
	h.mu.Lock()
	h.allow, h.watch = 1, true
	for len(h.txDone) > 0 {
		<-h.txDone
	}
	h.mu.Unlock()
	h.cond.Broadcast()
}

var holds sync.Map // actor -> *hold

func stackHas(names []string) bool {
	if len(names) == 0 {
		return false
	}
	pcs := make([]uintptr, 64)
	n := runtime.Callers(3, pcs)
	frames := runtime.CallersFrames(pcs[:n])
	for {
		f, more := frames.Next()
		for _, nm := range names {
			if strings.Contains(f.Function, nm) {
				return true
			}
		}
		if !more {
			return false
		}
	}
}

func holdHook(ev sqlwrap.Event) {
	if ev.Kind != sqlwrap.Begin && ev.Kind != sqlwrap.CommitDone && ev.Kind != sqlwrap.Rollback {
		return
	}
	v, ok := holds.Load(ev.Actor)
	if !ok {
		return
	}
	h := v.(*hold)
	if ev.Kind != sqlwrap.Begin {
		h.mu.Lock()
		h.ended++
		if h.watch {
			h.watch = false
			select {
			case h.txDone <- struct{}{}:
			default:
			}
		}
		h.mu.Unlock()
		return
	}
	h.mu.Lock()
	if h.holding {
		matches := stackHas(h.pass)
		if !matches && len(h.park) > 0 {
			matches = !stackHas(h.park)
		}
		for h.holding {
			if matches && h.allow > 0 {
				h.allow--
				break
			}
			h.cond.Wait()
		}
	}
	h.mu.Unlock()
}

func faultHook(ev sqlwrap.Event) error {
	holdHook(ev)
	switch ev.Kind {
	case sqlwrap.Begin, sqlwrap.Exec, sqlwrap.Query, sqlwrap.Commit:
	case sqlwrap.StmtDone:
		// only the cancellation driver uses the points BETWEEN statements ("cancelled after the last
		// statement, before the commit")
	default:
		return nil
	}
	v, ok := faulters.Load(ev.Actor)
	if !ok {
		return nil
	}
	f := v.(*faulter)
	f.mu.Lock()
	defer f.mu.Unlock()
	if f.k == 0 || (ev.Kind == sqlwrap.StmtDone && f.mode != "cancel") {
		return nil
	}
	f.n++
	if f.n != f.k {
		return nil
	}
	f.fired, f.kind = true, ev.Kind
	if f.mode == "cancel" {
		// cancel the request where the code runs: the gRPC handler's context, or
		// (operations invoked directly) the caller's context. The interaction
		// itself proceeds; the code notices the cancellation at its next step.
		if !world.CancelServerRequest(ev.Actor) && f.cancel != nil {
			f.cancel()
		}
		if ev.Kind == sqlwrap.StmtDone {
			// give database/sql the time to roll the transaction back on its own, so that the code's
			// next step (another statement, or the commit) meets a finished transaction
			f.mu.Unlock()
			time.Sleep(15 * time.Millisecond)
			f.mu.Lock()
		}
		return nil
	}
	return ErrInjected
}

// mutating reports whether a scenario op is subject to fault injection.
func mutating(op string) bool {
	switch op {
	case "Tick", "Get", "List":
		return false
	}
	return true
}

type awaiters struct {
	pub  map[uuid.UUID]actions.PublishNotifier
	subM map[uuid.UUID]subAw
	topM map[uuid.UUID]topAw
}
type subAw struct {
	name string
	c    actions.SubModifiedNotifier
}
type topAw struct {
	name string
	c    actions.TopicModifiedNotifier
}

// armAwaiters registers, for every existing subscription and topic row, the
// awaiters a waiting consumer would hold (the registries are process-wide but
// keyed by row id, so parallel worlds do not interfere).
func (e *Exec) armAwaiters(ctx context.Context) (*awaiters, error) {
	st, err := e.W.Project(ctx)
	if err != nil {
		return nil, err
	}
	a := &awaiters{pub: map[uuid.UUID]actions.PublishNotifier{}, subM: map[uuid.UUID]subAw{}, topM: map[uuid.UUID]topAw{}}
	for _, s := range st.Subs {
		a.pub[s.UUID] = actions.PublishAwaiter(s.UUID)
		a.subM[s.UUID] = subAw{s.Real, actions.SubModifiedAwaiter(s.UUID, s.Real)}
	}
	for _, t := range st.Topics {
		a.topM[t.UUID] = topAw{t.Real, actions.TopicModifiedAwaiter(t.UUID, t.Real)}
	}
	return a, nil
}

// woken returns which awaiters fired, and cancels all of them.
func (a *awaiters) woken() []string {
	out := []string{}
	for id, c := range a.pub {
		select {
		case <-c:
			out = append(out, "publish:"+id.String()[:8])
		default:
		}
		actions.CancelPublishAwaiter(id, c)
	}
	for id, s := range a.subM {
		select {
		case <-s.c:
			out = append(out, "subscription-modified:"+id.String()[:8])
		default:
		}
		actions.CancelSubModifiedAwaiter(id, s.name, s.c)
	}
	for id, t := range a.topM {
		select {
		case <-t.c:
			out = append(out, "topic-modified:"+id.String()[:8])
		default:
		}
		actions.CancelTopicModifiedAwaiter(id, t.name, t.c)
	}
	return out
}

// faultedAttempts runs the operation of step st with the k-th database
// interaction failing (or cancelling the request) for k = 1, 2, ... until an
// attempt completes without reaching k. One "Failed" event is recorded per
// attempt. It returns after the first attempt that is NOT hit (which has then
// executed the operation for real and emitted its normal event).
func (e *Exec) faultedAttempts(ctx context.Context, st Step) error {
	InstallHook()
	f := &faulter{mode: e.FaultMode}
	faulters.Store(e.actor, f)
	defer faulters.Delete(e.actor)
	for k := 1; k < 200; k++ {
		before, err := e.W.Dump(ctx)
		if err != nil {
			return err
		}
		aw, err := e.armAwaiters(ctx)
		if err != nil {
			return err
		}
		octx, cancel := context.WithCancel(ctx)
		f.mu.Lock()
		f.k, f.n, f.fired, f.cancel = k, 0, false, cancel
		f.mu.Unlock()
		e.dry = true
		mark := e.Out.Len()
		err = e.step1(octx, st)
		e.dry = false
		cancel()
		f.mu.Lock()
		fired, kind := f.fired, f.kind
		f.k = 0
		f.mu.Unlock()
		if err != nil {
			return err
		}
		woken := aw.woken()
		if !fired {
			// the operation ran to completion untouched: this was the real run;
			// its event was buffered by the dry run: keep it
			return nil
		}
		ev := e.lastEv
		if e.FaultMode == "cancel" && (ev["code"] == "OK") {
			// the cancellation arrived after the point of no return (typically at
			// the commit): the operation completed and says so. That is the real run - and it
			// must then BE the complete effect: the event is marked, so that any contract clause
			// it violates is also reported as a C09 violation (answered OK, but not done)
			tail := append([]byte{}, e.Out.Bytes()[mark:]...)
			lines := bytes.Split(bytes.TrimRight(tail, "\n"), []byte("\n"))
			if n := len(lines); n > 0 {
				var last map[string]any
				if json.Unmarshal(lines[n-1], &last) == nil {
					last["afterCancel"] = string(kind)
					if b, err := json.Marshal(last); err == nil {
						lines[n-1] = b
						e.Out.Truncate(mark)
						e.Out.Write(bytes.Join(lines, []byte("\n")))
						e.Out.WriteByte('\n')
					}
				}
			}
			return nil
		}
		// discard the buffered normal event of the faulted attempt
		e.Out.Truncate(mark)
		e.idx = e.lastIdx
		after, err := e.W.Dump(ctx)
		if err != nil {
			return err
		}
		same := before == after
		if !same && (st.Op == "Pull") {
			// a pull refreshes the subscription's expiry in its own first
			// transaction by design (C14): that alone is not a partial effect
			same = dumpEqualIgnoring(before, after, "expires_at")
		}
		if err := e.emit(map[string]any{"op": "Failed", "of": st.Op, "k": k, "kind": string(kind), "mode": e.FaultMode,
			"code": ev["code"], "dumpSame": same, "woken": woken, "t0": ev["t0"], "t1": ev["t1"]}); err != nil {
			return err
		}
		e.Faulted++
	}
	return errors.New("fault loop did not terminate")
}

// dumpEqualIgnoring compares two table dumps ignoring one column.
func dumpEqualIgnoring(a, b, col string) bool {
	return stripCol(a, col) == stripCol(b, col)
}

func stripCol(d, col string) string {
	out := []byte{}
	i := 0
	key := "|" + col + "="
	for i < len(d) {
		if i+len(key) <= len(d) && d[i:i+len(key)] == key {
			j := i + len(key)
			for j < len(d) && d[j] != '|' {
				j++
			}
			i = j
			continue
		}
		out = append(out, d[i])
		i++
	}
	return string(out)
}
