package busexec

import (
	"context"
	"fmt"
	"time"

	"github.com/google/uuid"

	"go.6river.tech/mmmbbb/grpc/pubsubpb"
	"go.6river.tech/mmmbbb/verifharness/sqlwrap"
	"go.6river.tech/mmmbbb/verifharness/world"
)

// Operation "StreamAN": a StreamingPull session that acknowledges (ids) and nacks (nids, modify
// deadline 0) in ONE stream request. On the real server such a session is three observable steps,
// recorded as three events so that each is judged by the contract of its kind:
//
//	Pull      what the stream's sender hands out when the stream opens (everything deliverable)
//	StreamAN  the ack + nack transaction of the stream's reader (one transaction: all or nothing)
//	Pull      what the sender hands out after that transaction woke it (ordered successors, ...)
//
// The sender's transactions after the ack / nack are parked at BEGIN (hold) until the StreamAN
// event has been recorded, so the three states are observed separately. Under fault injection
// (C09) only the ack + nack transaction is hit: the k-th interaction of the stream's actor after
// the request was sent fails / cancels the stream; the stream then ends with an error, a "Failed"
// event is recorded and a fresh stream is opened for k+1.

type streamSess struct {
	cancel context.CancelFunc
	stream pubsubpb.Subscriber_StreamingPullClient
	msgs   chan *pubsubpb.ReceivedMessage
	errc   chan error
	actor  string
	h      *hold
}

func (e *Exec) openStream(ctx context.Context, real string) (*streamSess, error) {
	InstallHook()
	actor := fmt.Sprintf("%s-stream-%d", e.actor, e.idx)
	h := &hold{release: make(chan struct{}), txDone: make(chan struct{}, 16)}
	holds.Store(actor, h)
	sctx, cancel := context.WithCancel(world.ActorCtx(ctx, actor))
	stream, err := e.W.Sub.StreamingPull(sctx)
	if err != nil {
		cancel()
		holds.Delete(actor)
		return nil, err
	}
	s := &streamSess{cancel: cancel, stream: stream, msgs: make(chan *pubsubpb.ReceivedMessage, 4096), errc: make(chan error, 1), actor: actor, h: h}
	if err := stream.Send(&pubsubpb.StreamingPullRequest{Subscription: real, StreamAckDeadlineSeconds: 10,
		MaxOutstandingMessages: 1000, MaxOutstandingBytes: 1 << 30}); err != nil {
		s.close()
		return nil, err
	}
	go func() {
		for {
			r, err := stream.Recv()
			if err != nil {
				s.errc <- err
				return
			}
			for _, m := range r.ReceivedMessages {
				s.msgs <- m
			}
		}
	}()
	return s, nil
}

func (s *streamSess) close() {
	s.h.mu.Lock()
	if s.h.holding {
		s.h.holding = false
		close(s.h.release)
	}
	s.h.mu.Unlock()
	s.cancel()
	holds.Delete(s.actor)
}

// quiet collects what the stream sends until nothing has arrived for `gap` (at most `max`), or
// the stream ends (then the error is returned).
func (s *streamSess) quiet(gap, max time.Duration) ([]*pubsubpb.ReceivedMessage, error) {
	var got []*pubsubpb.ReceivedMessage
	deadline := time.After(max)
	for {
		select {
		case m := <-s.msgs:
			got = append(got, m)
		case err := <-s.errc:
			s.errc <- err
			return got, err
		case <-time.After(gap):
			return got, nil
		case <-deadline:
			return got, nil
		}
	}
}

func (e *Exec) nackBackoffs(known [][3]int) ([]int, error) {
	post, err := e.W.Project(context.Background())
	if err != nil {
		return nil, err
	}
	bo := []int{}
	for _, d := range known {
		b := 0
		for _, pd := range post.Del {
			if pd.D == d {
				for _, ps := range post.Subs {
					if ps.ID == d[1] {
						b = e.boTU(ps.Real, pd.Att)
					}
				}
			}
		}
		bo = append(bo, b)
	}
	return bo, nil
}

func (e *Exec) doStreamAN(ctx context.Context, st Step) error {
	real := e.RealName("subscriptions", st.Sub)
	for k := 1; k < 200; k++ {
		if _, err := e.W.Project(context.Background()); err != nil {
			return err
		}
		// phase 1: open, let the sender hand out what is deliverable
		t0 := e.W.NowTU()
		s, err := e.openStream(ctx, real)
		if err != nil {
			return e.emit(map[string]any{"op": "StreamAN", "sub": st.Sub, "ids": [][3]int{}, "nids": [][3]int{}, "bo": []int{}, "t0": t0, "t1": e.W.NowTU(), "code": codeOf(err)})
		}
		got, serr := s.quiet(90*time.Millisecond, 2*time.Second)
		if serr != nil {
			// the stream was refused (unknown subscription, ...): that is the whole operation
			s.close()
			return e.emit(map[string]any{"op": "StreamAN", "sub": st.Sub, "ids": [][3]int{}, "nids": [][3]int{}, "bo": []int{}, "t0": t0, "t1": e.W.NowTU(), "code": codeOf(serr)})
		}
		if err := e.emitPull(st.Sub, real, 1000, &pubsubpb.PullResponse{ReceivedMessages: got}, nil, t0, e.W.NowTU()); err != nil {
			s.close()
			return err
		}
		// phase 2: the ack + nack request; every later transaction of the stream is parked
		ackU, ackKnown := e.resolveIDs(st.Ids)
		nackU, nackKnown := e.resolveIDs(st.Nids)
		bo, err := e.nackBackoffs(nackKnown)
		if err != nil {
			s.close()
			return err
		}
		var before string
		var aw *awaiters
		var f *faulter
		if e.FaultMode != "" {
			if before, err = e.W.Dump(ctx); err != nil {
				s.close()
				return err
			}
			if aw, err = e.armAwaiters(ctx); err != nil {
				s.close()
				return err
			}
			f = &faulter{mode: e.FaultMode, k: k}
			faulters.Store(s.actor, f)
		}
		s.h.mu.Lock()
		s.h.holding, s.h.allow, s.h.watch = true, 1, true
		s.h.mu.Unlock()
		t0b := e.W.NowTU()
		req := &pubsubpb.StreamingPullRequest{AckIds: strs(ackU), ModifyDeadlineAckIds: strs(nackU), ModifyDeadlineSeconds: make([]int32, len(nackU))}
		if err := s.stream.Send(req); err != nil {
			s.close()
			return err
		}
		var opErr error
		select {
		case <-s.h.txDone:
		case opErr = <-s.errc:
			s.errc <- opErr
		case <-time.After(3 * time.Second):
			s.close()
			return fmt.Errorf("StreamAN: the stream's ack transaction was not observed")
		}
		fired := false
		var kind sqlwrap.Kind
		if f != nil {
			f.mu.Lock()
			fired, kind = f.fired, f.kind
			f.k = 0
			f.mu.Unlock()
			faulters.Delete(s.actor)
			if fired && opErr == nil {
				// the interaction was hit: the stream must end with an error; give it the time
				select {
				case opErr = <-s.errc:
					s.errc <- opErr
				case <-time.After(700 * time.Millisecond):
				}
			}
		}
		if _, err := e.W.Project(context.Background()); err != nil {
			s.close()
			return err
		}
		t1b := e.W.NowTU()
		if fired {
			// a faulted attempt: the stream is gone (or must be)
			s.close()
			time.Sleep(30 * time.Millisecond)
			woken := aw.woken()
			after, err := e.W.Dump(ctx)
			if err != nil {
				return err
			}
			if e.FaultMode == "cancel" && before != after {
				// the cancellation arrived after the point of no return (the commit): the
				// transaction completed; acknowledgements on a stream have no reply of their own,
				// so this is the real run and must be the COMPLETE effect
				return e.emit(map[string]any{"op": "StreamAN", "sub": st.Sub, "ids": ackKnown, "nids": nackKnown, "bo": bo,
					"t0": t0b, "t1": e.W.NowTU(), "code": "OK"})
			}
			if err := e.emit(map[string]any{"op": "Failed", "of": "StreamAN", "k": k, "kind": string(kind), "mode": e.FaultMode,
				"code": codeOf(opErr), "dumpSame": before == after, "woken": woken, "t0": t0b, "t1": e.W.NowTU()}); err != nil {
				return err
			}
			e.Faulted++
			continue
		}
		if aw != nil {
			aw.woken()
		}
		if err := e.emit(map[string]any{"op": "StreamAN", "sub": st.Sub, "ids": ackKnown, "nids": nackKnown, "bo": bo,
			"t0": t0b, "t1": t1b, "code": codeOf(opErr)}); err != nil {
			s.close()
			return err
		}
		if opErr != nil {
			s.close()
			return nil
		}
		// phase 3: release the sender, collect what the transaction made deliverable
		s.h.mu.Lock()
		s.h.holding = false
		close(s.h.release)
		s.h.release = make(chan struct{})
		s.h.mu.Unlock()
		t0c := e.W.NowTU()
		got, _ = s.quiet(90*time.Millisecond, 2*time.Second)
		s.close()
		time.Sleep(20 * time.Millisecond)
		return e.emitPull(st.Sub, real, 1000, &pubsubpb.PullResponse{ReceivedMessages: got}, nil, t0c, e.W.NowTU())
	}
	return fmt.Errorf("StreamAN fault loop did not terminate")
}

var _ = uuid.Nil
