package busexec

import (
	"context"
	"fmt"
	"time"

	"go.6river.tech/mmmbbb/grpc/pubsubpb"
	"go.6river.tech/mmmbbb/verifharness/sqlwrap"
	"go.6river.tech/mmmbbb/verifharness/world"
)

// Operation "StreamAN": a StreamingPull session whose second request acknowledges (ids) and sets
// a zero deadline (nids - how a gRPC client nacks). On the real server such a session is up to
// four observable steps, recorded as four events so that each is judged by the contract clause of
// its kind (the stream's reader runs the acknowledgements and the deadline change as two
// transactions, actions.MessageStreamer.doAcksNacks and doDelay):
//
//	Pull      what the stream's sender hands out when the stream opens (everything deliverable)
//	Ack       the reader's acknowledgement transaction            (if ids is not empty)
//	ModAck 0  the reader's modify-deadline transaction            (if nids is not empty)
//	Pull      what the sender hands out after those transactions woke it (ordered successors,
//	          the nacked messages again)
//
// The states in between are made observable by parking the stream's transactions at BEGIN
// (hold): the sender's fetches stay parked until the end, the reader's transactions pass one at
// a time. Under fault injection (C09) the acknowledgement and the deadline change are sent as
// two requests and each is hit on its own: the k-th database interaction of that transaction
// fails / cancels the stream; the stream must then end with an error and the tables must be
// unchanged; a "Failed" event is recorded and a fresh stream is opened for k+1.

type streamSess struct {
	t0     int // virtual time at which the stream was opened (its one refresh of the subscription's expiry)
	cancel context.CancelFunc
	stream pubsubpb.Subscriber_StreamingPullClient
	msgs   chan *pubsubpb.ReceivedMessage
	errc   chan error
	actor  string
	h      *hold
}

func (e *Exec) openStream(ctx context.Context, real string, fcb int) (*streamSess, error) {
	InstallHook()
	if fcb <= 0 {
		fcb = 1 << 30
	}
	e.nstream++
	actor := fmt.Sprintf("%s-stream-%d", e.actor, e.nstream)
	h := newHold()
	// the reader's transactions are let through one at a time, the sender's fetches stay parked;
	// either set of names identifies them (robust against renaming one of the two sides)
	h.pass = []string{"MessageStreamer).doAcksNacks", "MessageStreamer).doDelay"}
	h.park = []string{"GetSubscriptionMessages)"}
	holds.Store(actor, h)
	sctx, cancel := context.WithCancel(world.ActorCtx(ctx, actor))
	stream, err := e.W.Sub.StreamingPull(sctx)
	if err != nil {
		cancel()
		holds.Delete(actor)
		return nil, err
	}
	s := &streamSess{t0: e.W.NowTU(), cancel: cancel, stream: stream, msgs: make(chan *pubsubpb.ReceivedMessage, 4096), errc: make(chan error, 1), actor: actor, h: h}
	if err := stream.Send(&pubsubpb.StreamingPullRequest{Subscription: real, StreamAckDeadlineSeconds: 10,
		MaxOutstandingMessages: 1000, MaxOutstandingBytes: int64(fcb)}); err != nil {
		s.close()
		return nil, err
	}
	go func() {
		for {
			r, err := stream.Recv()
			if err != nil {
				s.errc <- err
				return
			}
			for _, m := range r.ReceivedMessages {
				s.msgs <- m
			}
		}
	}()
	return s, nil
}

func (s *streamSess) close() {
	s.h.set(false)
	s.cancel()
	holds.Delete(s.actor)
}

// quiet collects what the stream sends until nothing has arrived for `gap` (at most `max`), or
// the stream ends (then the error is returned).
func (s *streamSess) quiet(gap, max time.Duration) ([]*pubsubpb.ReceivedMessage, error) {
	var got []*pubsubpb.ReceivedMessage
	deadline := time.After(max)
	for {
		select {
		case m := <-s.msgs:
			got = append(got, m)
		case err := <-s.errc:
			s.errc <- err
			return got, err
		case <-time.After(gap):
			return got, nil
		case <-deadline:
			return got, nil
		}
	}
}

// openAndDrain opens a stream and records what its sender hands out as a Pull event. ok = false:
// the stream was refused (recorded as a failed Pull), the operation is over.
func (e *Exec) openAndDrain(ctx context.Context, sub, real string, fcb int) (s *streamSess, ok bool, err error) {
	if _, err := e.W.Project(context.Background()); err != nil {
		return nil, false, err
	}
	t0 := e.W.NowTU()
	s, oerr := e.openStream(ctx, real, fcb)
	var got []*pubsubpb.ReceivedMessage
	if oerr == nil {
		got, oerr = s.quiet(90*time.Millisecond, 2*time.Second)
	}
	if oerr != nil {
		if s != nil {
			s.close()
		}
		return nil, false, e.emitPull(sub, real, 1000, nil, oerr, t0, e.W.NowTU())
	}
	// from here on the sender's fetches are parked; a fetch that had already begun (it refreshes the
	// subscription's expiry in a transaction of its own) gets the time to finish before the state
	// is read and the event's interval is closed
	s.h.set(true)
	time.Sleep(50 * time.Millisecond)
	return s, true, e.emitPull(sub, real, 1000, &pubsubpb.PullResponse{ReceivedMessages: got}, nil, t0, e.W.NowTU())
}

// readerTx sends one request whose handling is ONE transaction of the stream's reader and waits
// for that transaction to end (or the stream to fail).
func (s *streamSess) readerTx(req *pubsubpb.StreamingPullRequest) (error, error) {
	s.h.letOne()
	if err := s.stream.Send(req); err != nil {
		return nil, err
	}
	select {
	case <-s.h.txDone:
		return nil, nil
	case err := <-s.errc:
		s.errc <- err
		return err, nil
	case <-time.After(3 * time.Second):
		return nil, fmt.Errorf("stream: the reader's transaction was not observed")
	}
}

func (e *Exec) doStreamAN(ctx context.Context, st Step) error {
	real := e.RealName("subscriptions", st.Sub)
	s, ok, err := e.openAndDrain(ctx, st.Sub, real, st.Fcb)
	if err != nil || !ok {
		return err
	}
	type part struct {
		op  string
		ids [][3]int
		req func() (*pubsubpb.StreamingPullRequest, [][3]int)
	}
	parts := []part{}
	if len(st.Ids) > 0 {
		parts = append(parts, part{"Ack", st.Ids, func() (*pubsubpb.StreamingPullRequest, [][3]int) {
			us, known := e.resolveIDs(st.Ids)
			return &pubsubpb.StreamingPullRequest{AckIds: strs(us)}, known
		}})
	}
	if len(st.Nids) > 0 {
		parts = append(parts, part{"ModAck", st.Nids, func() (*pubsubpb.StreamingPullRequest, [][3]int) {
			us, known := e.resolveIDs(st.Nids)
			return &pubsubpb.StreamingPullRequest{ModifyDeadlineAckIds: strs(us), ModifyDeadlineSeconds: make([]int32, len(us))}, known
		}})
	}
	if e.FaultMode == "" && len(parts) == 2 {
		// one request carrying both: the reader runs the two transactions back to back
		if _, err := e.W.Project(context.Background()); err != nil {
			s.close()
			return err
		}
		ra, ackKnown := parts[0].req()
		rn, nackKnown := parts[1].req()
		ra.ModifyDeadlineAckIds, ra.ModifyDeadlineSeconds = rn.ModifyDeadlineAckIds, rn.ModifyDeadlineSeconds
		t0 := e.W.NowTU()
		serr, err := s.readerTx(ra)
		if err == nil && serr == nil {
			err = e.emit(map[string]any{"op": "Ack", "sub": st.Sub, "ids": ackKnown, "t0": t0, "t1": e.W.NowTU(), "code": "OK", "via": "stream"})
		}
		if err == nil && serr == nil {
			// (t0 stays the instant the request was sent: the reader may have fixed "now" for the
			// second transaction before it was parked at its BEGIN)
			s.h.letOne()
			select {
			case <-s.h.txDone:
				err = e.emit(map[string]any{"op": "ModAck", "sub": st.Sub, "ids": nackKnown, "secs": 0, "t0": t0, "t1": e.W.NowTU(), "code": "OK", "via": "stream"})
			case serr = <-s.errc:
				s.errc <- serr
			case <-time.After(3 * time.Second):
				err = fmt.Errorf("stream: the reader's second transaction was not observed")
			}
		}
		if err != nil {
			s.close()
			return err
		}
		if serr != nil {
			s.close()
			return fmt.Errorf("stream ended unexpectedly: %v", serr)
		}
		return e.finishStream(s, st.Sub, real)
	}
	for _, p := range parts {
		for k := 1; ; k++ {
			if k >= 200 {
				s.close()
				return fmt.Errorf("stream fault loop did not terminate")
			}
			if s == nil {
				if s, ok, err = e.openAndDrain(ctx, st.Sub, real, st.Fcb); err != nil || !ok {
					return err
				}
			}
			if _, err := e.W.Project(context.Background()); err != nil {
				s.close()
				return err
			}
			req, known := p.req()
			var before string
			var aw *awaiters
			var f *faulter
			if e.FaultMode != "" {
				if before, err = e.W.Dump(ctx); err != nil {
					s.close()
					return err
				}
				if aw, err = e.armAwaiters(ctx); err != nil {
					s.close()
					return err
				}
				f = &faulter{mode: e.FaultMode, k: k}
				faulters.Store(s.actor, f)
			}
			t0 := e.W.NowTU()
			serr, err := s.readerTx(req)
			if err != nil {
				s.close()
				return err
			}
			fired := false
			var kind sqlwrap.Kind
			if f != nil {
				f.mu.Lock()
				fired, kind = f.fired, f.kind
				f.k = 0
				f.mu.Unlock()
				faulters.Delete(s.actor)
				if fired && serr == nil {
					// the interaction was hit: the stream must end with an error; give it the time.
					// (A sender fetch that is parked at its BEGIN would keep the streamer from shutting
					// down: let it go - the streamer's context is cancelled by the reader's failure,
					// so it cannot take effect any more.)
					time.Sleep(30 * time.Millisecond)
					s.h.set(false)
					select {
					case serr = <-s.errc:
						s.errc <- serr
					case <-time.After(4 * time.Second):
					}
				}
			}
			ev := map[string]any{"op": p.op, "sub": st.Sub, "ids": known, "t0": t0, "code": "OK", "via": "stream"}
			if p.op == "ModAck" {
				ev["secs"] = 0
			}
			if fired {
				// a faulted attempt: the stream is gone (or must be)
				s.close()
				s = nil
				time.Sleep(30 * time.Millisecond)
				woken := aw.woken()
				after, err := e.W.Dump(ctx)
				if err != nil {
					return err
				}
				if e.FaultMode == "cancel" && before != after {
					// the cancellation arrived after the point of no return (the commit): the
					// transaction completed; acknowledgements on a stream have no reply of
					// their own, so this is the real run and must be the complete effect
					ev["t1"] = e.W.NowTU()
					if err := e.emit(ev); err != nil {
						return err
					}
					break
				}
				if err := e.emit(map[string]any{"op": "Failed", "of": p.op, "k": k, "kind": string(kind), "mode": e.FaultMode,
					"code": codeOf(serr), "dumpSame": before == after, "woken": woken, "t0": t0, "t1": e.W.NowTU()}); err != nil {
					return err
				}
				e.Faulted++
				continue
			}
			if aw != nil {
				aw.woken()
			}
			if serr != nil {
				s.close()
				return fmt.Errorf("stream ended unexpectedly: %v", serr)
			}
			ev["t1"] = e.W.NowTU()
			if err := e.emit(ev); err != nil {
				s.close()
				return err
			}
			break
		}
	}
	if s == nil {
		return nil
	}
	return e.finishStream(s, st.Sub, real)
}

// finishStream releases the sender, records what it hands out now, and ends the session.
func (e *Exec) finishStream(s *streamSess, sub, real string) error {
	// the event's interval starts when the stream was opened: that is when this "pull" refreshed
	// the subscription's expiry (the clauses that use t0 as a lower bound only get weaker)
	t0 := s.t0
	pre, err := e.W.Project(context.Background())
	if err != nil {
		s.close()
		return err
	}
	s.h.set(false)
	got, _ := s.quiet(90*time.Millisecond, 2*time.Second)
	s.close()
	time.Sleep(20 * time.Millisecond)
	if len(got) == 0 {
		// with messages outstanding on the stream a byte budget may legitimately keep everything
		// back (C11): nothing was handed out and nothing retired = nothing happened
		post, err := e.W.Project(context.Background())
		if err != nil {
			return err
		}
		if !retiredBetween(pre, post) {
			// (the fetch may still have refreshed the subscription's expiry: a pull that ended empty-handed)
			return e.emit(map[string]any{"op": "PullTimeout", "sub": sub, "t0": t0, "t1": e.W.NowTU(), "code": "DeadlineExceeded", "via": "stream"})
		}
	}
	return e.emitPull(sub, real, 1000, &pubsubpb.PullResponse{ReceivedMessages: got}, nil, t0, e.W.NowTU())
}
