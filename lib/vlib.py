"""Shared machinery of the checks: scratch handling, harness build, TLC runs
(exhaustive, scenario generation, trace validation), verdicts, evidence."""
import json, os, re, shutil, subprocess, sys, tempfile, time, hashlib, concurrent.futures

VERIF = os.path.dirname(os.path.dirname(os.path.abspath(__file__)))
SPEC = os.path.join(VERIF, "spec")
HARNESS = os.path.join(VERIF, "harness")
REPO = os.environ.get("VERIF_REPO", "/repo")
JAVA_CP = "/opt/veriftools/tla/tla2tools.jar:/opt/veriftools/tla/CommunityModules-deps.jar"
NCPU = os.cpu_count() or 8


class ToolError(Exception):
    """Anything that prevents a verdict (exit 2, never a violation)."""


class Ctx:
    def __init__(self, prop, tier, seed):
        self.prop, self.tier, self.seed = prop, tier, seed
        base = os.environ.get("VERIF_SCRATCH") or tempfile.gettempdir()
        self.scratch = tempfile.mkdtemp(prefix="verif-%s-" % prop, dir=base)
        self.t0 = time.time()
        self.bin = os.path.join(self.scratch, "bin")
        self.notes = []

    def cleanup(self):
        shutil.rmtree(self.scratch, ignore_errors=True)

    def sub(self, name):
        p = os.path.join(self.scratch, name)
        os.makedirs(p, exist_ok=True)
        return p


def go_env():
    env = dict(os.environ)
    env["GOFLAGS"] = "-mod=mod"
    env["GOPROXY"] = "off"
    env.pop("GOSUMDB", None)
    env.pop("GOTOOLCHAIN", None)
    return env


def build_harness(ctx, cmds):
    """Build harness commands from /repo's CURRENT working tree, hooks on."""
    os.makedirs(ctx.bin, exist_ok=True)
    # a private copy of the harness module so that concurrent checks and a
    # different VERIF_REPO do not step on each other
    hdir = os.path.join(ctx.scratch, "harness")
    if os.path.exists(hdir):   # a second build in the same check (another command): reuse the private copy
        cmds = [c for c in cmds if not os.path.exists(os.path.join(ctx.bin, c))]
    else:
        shutil.copytree(HARNESS, hdir, ignore=shutil.ignore_patterns("bin", "go.sum"))
    gomod = open(os.path.join(hdir, "go.mod")).read().replace("=> /repo", "=> " + REPO)
    open(os.path.join(hdir, "go.mod"), "w").write(gomod)
    shutil.copy(os.path.join(REPO, "go.sum"), os.path.join(hdir, "go.sum"))
    for c in cmds:
        r = subprocess.run(["go", "build", "-tags", "verif", "-o", os.path.join(ctx.bin, c), "./cmd/" + c],
                           cwd=hdir, env=go_env(), capture_output=True, text=True)
        if r.returncode != 0:
            raise ToolError("harness build failed (%s):\n%s" % (c, r.stdout + r.stderr))
    return hdir


def _spec_copy(ctx, name):
    d = os.path.join(ctx.scratch, name)
    if os.path.exists(d):
        shutil.rmtree(d)
    shutil.copytree(SPEC, d)
    return d


def _java(heap):
    return ["java", "-XX:+UseParallelGC", "-Xss64m", "-Xmx%s" % heap, "-cp", JAVA_CP, "tlc2.TLC"]


STATS_RE = re.compile(r"(\d[\d,]*) states generated, (\d[\d,]*) distinct states found")


def tlc_mc(ctx, module, timeout=600, workers=None, heap="12g", extra=()):
    """Exhaustive model checking of spec/<module>.tla with <module>.cfg."""
    d = _spec_copy(ctx, "mc_" + module)
    cmd = _java(heap) + ["-workers", str(workers or NCPU), "-metadir", os.path.join(d, "md"), *extra, module + ".tla"]
    t = time.time()
    try:
        r = subprocess.run(cmd, cwd=d, capture_output=True, text=True, timeout=timeout)
    except subprocess.TimeoutExpired:
        raise ToolError("TLC timed out on %s after %ds" % (module, timeout))
    out = r.stdout + r.stderr
    m = STATS_RE.findall(out)
    res = {"module": module, "wall_s": round(time.time() - t, 1), "ok": False, "states": 0, "distinct": 0}
    if m:
        res["states"] = int(m[-1][0].replace(",", ""))
        res["distinct"] = int(m[-1][1].replace(",", ""))
    if "Model checking completed. No error has been found." in out:
        res["ok"] = True
    else:
        res["output_tail"] = out[-4000:]
    shutil.rmtree(d, ignore_errors=True)
    return res


def tlc_gen(ctx, module, num, depth, seed, timeout=600):
    """Scenario generation: -simulate of a Gen_* configuration. Returns a list
    of step lists (the request histories TLC printed)."""
    d = _spec_copy(ctx, "gen_" + module)
    workers = min(NCPU, max(1, num))
    per = (num + workers - 1) // workers
    cmd = _java("6g") + ["-workers", str(workers), "-simulate", "num=%d" % per, "-depth", str(depth),
                         "-seed", str(seed), "-metadir", os.path.join(d, "md"), module + ".tla"]
    try:
        r = subprocess.run(cmd, cwd=d, capture_output=True, text=True, timeout=timeout)
    except subprocess.TimeoutExpired:
        raise ToolError("TLC generation timed out on %s" % module)
    scen = []
    for line in r.stdout.splitlines():
        if line.startswith('<<"SCENARIO", '):
            scen.append(json.loads(json.loads(line[len('<<"SCENARIO", '):-2])))
    if "Error:" in r.stdout and not scen:
        raise ToolError("TLC generation failed on %s:\n%s" % (module, r.stdout[-3000:]))
    shutil.rmtree(d, ignore_errors=True)
    # deterministic order independent of worker interleaving
    scen.sort(key=lambda s: json.dumps(s, sort_keys=True))
    return scen[:num] if len(scen) > num else scen


def tlc_gen_bfs(ctx, module, timeout=1200):
    """Scenario generation by exhaustive enumeration: TLC explores breadth-first
    every history of the configured length (BFS_* configurations, GenBFS = TRUE)
    and prints each one."""
    d = _spec_copy(ctx, "bfs_" + module)
    cmd = _java("8g") + ["-workers", str(min(8, NCPU)), "-metadir", os.path.join(d, "md"), module + ".tla"]
    try:
        r = subprocess.run(cmd, cwd=d, capture_output=True, text=True, timeout=timeout)
    except subprocess.TimeoutExpired:
        raise ToolError("TLC enumeration timed out on %s" % module)
    if "Model checking completed. No error has been found." not in r.stdout:
        raise ToolError("TLC enumeration failed on %s:\n%s" % (module, r.stdout[-3000:]))
    scen = []
    for line in r.stdout.splitlines():
        if line.startswith('<<"SCENARIO", '):
            scen.append(json.loads(json.loads(line[len('<<"SCENARIO", '):-2])))
    shutil.rmtree(d, ignore_errors=True)
    scen.sort(key=lambda s: json.dumps(s, sort_keys=True))
    return scen


def tlc_impl_cex(ctx, module, timeout=1500, per_clause=3):
    """Refinement check of a mechanism-level configuration (BusImpl) against the
    contract. Returns (stats, counterexamples): each counterexample is a request
    history (list of events) that the MECHANISM MODEL performs and the contract
    rejects, with the violated clauses; at most per_clause shortest ones per
    distinct clause set. They are design-level only until replayed on the code."""
    d = _spec_copy(ctx, "impl_" + module)
    cmd = _java("12g") + ["-workers", str(min(10, NCPU)), "-metadir", os.path.join(d, "md"), module + ".tla"]
    try:
        r = subprocess.run(cmd, cwd=d, capture_output=True, text=True, timeout=timeout)
    except subprocess.TimeoutExpired:
        raise ToolError("TLC timed out on %s" % module)
    if "Model checking completed. No error has been found." not in r.stdout:
        raise ToolError("TLC failed on %s:\n%s" % (module, r.stdout[-3000:]))
    m = STATS_RE.findall(r.stdout)
    stats = {"module": module, "states": int(m[-1][0].replace(",", "")), "distinct": int(m[-1][1].replace(",", ""))}
    groups = {}
    total = 0
    dec = json.JSONDecoder()
    for line in r.stdout.splitlines():
        if not line.startswith('<<"CEX", '):
            continue
        body = line[len('<<"CEX", '):-2]
        a, i = dec.raw_decode(body)
        b, _ = dec.raw_decode(body[i:].lstrip(", "))
        hist, viols = json.loads(a), tuple(sorted(json.loads(b)))
        total += 1
        groups.setdefault(viols, []).append(hist)
    out = []
    for viols, hs in sorted(groups.items()):
        hs.sort(key=lambda h: (len(h), json.dumps(h, sort_keys=True)))
        for h in hs[:per_clause]:
            out.append({"viols": list(viols), "hist": h})
    stats["counterexamples"] = total
    stats["clause_sets"] = [list(k) for k in sorted(groups)]
    shutil.rmtree(d, ignore_errors=True)
    return stats, out


def write_scenarios(path, scens):
    with open(path, "w") as f:
        for s in scens:
            f.write(json.dumps(s) + "\n")


def run_busexec(ctx, scen_path, out_path, workers=None, fault=None):
    summ = out_path + ".summary.json"
    db = ctx.sub("db")
    cmd = [os.path.join(ctx.bin, "busexec"), "-scenarios", scen_path, "-out", out_path, "-summary", summ,
           "-workers", str(workers or max(2, NCPU - 2)), "-seed", str(ctx.seed), "-scratch", db]
    if fault:
        cmd += ["-fault", fault]
    r = subprocess.run(cmd, capture_output=True, text=True, timeout=3600)
    if r.returncode != 0 or not os.path.exists(summ):
        raise ToolError("busexec failed:\n" + (r.stdout + r.stderr)[-3000:])
    res = json.load(open(summ))
    bad = [x for x in res if x["status"] != "ok"]
    if len(bad) > max(3, len(res) // 20):
        raise ToolError("busexec: %d of %d scenarios could not be executed: %s" % (len(bad), len(res), bad[:3]))
    return res


def _validate_chunk(args):
    ctx_scratch, idx, lines, runmod = args
    d = os.path.join(ctx_scratch, "val_%d" % idx)
    if os.path.exists(d):
        shutil.rmtree(d)
    shutil.copytree(SPEC, d)
    with open(os.path.join(d, "trace.ndjson"), "w") as f:
        f.writelines(lines)
    cmd = _java("3g") + ["-workers", "1", "-metadir", os.path.join(d, "md"), runmod + ".tla"]
    try:
        r = subprocess.run(cmd, cwd=d, capture_output=True, text=True, timeout=1800)
    except subprocess.TimeoutExpired:
        return {"err": "trace validation timed out"}
    out = r.stdout
    viols, consumed, traces = [], None, 0
    for line in out.splitlines():
        if not line.startswith('"['):
            continue
        try:
            rec = json.loads(json.loads(line))
        except Exception:
            continue
        if rec[0] == "VIOL":
            viols.append({"tr": rec[1], "i": rec[2], "op": rec[3], "clause": rec[4], "bad": rec[5],
                          "detail": rec[6] if len(rec) > 6 else ""})
        elif rec[0] == "CONSUMED":
            consumed = rec[1]
        elif rec[0] == "TRACE":
            traces += 1
    if consumed != len(lines):
        errs = "\n".join(l for l in out.splitlines() if l.startswith("Error:") or "ttempted" in l or "domain" in l)[:1500]
        return {"err": "trace validation did not consume the trace (%s of %d):\n%s\n...\n%s" % (consumed, len(lines), errs, (out + r.stderr)[-1500:])}
    shutil.rmtree(d, ignore_errors=True)
    return {"viols": viols, "traces": traces, "steps": len(lines)}


def validate(ctx, trace_path, runmod="BusTraceRun", chunks=None):
    """Validate recorded traces against the contract with TLC. Traces are split
    at Reset boundaries into chunks, one JVM per chunk."""
    lines = open(trace_path).readlines()
    # group by trace
    groups, cur = [], []
    for ln in lines:
        if '"op":"Reset"' in ln and cur:
            groups.append(cur)
            cur = []
        cur.append(ln)
    if cur:
        groups.append(cur)
    n = chunks or min(max(1, NCPU // 2), max(1, len(groups) // 40 + 1))
    buckets = [[] for _ in range(n)]
    for i, g in enumerate(groups):
        buckets[i % n].extend(g)
    buckets = [b for b in buckets if b]
    viols, traces, steps = [], 0, 0
    with concurrent.futures.ThreadPoolExecutor(max_workers=len(buckets) or 1) as ex:
        for res in ex.map(_validate_chunk, [(ctx.scratch, i, b, runmod) for i, b in enumerate(buckets)]):
            if "err" in res:
                raise ToolError(res["err"])
            viols += res["viols"]
            traces += res["traces"]
            steps += res["steps"]
    return {"viols": viols, "traces": traces, "steps": steps}


# ---------------------------------------------------------------- findings

def load_known():
    """known-findings.txt: 'finding: property=Cxx sig=<regex over clause|detail> <text>' and
    'fixed: property=Cxx <commit> <text>' (fixed entries suppress nothing)."""
    out = []
    p = os.path.join(VERIF, "known-findings.txt")
    if not os.path.exists(p):
        return out
    for ln in open(p):
        ln = ln.strip()
        m = re.match(r"finding:\s+property=(C\d+)\s+sig=(\S+)\s+(.*)", ln)
        if m:
            out.append({"prop": m.group(1), "sig": m.group(2), "text": m.group(3)})
    return out


def signature(v):
    return "%s|%s" % (v["clause"], v.get("detail", ""))


def split_known(prop, viols):
    known = [k for k in load_known() if k["prop"] == prop]
    new, hits = [], {}
    for v in viols:
        sig = signature(v)
        k = next((k for k in known if re.fullmatch(k["sig"], sig)), None)
        if k:
            hits.setdefault(k["sig"], {"k": k, "n": 0, "ex": v})["n"] += 1
        else:
            new.append(v)
    return new, hits


def write_evidence(ctx, level, coverage, assumptions, violations):
    ev = {"property_id": ctx.prop, "tier": ctx.tier, "seed": ctx.seed, "level": level,
          "coverage": coverage, "assumptions": assumptions, "wall_s": round(time.time() - ctx.t0, 1),
          "violations": violations}
    # runs against another tree than /repo (VERIF_REPO: seeded-change evaluation) must not
    # overwrite the evidence of the registered checks
    d = os.path.join(VERIF, "evidence") if REPO == "/repo" else os.path.join(tempfile.gettempdir(), "verif-evidence-other")
    os.makedirs(d, exist_ok=True)
    with open(os.path.join(d, ctx.prop + ".json"), "w") as f:
        json.dump(ev, f, indent=1)
    return ev


def save_replay(ctx, name, obj):
    d = os.path.join(VERIF, "replays")
    os.makedirs(d, exist_ok=True)
    p = os.path.join(d, "%s-%s.json" % (ctx.prop, name))
    with open(p, "w") as f:
        json.dump(obj, f)
    return p


def opseq_hash(steps):
    return hashlib.sha1(json.dumps([[s.get("op"), s.get("sub"), s.get("name"), s.get("max"), s.get("ids"), s.get("secs"), s.get("d")] for s in steps]).encode()).hexdigest()
