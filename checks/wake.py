"""C10 - no lost wake-up.  spec/Wake.tla is model checked exhaustively (safety
NoLostWake, liveness Delivered under weak fairness, and two non-vacuity
variants that MUST fail), then every interleaving of the small configurations
(TLC BFS over histories) is replayed on the real code with transaction-boundary
gates (harness/cmd/wakereplay)."""
import json, os, subprocess, sys, time, random, collections, concurrent.futures
sys.path.insert(0, os.path.join(os.path.dirname(os.path.abspath(__file__)), "..", "lib"))
import vlib
from vlib import ToolError

QUICK = [("Gen_Wake_1x1", None), ("Gen_Wake_1x1ab", None), ("Gen_Wake_1x2", None), ("Gen_Wake_2x1", 250), ("Gen_Wake_2bx1", 250)]
THOROUGH = [("Gen_Wake_1x1", None), ("Gen_Wake_1x1ab", None), ("Gen_Wake_1x2", None), ("Gen_Wake_2x1", None), ("Gen_Wake_2bx1", None), ("Gen_Wake_2x2", 6000)]
KINDS = ["publish", "modack0", "seek", "ackpred", "dlforward", "seeksnap", "dlpred"]


def gen_schedules(ctx, module):
    d = vlib._spec_copy(ctx, "gen_" + module)
    cmd = vlib._java("4g") + ["-workers", "4", "-metadir", os.path.join(d, "md"), module + ".tla"]
    r = subprocess.run(cmd, cwd=d, capture_output=True, text=True, timeout=1200)
    out = []
    for line in r.stdout.splitlines():
        if line.startswith('<<"SCHEDULE", '):
            out.append(json.loads(json.loads(line[len('<<"SCHEDULE", '):-2])))
    m = vlib.STATS_RE.findall(r.stdout)
    if not out or "Model checking completed" not in r.stdout:
        raise ToolError("schedule generation failed for %s:\n%s" % (module, r.stdout[-2000:]))
    out.sort(key=lambda s: json.dumps(s, sort_keys=True))
    return out, int(m[-1][1].replace(",", ""))


def run(prop, tier, seed, replay=None):
    ctx = vlib.Ctx(prop, tier, seed)
    try:
        return _run(ctx, replay)
    except ToolError as e:
        print("TOOL-ERROR property=%s %s" % (prop, str(e)[:4000]))
        return 2
    finally:
        if os.environ.get("VERIF_KEEP") != "1":
            ctx.cleanup()


def _run(ctx, replay):
    prop, tier, seed = ctx.prop, ctx.tier, ctx.seed
    vlib.build_harness(ctx, ["wakereplay"])
    rng = random.Random(seed)
    timer_replay = False
    states = transitions = 0
    mc = []
    scheds = []
    if replay:
        obj = json.load(open(replay))
        scheds = [] if obj["schedule"].get("timer") else [obj["schedule"]]
        timer_replay = bool(obj["schedule"].get("timer"))
    else:
        # design level: safety on the larger configuration, liveness, and the two
        # variants that must be rejected (otherwise the invariant is vacuous)
        for mod in (["MC_Wake_quick"] if tier == "quick" else ["MC_Wake"]) + ["MC_Wake_live"]:
            r = vlib.tlc_mc(ctx, mod, timeout=900)
            if not r["ok"]:
                raise ToolError("specification check failed: %s\n%s" % (mod, r.get("output_tail", "")))
            mc.append(r)
            states += r["distinct"]
            transitions += r["states"]
        for mod in ["MC_Wake_early", "MC_Wake_late"]:
            r = vlib.tlc_mc(ctx, mod, timeout=300)
            if r["ok"] or "Invariant NoLostWake is violated" not in r.get("output_tail", ""):
                raise ToolError("non-vacuity variant %s was not rejected by TLC" % mod)
            mc.append(r)
        for mod, cap in (QUICK if tier == "quick" else THOROUGH):
            ss, n = gen_schedules(ctx, mod)
            states += n
            transitions += n
            if cap and len(ss) > cap:
                ss = rng.sample(ss, cap)
            small = mod in ("Gen_Wake_1x1", "Gen_Wake_1x1ab")
            for i, s in enumerate(ss):
                if small:
                    # the small configurations are replayed once per compatible writer kind
                    for k in KINDS:
                        t = sorted(s["targets"]["x1"])
                        allsubs = sorted(set(t) | set(s["wsub"].values()))
                        if (k in ("publish", "dlforward") and t != allsubs) or (k in ("seek", "ackpred", "seeksnap", "dlpred") and len(t) != 1):
                            continue
                        s2 = dict(s)
                        s2["kinds"] = {"x1": k}
                        s2["id"] = "%s-%d-%s" % (mod, i, k)
                        scheds.append(s2)
                else:
                    s["id"] = "%s-%d" % (mod, i)
                    scheds.append(s)
    sp = os.path.join(ctx.scratch, "schedules.ndjson")
    vlib.write_scenarios(sp, scheds)
    nsh = min(vlib.NCPU - 2, max(1, len(scheds) // 20 + 1))
    db = ctx.sub("db")

    def shard(i):
        out = os.path.join(ctx.scratch, "res_%d.ndjson" % i)
        r = subprocess.run([os.path.join(ctx.bin, "wakereplay"), "-schedules", sp, "-out", out, "-seed", str(seed),
                            "-scratch", db, "-shard", "%d/%d" % (i, nsh)], capture_output=True, text=True, timeout=3000)
        if r.returncode != 0:
            raise ToolError("wakereplay failed:\n" + (r.stdout + r.stderr)[-3000:])
        return [json.loads(l) for l in open(out)]

    results = []
    with concurrent.futures.ThreadPoolExecutor(max_workers=nsh) as ex:
        for rs in ex.map(shard, range(nsh)):
            results += rs
    if len(results) != len(scheds):
        raise ToolError("wakereplay returned %d results for %d schedules" % (len(results), len(scheds)))
    # timer sessions: deliverability that no writer announces (the retention of an ordered predecessor
    # runs out while a pull waits) - real time, a few seconds, run side by side
    if not replay or timer_replay:
        tout = os.path.join(ctx.scratch, "timers.ndjson")
        r = subprocess.run([os.path.join(ctx.bin, "wakereplay"), "-timers", "2" if tier == "quick" else "6", "-out", tout, "-scratch", db],
                           capture_output=True, text=True, timeout=300)
        if r.returncode != 0:
            raise ToolError("wakereplay -timers failed:\n" + (r.stdout + r.stderr)[-2000:])
        tres = [json.loads(l) for l in open(tout)]
        for t in tres:
            by_sched = {"id": t["id"], "steps": [], "kinds": t["kinds"], "timer": True}
            scheds.append(by_sched)
        results += tres
    by_id = {s["id"]: s for s in scheds}
    errs = [r for r in results if r["status"] in ("error", "drift")]
    if len(errs) > max(2, len(results) // 50):
        raise ToolError("%d of %d schedules could not be replayed faithfully, e.g. %s" % (len(errs), len(results), errs[:3]))
    viols = [{"clause": r["clause"], "detail": r.get("detail", ""), "id": r["id"], "msg": r.get("msg", ""), "kinds": r["kinds"]}
             for r in results if r["status"] == "violation"]
    new, hits = vlib.split_known(prop, viols)
    for h in hits.values():
        print("KNOWN-FINDING: property=%s %s (%d schedules)" % (prop, h["k"]["text"], h["n"]))
    rc = 0
    for v in new[:10]:
        s = dict(by_id[v["id"]])
        s["kinds"] = v["kinds"]
        path = vlib.save_replay(ctx, v["id"], {"schedule": s, "seed": seed, "violation": v})
        print("VIOLATION property=%s replay=%s clause=%s writers=%s %s" % (prop, path, v["clause"], v["detail"], v["msg"]))
        rc = 1
    raced = set()
    for s in scheds:
        st = s["steps"]
        # non-trivial: some writer step falls strictly between two steps of one waiter
        for i, a in enumerate(st):
            if a["a"] == "x" and any(b["a"] == "w" for b in st[:i]) and any(b["a"] == "w" for b in st[i + 1:]):
                raced.add(json.dumps([st, s.get("kinds")], sort_keys=True))
                break
    kinds = collections.Counter("+".join(sorted(r["kinds"].values())) for r in results)
    cov = {"states": states, "transitions": transitions, "traces_validated_against_impl": len([r for r in results if r["status"] in ("ok", "violation")]),
           "samples": [scheds[0], scheds[-1]], "evaluations": len(results), "distinct_nontrivial": len(raced),
           "rule": "one evaluation = one complete schedule (interleaving of waiter and writer steps at transaction boundaries) replayed on the real code; non-trivial = a writer step lies between two steps of a waiter; distinct = distinct (schedule, writer kinds)",
           "exhaustive": tier == "thorough" or False, "writer_kinds": dict(kinds), "unfaithful_replays": len(errs),
           "mc_runs": [{k: r[k] for k in ("module", "states", "distinct", "wall_s", "ok")} for r in mc]}
    vlib.write_evidence(ctx, "model_checking", cov,
                        ["SQLite: transactions are atomic w.r.t. each other, so schedules are at transaction boundaries",
                         "per-subscription notification loops (publish, ack) are replayed as one step; their finer interleavings are covered at design level only",
                         "promptness = the waiter returns within 2 s of the end of the schedule (MaxWait 30 s, retry timers >= 20 s)",
                         "PostgreSQL LISTEN/NOTIFY path (pubNotifyHooks) is not bound"], len(new))
    if rc == 0:
        print("OK property=%s tier=%s seed=%d mc_states=%d schedules=%d raced=%d kinds=%s wall=%.0fs" % (
            prop, tier, seed, states, len(results), len(raced), dict(kinds), time.time() - ctx.t0))
    return rc
