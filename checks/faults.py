"""C18  "An injected fault fires exactly its count, only on matching calls".

Specification: spec/Faults.tla (faults.Set.Check step by step: Match / Dec /
Decide / Finish per caller, Prune, Add, Current()).

 (1) TLC checks the model exhaustively (MC_Faults*, safety + termination-state
     exactness + liveness).
 (2) Binding A: TLC enumerates / samples complete schedules (Gen_Faults*); the
     gate driver `faultgate -mode gate` replays every schedule through the
     faults.VerifPoint hook on the real code and compares every step, every
     intermediate Current(), the per-caller outcomes and the final listing with
     the model's prediction.
 (3) Binding B: un-gated stress (16-64 goroutines, counts up to 1000, overlapping
     descriptions, Adds racing with calls); the recorded black-box traces are
     validated by TLC: FaultsTrace.tla (hidden-step inference against Faults.tla,
     small traces and all gate traces) and FaultsAgg.tla (counting clauses on the
     aggregates, large traces).
 (4) Binding C: the same through the production gRPC interceptor chain and the
     HTTP fault controller (faultgate -mode grpc), validated by FaultsAgg.tla.

A VIOLATION is reported only for behaviour of the real code that TLC rejects
(black-box, at the level of the property).  A schedule on which the code
leaves the path the model predicts but whose observable behaviour TLC accepts
is a model divergence (the step model no longer describes the implementation,
e.g. another rule for choosing among several matching descriptions, which the
documentation leaves undefined): it is reported as a NOTE and counted in the
evidence (model_divergences), never as a violation; such a schedule still runs
to completion un-gated and its trace is validated black-box like a stress trace.
"""
import collections, concurrent.futures, hashlib, json, os, shutil, subprocess, sys, time
sys.path.insert(0, os.path.join(os.path.dirname(os.path.abspath(__file__)), "..", "lib"))
import vlib
from vlib import ToolError

PROPS = {"C18"}

TIERS = {
    "quick": dict(
        mc=["MC_Faults", "MC_FaultsAny", "MC_FaultsRT", "MC_FaultsLate", "MC_FaultsLive"],
        paths=["Gen_Faults2", "Gen_FaultsE"], sim=[("Gen_Faults3", 1500, 90), ("Gen_Faults4", 600, 110)],
        stress_runs=150, stress_maxcalls=3000, small_runs=400, grpc_runs=8, hidden3=40),
    "thorough": dict(
        mc=["MC_Faults", "MC_FaultsAny", "MC_FaultsRT", "MC_FaultsLate", "MC_FaultsLive", "MC_Faults_thorough"],
        paths=["Gen_Faults2", "Gen_FaultsE", "Gen_Faults3x"], sim=[("Gen_Faults3", 20000, 90), ("Gen_Faults4", 20000, 110)],
        stress_runs=1200, stress_maxcalls=6000, small_runs=4000, grpc_runs=40, hidden3=1000),
}

ASSUMPTIONS = [
    "the atomic decrement (atomic.AddInt64) is one step of the model; the gate driver cannot interleave inside it, "
    "only the un-gated stress runs on 16 cores exercise its atomicity",
    "the gate points are the three faults.VerifPoint calls of the `verif` build; prune runs un-gated in its own goroutine "
    "(its completion is awaited through the fault_injection_expired metric, softly)",
    "every call starts after or while the descriptions are added; exactness is relative to the descriptions whose Add "
    "returned before the call was invoked",
    "stamps of the black-box traces come from one atomic counter in the harness (a total order consistent with real time)",
    "gRPC binding: unary RPCs Publish/GetTopic/ListTopics only; the parameters a request offers are transcribed from docs/faults.md",
]


# ------------------------------------------------------------------ TLC helpers

def tlc_paths(ctx, module, timeout=1800):
    """Exhaustive enumeration of the behaviours of a Gen_* module (history
    variable): returns every schedule TLC printed."""
    d = vlib._spec_copy(ctx, "paths_" + module)
    cmd = vlib._java("12g") + ["-workers", str(max(2, vlib.NCPU // 2)), "-metadir", os.path.join(d, "md"), module + ".tla"]
    try:
        r = subprocess.run(cmd, cwd=d, capture_output=True, text=True, timeout=timeout)
    except subprocess.TimeoutExpired:
        raise ToolError("TLC schedule enumeration timed out on %s" % module)
    out = r.stdout
    if "Model checking completed. No error has been found." not in out:
        raise ToolError("TLC schedule enumeration failed on %s:\n%s" % (module, (out + r.stderr)[-3000:]))
    scen = []
    for line in out.splitlines():
        if line.startswith('<<"SCENARIO", '):
            scen.append(json.loads(json.loads(line[len('<<"SCENARIO", '):-2])))
    m = vlib.STATS_RE.findall(out)
    shutil.rmtree(d, ignore_errors=True)
    scen.sort(key=lambda s: json.dumps(s, sort_keys=True))
    return scen, (int(m[-1][1].replace(",", "")) if m else 0)


def split_traces(path):
    groups, cur = [], []
    for ln in open(path):
        if ln.startswith('{"op":"Reset"') and cur:
            groups.append(cur)
            cur = []
        cur.append(ln)
    if cur:
        groups.append(cur)
    return groups


def _tlc_hidden(d, lines, module, timeout):
    with open(os.path.join(d, "trace.ndjson"), "w") as f:
        f.writelines(lines)
    md = os.path.join(d, "md")
    shutil.rmtree(md, ignore_errors=True)
    cmd = vlib._java("3g") + ["-workers", "1", "-metadir", md, module + ".tla"]
    try:
        r = subprocess.run(cmd, cwd=d, capture_output=True, text=True, timeout=timeout)
    except subprocess.TimeoutExpired:
        raise ToolError("hidden-step trace validation timed out (%d lines)" % len(lines))
    out = r.stdout
    traces, consumed, at = [], None, 0
    for line in out.splitlines():
        if not line.startswith('"['):
            continue
        try:
            rec = json.loads(json.loads(line))
        except Exception:
            continue
        if rec[0] == "TRACE":
            if not traces or traces[-1] != rec[1]:
                traces.append(rec[1])
        elif rec[0] == "CONSUMED":
            consumed = rec[1]
        elif rec[0] == "AT":
            at = max(at, rec[1])
    if consumed != len(lines) and "Model checking completed. No error has been found." not in out:
        raise ToolError("hidden-step trace validation: TLC error:\n%s" % (out + r.stderr)[-3000:])
    return traces, consumed == len(lines), at


def _hidden_chunk(args):
    """Validate a list of traces (each a list of lines) with FaultsTrace.tla.
    Returns (number accepted, [rejected: {tr, line, event}])."""
    scratch, idx, groups = args
    d = os.path.join(scratch, "hid_%d" % idx)
    if os.path.exists(d):
        shutil.rmtree(d)
    shutil.copytree(vlib.SPEC, d)
    accepted, rejected = 0, []
    rest = groups
    while rest:
        lines = [ln for g in rest for ln in g]
        traces, ok, _ = _tlc_hidden(d, lines, "FaultsTraceRun", 3000)
        if ok:
            accepted += len(rest)
            break
        if not traces:
            raise ToolError("hidden-step trace validation consumed nothing")
        # the last trace TLC entered is the one that is not a behaviour of the model
        k = len(traces) - 1
        bad = rest[k]
        accepted += k
        _, _, at = _tlc_hidden(d, bad, "FaultsTraceDiag", 600)
        ev = json.loads(bad[at]) if at < len(bad) else {}
        rejected.append({"tr": json.loads(bad[0])["tr"], "line": at, "event": ev})
        rest = rest[k + 1:]
        if len(rejected) >= 25:
            break
    shutil.rmtree(d, ignore_errors=True)
    return accepted, rejected


def validate_hidden(ctx, path, select=None):
    """Hidden-step validation (FaultsTrace.tla) of the traces in `path` whose id
    is in `select` (all if None)."""
    groups = split_traces(path)
    if select is not None:
        groups = [g for g in groups if json.loads(g[0])["tr"] in select]
    if not groups:
        return {"traces": 0, "accepted": 0, "rejected": [], "lines": 0}
    n = max(1, min(vlib.NCPU - 2, len(groups) // 50 + 1))
    buckets = [[] for _ in range(n)]
    for i, g in enumerate(groups):
        buckets[i % n].append(g)
    acc, rej = 0, []
    with concurrent.futures.ThreadPoolExecutor(max_workers=n) as ex:
        for a, r in ex.map(_hidden_chunk, [(ctx.scratch, i, b) for i, b in enumerate(buckets) if b]):
            acc += a
            rej += r
    return {"traces": acc + len(rej), "accepted": acc, "rejected": rej, "lines": sum(len(g) for g in groups)}


def validate_agg(ctx, path):
    return vlib.validate(ctx, path, runmod="FaultsAggRun")


def detail_str(d):
    """Signature detail of a TLC violation record: the reason, without the
    run-specific description tag."""
    if isinstance(d, dict):
        return ",".join("%s=%s" % (k, d[k]) for k in sorted(d) if k != "d") or "-"
    return str(d)


def tag_of(d):
    return (" description=%s" % d["d"]) if isinstance(d, dict) and "d" in d else ""


# ------------------------------------------------------------------ harness

def run_faultgate(ctx, args, name, timeout=3600):
    out = os.path.join(ctx.scratch, name + ".results.ndjson")
    tr = os.path.join(ctx.scratch, name + ".traces.ndjson")
    cmd = [os.path.join(ctx.bin, "faultgate")] + args + ["-out", out, "-traces", tr]
    try:
        r = subprocess.run(cmd, capture_output=True, text=True, timeout=timeout)
    except subprocess.TimeoutExpired:
        raise ToolError("faultgate %s timed out" % name)
    if r.returncode != 0 or not os.path.exists(out):
        raise ToolError("faultgate %s failed:\n%s" % (name, (r.stdout + r.stderr)[-3000:]))
    res = [json.loads(l) for l in open(out) if l.strip()]
    return res, tr


def sched_hash(s):
    key = [s["descs"], s["calls"], [[h.get("c"), h.get("s"), h.get("d"), h.get("st")] for h in s["hist"]]]
    return hashlib.sha1(json.dumps(key, sort_keys=True).encode()).hexdigest()


def races(s):
    """Rule for a non-trivial schedule: two different callers raced on one
    description: while caller a is between its Match that returned d and its
    decrement of d, another caller b matches or decrements the same d."""
    open_ = {}
    for h in s["hist"]:
        c, st, d = h.get("c"), h.get("s"), h.get("d")
        if st == "Match" and d:
            if any(dd == d and a != c for a, dd in open_.items()):
                return True
            open_[c] = d
        elif st == "Dec":
            if any(dd == d and a != c for a, dd in open_.items()):
                return True
            open_.pop(c, None)
    return False


def features(s):
    steps = [h.get("s") for h in s["hist"]]
    return {
        "retry": any(h.get("st") == "Retry" for h in s["hist"]),
        "prune": "Prune" in steps, "add": "Add" in steps,
        "overlap": len({d["op"] for d in s["descs"]}) < len(s["descs"]),
    }


# ------------------------------------------------------------------ the check

def run(prop, tier, seed, replay=None):
    ctx = vlib.Ctx(prop, tier, seed)
    try:
        return _run(ctx, replay)
    except ToolError as e:
        print("TOOL-ERROR property=%s %s" % (prop, str(e)[:4000]))
        return 2
    finally:
        if os.environ.get("VERIF_KEEP") != "1":
            ctx.cleanup()


def _mc(ctx, mods):
    runs = []
    for mod in mods:
        r = vlib.tlc_mc(ctx, mod, timeout=3000 if mod.endswith("_thorough") else 900, heap="16g")
        if not r["ok"]:
            raise ToolError("specification check failed for %s (a fault of the specification, not of the code):\n%s" % (mod, r.get("output_tail", "")))
        runs.append(r)
    return runs


def _run(ctx, replay):
    prop, tier, seed = ctx.prop, ctx.tier, ctx.seed
    T = TIERS.get(tier, TIERS["quick"])
    vlib.build_harness(ctx, ["faultgate"])
    rp = json.load(open(replay)) if replay else None

    # (1) model checking, in the background (TLC is multi-threaded; the bindings are mostly harness work)
    pool = concurrent.futures.ThreadPoolExecutor(max_workers=1)
    mc_future = pool.submit(_mc, ctx, ["MC_Faults"] if rp else T["mc"])

    phases = []
    t_ph = [time.time()]

    def phase(name):
        phases.append((name, round(time.time() - t_ph[0], 1)))
        t_ph[0] = time.time()

    viols = []       # {clause, detail, tr, kind, info}
    replay_of = {}   # trace id -> replay object
    cov = {}
    samples = []
    validated = 0
    evaluations = 0

    # (2) Binding A: schedules
    scheds = []
    gen_states = 0
    if rp is None:
        for mod in T["paths"]:
            ss, st = tlc_paths(ctx, mod)
            gen_states += st
            for i, s in enumerate(ss):
                s["id"] = "%s-%d" % (mod, i)
            scheds += ss
        for gi, (mod, n, depth) in enumerate(T["sim"]):
            ss = vlib.tlc_gen(ctx, mod, n, depth, seed * 7919 + gi)
            for i, s in enumerate(ss):
                s["id"] = "%s-%d-%d" % (mod, seed, i)
            scheds += ss
        seen, uniq = set(), []
        for s in scheds:
            h = sched_hash(s)
            if h not in seen:
                seen.add(h)
                uniq.append(s)
        scheds = uniq
        if not scheds:
            raise ToolError("no schedules generated")
    elif rp["kind"] == "gate":
        scheds = [rp["schedule"]]
    phase("generate")
    div = []
    gate_res = []
    if scheds:
        sp = os.path.join(ctx.scratch, "schedules.ndjson")
        vlib.write_scenarios(sp, scheds)
        gate_res, gtr = run_faultgate(ctx, ["-mode", "gate", "-in", sp, "-workers", str(max(2, vlib.NCPU // 2))], "gate")
        by_id = {s["id"]: s for s in scheds}
        for s in scheds:
            replay_of[s["id"]] = {"kind": "gate", "schedule": s}
        # hidden-step inference is exponential in the number of calls in flight: all
        # traces of <= 2 callers, a fixed number of 3-caller traces, and every trace
        # on which the code left the predicted path (at most 10 of > 3 callers)
        sel, n3, nbad = set(), 0, 0
        status = {r["id"]: r["status"] for r in gate_res}
        for s in scheds:
            nc = len(s["calls"])
            if status.get(s["id"]) not in ("ok", "hung"):
                if nc <= 3 or nbad < 10:
                    sel.add(s["id"])
                    nbad += nc > 3
            elif nc <= 2:
                sel.add(s["id"])
            elif nc == 3 and n3 < T["hidden3"]:
                sel.add(s["id"])
                n3 += 1
        phase("gate")
        hv = validate_hidden(ctx, gtr, sel)
        phase("gate-hidden")
        av = validate_agg(ctx, gtr)
        phase("gate-agg")
        validated += len(gate_res)
        bad_tr = collections.defaultdict(list)
        for r in hv["rejected"]:
            ev = r["event"]
            bad_tr[r["tr"]].append({"clause": "C18.not-a-behaviour", "detail": "event=%s" % ev.get("op", "?"),
                                    "info": "line %d: %s" % (r["line"], json.dumps(ev)[:300])})
        for v in av["viols"]:
            bad_tr[v["tr"]].append({"clause": v["clause"], "detail": detail_str(v["detail"]), "info": "line %s (%s)%s" % (v["i"], v["op"], tag_of(v["detail"]))})
        for r in gate_res:
            evaluations += len(by_id[r["id"]]["calls"])
            if r["status"] == "hung":
                viols.append({"clause": "C18.terminates", "detail": "check-did-not-return", "tr": r["id"], "kind": "gate", "info": r.get("div_detail", "")})
            elif r["id"] in bad_tr:
                # prefer the specific counting clause over the generic rejection
                vs = sorted(bad_tr[r["id"]], key=lambda v: v["clause"] == "C18.not-a-behaviour")
                v = dict(vs[0])
                v.update(tr=r["id"], kind="gate")
                v["info"] += "; " + (r.get("div_detail") or "; ".join(r.get("mismatch", [])[:2]))
                viols.append(v)
            elif r["status"] != "ok":
                div.append(r)
        for tr in bad_tr:
            if tr not in by_id:
                raise ToolError("validator reported unknown trace %s" % tr)
        feats = collections.Counter()
        racing = set()
        for s in scheds:
            f = features(s)
            for k, v in f.items():
                feats[k] += bool(v)
            if races(s):
                racing.add(sched_hash(s))
        st = collections.Counter(r["status"] for r in gate_res)
        cov.update(schedules=len(scheds), schedules_followed=st.get("ok", 0), schedules_status=dict(st),
                   schedule_features=dict(feats), schedules_racing=len(racing),
                   schedule_generator_states=gen_states,
                   gate_traces_hidden_step_validated=hv["traces"], gate_trace_lines=hv["lines"],
                   prune_wait_timeouts=sum(r.get("prune_wait_timeouts", 0) for r in gate_res))
        s0 = next((s for s in scheds if races(s)), scheds[0])
        r0 = next(r for r in gate_res if r["id"] == s0["id"])
        samples.append({"schedule": {"id": s0["id"], "descs": s0["descs"], "calls": s0["calls"],
                                     "steps": [[h.get("c"), h.get("s"), h.get("d"), h.get("st")] for h in s0["hist"]],
                                     "model_out": s0["out"], "model_fired": s0["fired"]},
                        "code": {"status": r0["status"], "out": r0.get("out"), "fired": r0.get("fired"), "cur": r0.get("cur")}})

    # (3) Binding B: stress
    stress_stats = {}
    for kind, flag in (("stress", []), ("small", ["-small"])):
        if rp is not None and rp["kind"] != kind:
            continue
        if rp is not None:
            rf = os.path.join(ctx.scratch, "replay-%s.json" % kind)
            json.dump({"cfg": rp["cfg"]}, open(rf, "w"))
            args = ["-mode", "stress", "-replay", rf, "-repeat", str(rp.get("repeat", 300))] + flag
        else:
            runs = T["stress_runs"] if kind == "stress" else T["small_runs"]
            args = ["-mode", "stress", "-runs", str(runs), "-seed", str(seed), "-maxcalls", str(T["stress_maxcalls"])] + flag
        res, tr = run_faultgate(ctx, args, kind)
        phase(kind)
        for r in res:
            replay_of[r["id"]] = {"kind": kind, "cfg": r["cfg"], "repeat": 300 if kind == "stress" else 3000}
            evaluations += sum(r["fired"]) + r["passed"]
        av = validate_agg(ctx, tr)
        validated += av["traces"]
        for v in av["viols"]:
            viols.append({"clause": v["clause"], "detail": detail_str(v["detail"]), "tr": v["tr"], "kind": kind, "info": "line %s (%s)%s" % (v["i"], v["op"], tag_of(v["detail"]))})
        phase(kind + "-agg")
        if kind == "small":
            hv = validate_hidden(ctx, tr)
            phase("small-hidden")
            for r in hv["rejected"]:
                ev = r["event"]
                viols.append({"clause": "C18.not-a-behaviour", "detail": "event=%s" % ev.get("op", "?"), "tr": r["tr"], "kind": kind,
                              "info": "line %d: %s" % (r["line"], json.dumps(ev)[:300])})
        stress_stats[kind] = {"runs": len(res), "calls": sum(sum(r["fired"]) + r["passed"] for r in res),
                              "failed_calls": sum(sum(r["fired"]) for r in res),
                              "descriptions": sum(len(r["cfg"]["descs"]) for r in res),
                              "descriptions_exhausted_in_a_race": sum(r["racy"] for r in res),
                              "runs_with_race": sum(1 for r in res if r["racy"] > 0),
                              "max_goroutines": max(r["cfg"]["g"] for r in res),
                              "max_count": max(d["n"] for r in res for d in r["cfg"]["descs"]),
                              "notes": sorted({r["note"] for r in res if r.get("note")})}
        if res and kind == "stress":
            r0 = max(res, key=lambda r: r["racy"])
            samples.append({"stress_run": {"id": r0["id"], "goroutines": r0["cfg"]["g"], "calls": r0["cfg"]["calls"],
                                           "descs": r0["cfg"]["descs"], "fired": r0["fired"], "passed": r0["passed"], "racy": r0["racy"]}})
    cov["stress"] = stress_stats

    # (4) Binding C: gRPC
    if rp is None or rp["kind"] == "grpc":
        gs = ctx.sub("grpc")
        if rp is not None:
            rf = os.path.join(ctx.scratch, "replay-grpc.json")
            json.dump({"cfg": rp["cfg"]}, open(rf, "w"))
            args = ["-mode", "grpc", "-replay", rf, "-repeat", str(rp.get("repeat", 20)), "-scratch", gs]
        else:
            args = ["-mode", "grpc", "-runs", str(T["grpc_runs"]), "-seed", str(seed), "-scratch", gs]
        res, tr = run_faultgate(ctx, args, "grpc")
        bad = [r for r in res if r["status"] != "ok"]
        if bad:
            raise ToolError("gRPC runs could not be executed: %s" % bad[:2])
        for r in res:
            replay_of[r["id"]] = {"kind": "grpc", "cfg": r["cfg"], "repeat": 20}
            evaluations += sum(r["fired"]) + r["passed"]
        av = validate_agg(ctx, tr)
        validated += av["traces"]
        for v in av["viols"]:
            viols.append({"clause": v["clause"], "detail": detail_str(v["detail"]), "tr": v["tr"], "kind": "grpc", "info": "line %s (%s)%s" % (v["i"], v["op"], tag_of(v["detail"]))})
        cov["grpc"] = {"runs": len(res), "rpcs": sum(sum(r["fired"]) + r["passed"] for r in res),
                       "failed_rpcs": sum(sum(r["fired"]) for r in res), "native_errors": sum(r["other_errors"] for r in res),
                       "inject_via": sorted({r["inject"] for r in res})}
        if res:
            r0 = res[0]
            samples.append({"grpc_run": {"id": r0["id"], "descs": r0["cfg"]["descs"], "errors": r0["cfg"]["errors"],
                                         "fired": r0["fired"], "passed": r0["passed"]}})

    phase("grpc")
    mc_runs = mc_future.result()
    pool.shutdown()
    phase("wait-mc")
    states = sum(r["distinct"] for r in mc_runs)
    transitions = sum(r["states"] for r in mc_runs)

    # verdict
    new, hits = vlib.split_known(prop, viols)
    for h in hits.values():
        print("KNOWN-FINDING: property=%s %s (%d occurrences, e.g. trace %s)" % (prop, h["k"]["text"], h["n"], h["ex"]["tr"]))
    rc = 0
    seen = set()
    for v in new:
        key = (v["kind"], v["clause"], v["detail"])
        if key in seen:
            continue
        seen.add(key)
        n = sum(1 for x in new if (x["kind"], x["clause"], x["detail"]) == key)
        obj = dict(replay_of.get(v["tr"], {"kind": v["kind"]}))
        obj.update(seed=seed, violation={k: v[k] for k in ("clause", "detail", "info", "tr")})
        path = vlib.save_replay(ctx, v["tr"], obj)
        print("VIOLATION property=%s replay=%s clause=%s detail=%s binding=%s trace=%s occurrences=%d %s" % (
            prop, path, v["clause"], v["detail"], v["kind"], v["tr"], n, v["info"][:400]))
        rc = 1
        if len(seen) >= 12:
            break
    if div and rc == 0:
        d0 = div[0]
        print("NOTE property=%s model-divergence: on %d of %d schedules the code left the path Faults.tla predicts, but TLC accepts "
              "the observable behaviour (no violation of the property); e.g. %s: %s" % (
                  prop, len(div), len(gate_res), d0["id"], d0.get("div_detail") or "; ".join(d0.get("mismatch", [])[:2])))

    cov.update({
        "states": states, "transitions": transitions,
        "traces_validated_against_impl": validated,
        "samples": samples,
        "evaluations": evaluations,
        "distinct_nontrivial": cov.get("schedules_racing", 0),
        "rule": "one evaluation = one Set.Check call (or RPC) of the real code whose outcome was checked by TLC; a schedule is "
                "non-trivial when two different callers race on one description (while caller a is between the Match that "
                "returned d and its decrement of d, caller b matches or decrements d); distinct = distinct hash of "
                "descriptions + calls + step sequence",
        "exhaustive": False,
        "mc_runs": [{k: r[k] for k in ("module", "states", "distinct", "wall_s")} for r in mc_runs],
        "model_divergences": len(div),
        "phase_wall_s": phases,
        "known_findings_hit": {k: h["n"] for k, h in hits.items()},
    })
    vlib.write_evidence(ctx, "model_checking", cov, ASSUMPTIONS, len(new))
    if rc == 0:
        print("OK property=%s tier=%s seed=%d mc_states=%d schedules=%d (followed %d, racing %d) stress_runs=%d small_runs=%d grpc_runs=%d "
              "traces_validated=%d calls=%d wall=%.0fs" % (
                  prop, tier, seed, states, cov.get("schedules", 0), cov.get("schedules_followed", 0), cov.get("schedules_racing", 0),
                  stress_stats.get("stress", {}).get("runs", 0), stress_stats.get("small", {}).get("runs", 0),
                  cov.get("grpc", {}).get("runs", 0), validated, evaluations, time.time() - ctx.t0))
    return rc
