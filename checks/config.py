"""C17  Configuration round-trips: what was set is what Get returns.

spec/Config.tla is the reference (WithDefaults, Update = mask locality) and
the enumerator: (a) create-then-get over the full product of the per-field
value classes, (b) update sequences: EVERY subset of the 9 mask paths applied
once (exhaustive), all pairs of subsets of the 8 subscription paths (thorough),
and TLC -simulate sequences of length 3 with topic deletions.  spec/Interval.tla
is the reference value of PostgreSQL interval records and Go duration strings.
harness/cmd/cfgcheck executes every case through the real gRPC API
(Create/Update/Get/List for topics and subscriptions) resp. through
sqltypes.Interval Value/Scan/ParsePostgreSQLInterval and compares field by
field with the reference tokens after every step."""
import json, os, subprocess, sys, time, shutil, collections, hashlib
sys.path.insert(0, os.path.join(os.path.dirname(os.path.abspath(__file__)), "..", "lib"))
import vlib
from vlib import ToolError

PROPS = {"C17"}

ASSUMPTIONS = [
    "SQLite only: stored durations are Go duration strings there; PostgreSQL interval TEXT is exercised through the codec functions "
    "(sqltypes.ParsePostgreSQLInterval / Interval.Scan) directly, not through a PostgreSQL server",
    "enforcement of the configured values (backoff, retention, expiry, dead-lettering, filter) is checked by the bus families (C04, C06, C07, C14), "
    "here only Get/List fidelity and mask locality",
    "values the server rejects are not part of the property; a case whose request is rejected is counted as 'rejected' and not judged",
    "one concrete value per value class and step, chosen by the harness from fixed pools (durations 1 ns .. 68 y and sums, 300 y; label maps incl. "
    "empty values, unicode, 64 keys); values are opaque in the specification",
    "a zero-valued retry bound may be shown as zero (reading B) or as absent (reading A); the implementation must follow one reading on every case of the run",
    "year = 365 d, month = 30 d, day = 24 h in PostgreSQL interval text, as internal/sqltypes/interval.go documents",
]

ALL_PATHS = ["labels", "expiration_policy", "message_retention_duration", "enable_message_ordering", "retry_policy",
             "push_config", "filter", "dead_letter_policy", "topic.labels"]
SUB_PATHS = ALL_PATHS[:8]


def _set(xs):
    return "{" + ", ".join(json.dumps(x) if isinstance(x, str) else str(x) for x in xs) + "}"


def _cfg(mode, picks="= {}", stride=1, offset=0, depth=0, paths=(), new=(), create=(), dels=(), inv="DefaultsOK LocalityOK"):
    return ("SPECIFICATION Spec\nCONSTANTS\n  Mode = \"%s\"\n  Picks %s\n  Stride = %d\n  Offset = %d\n  Depth = %d\n"
            "  MaskPaths = %s\n  NewIds = %s\n  CreateIds = %s\n  DelTopics = %s\nINVARIANTS %s\nCHECK_DEADLOCK FALSE\n"
            % (mode, picks, stride, offset, depth, _set(paths), _set(new), _set(create), _set(dels), inv))


def _icfg(mode, picks="= {}", stride=1, offset=0):
    return ("SPECIFICATION Spec\nCONSTANTS\n  Mode = \"%s\"\n  Picks %s\n  Stride = %d\n  Offset = %d\nINVARIANT SignOK\nCHECK_DEADLOCK FALSE\n"
            % (mode, picks, stride, offset))


def _tlc(ctx, name, module, cfgtext, timeout, simulate=None, workers=1, heap="6g"):
    d = os.path.join(ctx.scratch, name)
    if os.path.exists(d):
        shutil.rmtree(d)
    shutil.copytree(vlib.SPEC, d)
    open(os.path.join(d, "run.cfg"), "w").write(cfgtext)
    cmd = ["java", "-XX:+UseParallelGC", "-Xss64m", "-Xmx" + heap, "-cp", vlib.JAVA_CP, "tlc2.TLC", "-workers", str(workers),
           "-metadir", os.path.join(d, "md"), "-config", "run.cfg"]
    if simulate:
        num, depth, seed = simulate
        per = (num + workers - 1) // workers
        cmd += ["-simulate", "num=%d" % per, "-depth", str(depth), "-seed", str(seed)]
    cmd.append(module + ".tla")
    outp = os.path.join(d, "out.txt")
    t0 = time.time()
    try:
        with open(outp, "w") as fo:
            r = subprocess.run(cmd, cwd=d, stdout=fo, stderr=subprocess.STDOUT, text=True, timeout=timeout)
    except subprocess.TimeoutExpired:
        raise ToolError("TLC timed out on %s (%s)" % (module, name))
    lines = open(outp).read().splitlines()
    if os.environ.get("VERIF_DEBUG"):
        print("DEBUG tlc %s %s: %.1fs, %d lines" % (module, name, time.time() - t0, len(lines)))
    tail = "\n".join(lines[-40:])
    if simulate:
        if any(l.startswith("Error:") for l in lines):
            raise ToolError("TLC -simulate failed on %s (%s):\n%s" % (module, name, tail))
        states = 0
    else:
        if not any("Model checking completed. No error has been found." in l for l in lines):
            raise ToolError("TLC failed on %s (%s) (a fault of the specification or tooling, not of the code):\n%s" % (module, name, tail))
        m = vlib.STATS_RE.findall("\n".join(lines[-30:]))
        states = int(m[-1][1].replace(",", "")) if m else 0
    shutil.rmtree(d, ignore_errors=True)
    return lines, states


def _tagged(lines, tag):
    pre = '<<"%s", ' % tag
    for line in lines:
        if line.startswith(pre):
            v = json.loads(line[len(pre):-2])
            yield json.loads(v) if isinstance(v, str) else v


def run(prop, tier, seed, replay=None):
    ctx = vlib.Ctx(prop, tier, seed)
    try:
        return _run(ctx, replay)
    except ToolError as e:
        print("TOOL-ERROR property=%s %s" % (prop, str(e)[:4000]))
        return 2
    finally:
        if os.environ.get("VERIF_KEEP") != "1":
            ctx.cleanup()


def _nontrivial(c):
    if c["kind"] == "cfg":
        st = c["steps"]
        if len(st) == 1:
            r = st[0]["req"]
            return not (r["labels"] == "absent" and r["exp"] == "absent" and r["ret"] == "absent" and not r["ord"] and not r["retry"]["present"]
                        and r["push"] == "absent" and r["filt"] == "none" and not r["dl"]["present"])
        return any(s["op"] == "deltopic" or (s["op"] == "update" and s.get("mask")) for s in st)
    if c["kind"] == "pg":
        r = c["rec"]
        return any([r["y"]["p"], r["mo"]["p"], r["d"]["p"], r["h"], r["m"], r["s"], r["fd"]])
    return True


def _norm_class(cls):
    # "small:1ns" -> "small"; "huge:over292y:300y" -> "huge>292y"
    parts = cls.split(":")
    if len(parts) > 1 and parts[1].startswith("over292y"):
        return parts[0] + ">292y"
    return parts[0]


def _run(ctx, replay):
    prop, tier, seed = ctx.prop, ctx.tier, ctx.seed
    vlib.build_harness(ctx, ["cfgcheck"])
    cases, fam = [], collections.Counter()
    forced_reading = None
    tlc_states = 0
    W = max(2, min(12, vlib.NCPU - 4))

    def add(c, family):
        c["family"] = family
        cases.append(c)
        fam[family] += 1

    if replay:
        obj = json.load(open(replay))
        for c in obj["cases"]:
            add(c, c.get("family", "replay"))
        seed = obj.get("seed", seed)
        forced_reading = obj.get("reading")
    else:
        thorough = tier == "thorough"
        # (a) create-then-get over the class product
        stride = 1 if thorough else 83
        off = 0 if thorough else (seed * 37) % stride
        lines, n = _tlc(ctx, "create", "Config", _cfg("create", picks="<- PicksStride", stride=stride, offset=off), 1800, workers=1)
        tlc_states += n
        for c in _tagged(lines, "CASE"):
            add({"kind": "cfg", "id": "create-%d" % c["id"], "steps": c["steps"]}, "create-get")
        # (b1) every subset of the 9 mask paths applied once
        lines, n = _tlc(ctx, "seq1", "Config", _cfg("seq", picks="= {}", depth=1, paths=ALL_PATHS, new=range(1, 8), create=[1, 2]), 1800, workers=W)
        tlc_states += n
        for i, h in enumerate(sorted(_tagged(lines, "SCENARIO"), key=lambda h: json.dumps(h, sort_keys=True))):
            add({"kind": "cfg", "id": "seq1-%d" % i, "steps": h}, "update-all-masks")
        # (b2) thorough: every ordered pair of subsets of the 8 subscription paths
        if thorough:
            lines, n = _tlc(ctx, "seq2", "Config", _cfg("seq", picks="= {}", depth=2, paths=SUB_PATHS, new=[4], create=[5]), 3000, workers=W, heap="12g")
            tlc_states += n
            for i, h in enumerate(sorted(_tagged(lines, "SCENARIO"), key=lambda h: json.dumps(h, sort_keys=True))):
                add({"kind": "cfg", "id": "seq2-%d" % i, "steps": h}, "update-mask-pairs")
        # (b3) sampled sequences of length 3 with topic deletions
        nsim = 20000 if thorough else 600
        lines, _ = _tlc(ctx, "sim", "Config", _cfg("sim", picks="= {}", depth=3, paths=ALL_PATHS, new=range(1, 8), create=[1, 2, 5], dels=["t1", "t2", "t3"]),
                        3000, simulate=(nsim, 45, seed * 7919 + 17), workers=W)
        hs = sorted({json.dumps(h, sort_keys=True) for h in _tagged(lines, "SCENARIO")})
        if len(hs) < nsim // 2:
            raise ToolError("TLC -simulate produced only %d scenarios" % len(hs))
        for i, h in enumerate(hs[:nsim]):
            add({"kind": "cfg", "id": "sim-%d-%d" % (seed, i), "steps": json.loads(h)}, "update-sequences")
        # (c) codec
        stride = 1 if thorough else 31
        off = 0 if thorough else (seed * 13) % stride
        lines, n = _tlc(ctx, "pg", "Interval", _icfg("pg", picks="<- PicksStride", stride=stride, offset=off), 1800)
        tlc_states += n
        for c in _tagged(lines, "CASE"):
            add(c, "pg-interval")
        lines, n = _tlc(ctx, "go", "Interval", _icfg("go"), 600)
        tlc_states += n
        for c in _tagged(lines, "CASE"):
            add(c, "go-duration")
    if not cases:
        raise ToolError("no cases")
    for i, c in enumerate(cases):
        c.setdefault("rs", seed * 1000003 + i + 1)
    cp = os.path.join(ctx.scratch, "cases.ndjson")
    with open(cp, "w") as f:
        for c in cases:
            f.write(json.dumps(c) + "\n")

    rp = os.path.join(ctx.scratch, "results.ndjson")
    cmd = [os.path.join(ctx.bin, "cfgcheck"), "-cases", cp, "-out", rp, "-scratch", ctx.sub("db"), "-workers", str(W), "-seed", str(seed)] + (["-rt=false"] if replay else [])
    t_h = time.time()
    try:
        r = subprocess.run(cmd, capture_output=True, text=True, timeout=4 * 3600)
    except subprocess.TimeoutExpired:
        raise ToolError("cfgcheck timed out")
    if r.returncode != 0 or not os.path.exists(rp):
        raise ToolError("cfgcheck failed:\n" + (r.stdout + r.stderr)[-3000:])
    harness_wall = time.time() - t_h
    if os.environ.get("VERIF_DEBUG"):
        print("DEBUG cfgcheck %.1fs for %d cases" % (harness_wall, len(cases)))
    results = [json.loads(l) for l in open(rp)]
    errs = [x for x in results if x["status"] == "error"]
    # a handful of cases may run into the per-request deadline when the machine is overloaded: they
    # are not executed (counted in the evidence), anything else - or more than a handful - is a tool error
    slow = [x for x in errs if "DeadlineExceeded" in str(x.get("err", ""))]
    if len(slow) != len(errs) or len(errs) > max(20, len(results) // 2000):
        raise ToolError("cfgcheck could not execute %d cases, e.g. %s" % (len(errs), errs[0]))
    if errs:
        print("NOTE property=%s %d of %d cases hit the request deadline under load and were not executed" % (prop, len(errs), len(results)))
    given = results[:len(cases)]
    rejected = [x for x in given if x["status"] == "rejected" and x["kind"] == "cfg"]
    ncfg = sum(1 for c in cases if c["kind"] == "cfg")
    if ncfg and len(rejected) > max(2, ncfg // 5):
        raise ToolError("%d of %d configuration cases were rejected by the server (the generator is out of step with it), e.g. %s" % (
            len(rejected), ncfg, rejected[0]))

    # readings of the zero retry bound: accept A if it explains everything, else judge by B
    def mmkeys(which):
        return {(x["idx"], m["step"], m["via"], m["field"], m["got"]) for x in results for m in (x.get(which) or [])}
    ka, kb = mmkeys("mmA"), mmkeys("mmB")
    tot_a, tot_b = len(ka), len(kb)
    only_a, only_b = len(ka - kb), len(kb - ka)
    # A is followed consistently iff nothing mismatches under A that would be fine under B
    reading = forced_reading or ("A" if (only_a == 0 and only_b > 0) else "B")
    groups = {}

    def hit(clause, detail, x, text):
        g = groups.setdefault((clause, detail), {"clause": clause, "detail": detail, "n": 0, "ex": x, "text": text})
        g["n"] += 1

    for x in results:
        mms = x.get("mmA" if reading == "A" else "mmB") or []
        got_fields = {(m["step"], m["field"]) for m in mms if m["via"] == "get"}
        for m in mms:
            if m["via"] == "list" and (m["step"], m["field"]) in got_fields:
                continue
            sfx = "" if m["via"] == "get" else "-list"
            if m["op"] == "create":
                clause, detail = "C17:create-get" + sfx, "%s=%s" % (m["field"], _norm_class(m["class"]))
            elif m["op"] == "update" and m["inmask"]:
                clause, detail = "C17:update-applies" + sfx, "%s=%s" % (m["field"], _norm_class(m["class"]))
            elif m["op"] == "update":
                clause, detail = "C17:update-locality" + sfx, m["field"]
            else:
                clause, detail = "C17:topic-delete-shown" + sfx, m["field"]
            hit(clause, detail, x, "step %d %s mask=%s field %s: want %s got %s" % (m["step"], m["op"], m.get("mask"), m["field"], m["want"], m["got"]))
        for m in x.get("codec") or []:
            hit("C17:" + m["clause"], m["feature"], x, "%r: want %s got %s" % (m["str"], m["want"], m["got"]))
    viols = [groups[k] for k in sorted(groups)]
    new, hits = vlib.split_known(prop, viols)
    for h in hits.values():
        print("KNOWN-FINDING: property=%s %s (signature %s; %d occurrences, e.g. %s)" % (prop, h["k"]["text"], vlib.signature(h["ex"]), h["n"], h["ex"]["text"][:200]))
    rc = 0
    for v in new[:40]:
        x = v["ex"]
        name = "".join(ch if ch.isalnum() else "_" for ch in v["clause"][4:] + "-" + v["detail"])[:120]
        cs = [cases[x["idx"]]] if x["idx"] < len(cases) else [{"kind": "rt", "rec": None}]
        path = vlib.save_replay(ctx, name, {"cases": cs, "seed": seed, "reading": reading, "signature": vlib.signature(v), "example": v["text"], "sent": x.get("sent")})
        print("VIOLATION property=%s replay=%s signature=%s occurrences=%d case=%s %s" % (
            prop, path, vlib.signature(v), v["n"], cs[0].get("id", cs[0]["kind"]), v["text"][:300]))
        rc = 1
    if len(new) > 40:
        print("... and %d more new signatures" % (len(new) - 40))

    # evidence
    steps = sum(x["steps"] for x in results)
    comparisons = sum(x["evals"] for x in results)
    distinct = set()
    for c, x in zip(cases, given):
        if x["status"] == "ok" and _nontrivial(c):
            distinct.add(hashlib.sha1(json.dumps({k: c.get(k) for k in ("kind", "steps", "rec")}, sort_keys=True).encode()).hexdigest())
    samples = []
    for f in ("create-get", "update-all-masks", "update-sequences", "pg-interval"):
        for c in cases:
            if c.get("family") == f:
                if c["kind"] == "cfg":
                    samples.append({"family": f, "id": c["id"], "steps": [{k: s.get(k) for k in ("op", "mask", "req", "topic")} for s in c["steps"] if s["op"] != "end"],
                                    "want_after_last_step": [s for s in c["steps"] if s["op"] != "end"][-1]["want"]["sub"][0]})
                else:
                    samples.append({"family": f, "rec": c["rec"], "want": c["want"]})
                break
    cov = {
        "evaluations": steps,
        "distinct_nontrivial": len(distinct),
        "rule": "one evaluation = one executed step (create / update / topic deletion, each followed by Get + List of the subscription and of the topic and a "
                "field-by-field comparison with the TLC-computed reference) or one codec case; a configuration case is non-trivial when its create request sets at "
                "least one field (create-get) resp. when at least one update has a non-empty mask or a topic is deleted (sequences); an interval record when "
                "it is not all-zero; distinct = distinct case content (sha1 of the TLC-printed case)",
        "samples": samples,
        "exhaustive": tier == "thorough" and not replay,
        "exhaustive_scope": ("full product of the create classes (Config!NCreate), every subset of the 9 mask paths, every ordered pair of subsets of the 8 "
                             "subscription paths, every interval record of Interval!NPg, every Go duration record; length-3 sequences are sampled"
                             if tier == "thorough" and not replay else
                             "every subset of the 9 mask paths applied once (x 7 requests x 2 creates); every 83rd create case, every 31st interval record, "
                             "sampled length-3 sequences"),
        "cases": len(cases), "families": dict(fam), "roundtrip_durations_added_by_harness": len(results) - len(cases),
        "field_comparisons": comparisons,
        "rejected_cases": len(rejected),
        "tlc_enumerated_states": tlc_states,
        "zero_retry_bound_reading": reading, "mismatches_reading_A": tot_a, "mismatches_reading_B": tot_b,
        "mismatches_only_under_A": only_a, "mismatches_only_under_B": only_b,
        "signatures": {vlib.signature(v): v["n"] for v in viols},
        "known_findings_hit": {k: h["n"] for k, h in hits.items()},
        "harness_wall_s": round(harness_wall, 1),
    }
    vlib.write_evidence(ctx, "exploration", cov, ASSUMPTIONS, len(new))
    if rc == 0:
        print("OK property=%s tier=%s seed=%d cases=%d steps=%d comparisons=%d nontrivial=%d rejected=%d known=%d wall=%.0fs" % (
            prop, tier, seed, len(cases), steps, comparisons, len(distinct), len(rejected), len(hits), time.time() - ctx.t0))
    return rc
