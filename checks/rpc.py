"""C16  No request can crash the server; rejected requests change nothing.

spec/Rpc.tla holds, per RPC, the boundary classes of every request field, the
all-valid request, and the two-line contract.  TLC enumerates the request
vectors (quick: every single-field deviation + the class table from which the
pairwise rows are computed here; thorough: additionally the full product over
every core field set = the full product of 22 of the 25 RPCs).  The Go harness
harness/cmd/rpcfuzz sends every vector to a CHILD PROCESS running the
production gRPC service (its interceptor chain included) and records
outcome / status / table-dump difference; TLC (spec/RpcCheck.tla) then
evaluates the contract on every recorded observation."""
import json, os, subprocess, sys, time, random, itertools, collections, shutil
sys.path.insert(0, os.path.join(os.path.dirname(os.path.abspath(__file__)), "..", "lib"))
import vlib
from vlib import ToolError

PROPS = {"C16"}

ASSUMPTIONS = [
    "SQLite file database only; the production gRPC service (grpc.NewGrpcService(...).Initialize/Start) runs in a child process, "
    "HTTP gateway and background services are not started",
    "every vector meets the same fixed pre-state (2 topics, 3 subscriptions: dead-letter+retry / ordered+filtered / plain, 6 messages, "
    "outstanding, acknowledged and foreign ack ids, 1 snapshot); the pristine rows are copied back whenever a request changed the tables",
    "boundary classes and the all-valid request of every RPC are those of spec/Rpc.tla; one concrete representative per class",
    "only the first message of a StreamingPull is varied, plus how long the session is kept (first answer only / ~300 ms reading without acking / "
    "acking what arrives); an established stream is closed by the client and drained before the tables are read; a child exit during or within "
    "100 ms after the session counts as a crash of that vector",
    "StreamingPull byte limits are relative to the known backlog of the valid subscription (payloads of 1, 2, 1 bytes)",
    "deadline 5 s per request; 'wedged' = no status within the deadline (long-poll RPCs: and a probe is not answered either), or probes fail afterwards",
]


def _tlc(ctx, name, module, cfg, timeout, extra_files=None, heap="4g"):
    d = os.path.join(ctx.scratch, name)
    if os.path.exists(d):
        shutil.rmtree(d)
    shutil.copytree(vlib.SPEC, d)
    for fn, src in (extra_files or {}).items():
        shutil.copy(src, os.path.join(d, fn))
    cmd = ["java", "-XX:+UseParallelGC", "-Xss64m", "-Xmx" + heap, "-cp", vlib.JAVA_CP, "tlc2.TLC", "-workers", "1",
           "-metadir", os.path.join(d, "md"), "-config", cfg, module + ".tla"]
    try:
        r = subprocess.run(cmd, cwd=d, capture_output=True, text=True, timeout=timeout)
    except subprocess.TimeoutExpired:
        raise ToolError("TLC timed out on %s/%s" % (module, cfg))
    out = r.stdout
    if "Model checking completed. No error has been found." not in out:
        raise ToolError("TLC failed on %s/%s (a fault of the specification or of the tooling, not of the code):\n%s" % (module, cfg, (out + r.stderr)[-3000:]))
    m = vlib.STATS_RE.findall(out)
    states = int(m[-1][1].replace(",", "")) if m else 0
    shutil.rmtree(d, ignore_errors=True)
    return out, states


def _tagged(out, tag):
    pre = '<<"%s", ' % tag
    for line in out.splitlines():
        if line.startswith(pre):
            body = line[len(pre):-2]
            v = json.loads(body)
            yield json.loads(v) if isinstance(v, str) else v


def vkey(v):
    return v["rpc"] + "|" + "|".join("%s=%s" % kv for kv in sorted(v["f"].items()))


def twise(classes, valid, t, rng):
    """Greedy t-wise covering array over the fields of one RPC. Deterministic for a given rng."""
    fields = sorted(classes)
    if len(fields) < t:
        return [dict(zip(fields, combo)) for combo in itertools.product(*[sorted(classes[f]) for f in fields])]
    dom = {f: sorted(classes[f]) for f in fields}
    uncovered = set()
    for fs in itertools.combinations(fields, t):
        for combo in itertools.product(*[dom[f] for f in fs]):
            uncovered.add(tuple(zip(fs, combo)))
    rows = []
    order = sorted(uncovered)
    rng.shuffle(order)
    pos = 0
    while uncovered:
        while order[pos] not in uncovered:
            pos += 1
        seedt = order[pos]
        row = dict(seedt)
        rest = [f for f in fields if f not in row]
        rng.shuffle(rest)
        for f in rest:
            best, bestn = None, -1
            cands = list(dom[f])
            rng.shuffle(cands)
            for c in cands:
                row[f] = c
                n = 0
                assigned = [x for x in row if x != f]
                for fs in itertools.combinations(sorted(assigned), t - 1):
                    tup = tuple(sorted([(x, row[x]) for x in fs] + [(f, c)]))
                    if tup in uncovered:
                        n += 1
                if n > bestn:
                    best, bestn = c, n
            row[f] = best
        for fs in itertools.combinations(fields, t):
            uncovered.discard(tuple((x, row[x]) for x in fs))
        rows.append(row)
    return rows


def run(prop, tier, seed, replay=None):
    ctx = vlib.Ctx(prop, tier, seed)
    try:
        return _run(ctx, replay)
    except ToolError as e:
        print("TOOL-ERROR property=%s %s" % (prop, str(e)[:4000]))
        return 2
    finally:
        if os.environ.get("VERIF_KEEP") != "1":
            ctx.cleanup()


def _run(ctx, replay):
    prop, tier, seed = ctx.prop, ctx.tier, ctx.seed
    vlib.build_harness(ctx, ["rpcfuzz"])
    rng = random.Random(seed * 1000003 + 16)

    # (1) TLC enumerates the vectors
    out, n_oneoff = _tlc(ctx, "gen_oneoff", "Rpc", "Rpc.cfg", 300)
    tables = list(_tagged(out, "TABLE"))
    if not tables:
        raise ToolError("TLC did not print the class table")
    table = tables[0]
    vecs = {}
    origin = collections.Counter()

    def add(v, src):
        k = vkey(v)
        if k not in vecs:
            vecs[k] = {"rpc": v["rpc"], "f": v["f"]}
            origin[src] += 1

    tlc_states = 0
    if replay:
        obj = json.load(open(replay))
        for v in obj["vectors"]:
            add(v, "replay")
    else:
        for v in _tagged(out, "VEC"):
            add(v, "tlc-oneoff+quickcore")
        tlc_states += n_oneoff
        wide = {r for r, ks in table["core"].items() if not (len(ks) == 1 and set(ks[0]) == set(table["classes"][r]))}
        if tier == "thorough":
            out2, n_core = _tlc(ctx, "gen_core", "Rpc", "Rpc_core.cfg", 1800)
            for v in _tagged(out2, "VEC"):
                add(v, "tlc-core-product")
            tlc_states += n_core
            for r in sorted(wide):
                for row in twise(table["classes"][r], table["valid"][r], 3, rng):
                    add({"rpc": r, "f": row}, "3-wise")
        else:
            for r in sorted(table["classes"]):
                if len(table["classes"][r]) >= 2:
                    for row in twise(table["classes"][r], table["valid"][r], 2, rng):
                        add({"rpc": r, "f": row}, "pairwise")
    keys = sorted(vecs)
    vp = os.path.join(ctx.scratch, "vectors.ndjson")
    with open(vp, "w") as f:
        for i, k in enumerate(keys):
            v = dict(vecs[k])
            v["i"] = i
            f.write(json.dumps(v) + "\n")
    tp = os.path.join(ctx.scratch, "table.json")
    json.dump(table, open(tp, "w"))

    # (2) the real server answers every vector
    rp = os.path.join(ctx.scratch, "results.ndjson")
    work = ctx.sub("fuzz")
    workers = max(2, min(12, vlib.NCPU - 4))
    cmd = [os.path.join(ctx.bin, "rpcfuzz"), "-mode", "run", "-table", tp, "-vectors", vp, "-out", rp,
           "-scratch", work, "-workers", str(workers)]
    try:
        r = subprocess.run(cmd, capture_output=True, text=True, timeout=3 * 3600)
    except subprocess.TimeoutExpired:
        raise ToolError("rpcfuzz timed out")
    if r.returncode != 0 or not os.path.exists(rp):
        raise ToolError("rpcfuzz failed:\n" + (r.stdout + r.stderr)[-3000:])
    summ = json.load(open(rp + ".summary.json"))
    results = [json.loads(l) for l in open(rp)]
    if len(results) != len(keys):
        raise ToolError("rpcfuzz answered %d of %d vectors" % (len(results), len(keys)))

    # (3) TLC evaluates the contract on every observation
    op = os.path.join(ctx.scratch, "obs.ndjson")
    with open(op, "w") as f:
        for x in results:
            f.write(json.dumps({k: x[k] for k in ("i", "rpc", "f", "outcome", "code", "changed")}) + "\n")
    cout, _ = _tlc(ctx, "check", "RpcCheck", "RpcCheck.cfg", 1800, {"results.ndjson": op}, heap="8g")
    consumed = [x for x in _tagged(cout, "CONSUMED")]
    if not consumed or consumed[0] != len(results):
        raise ToolError("RpcCheck did not consume the observations: %s" % cout[-2000:])
    nontrivial = [x for x in _tagged(cout, "NONTRIVIAL")][0]
    verdict = {x["i"]: x["clause"] for x in _tagged(cout, "VIOL")}
    bad_space = [i for i, c in verdict.items() if c.startswith("C00")]
    if bad_space:
        raise ToolError("vectors outside the specified space were executed: %s" % bad_space[:5])
    by_i = {x["i"]: x for x in results}
    for i, c in verdict.items():
        if not by_i[i].get("sig"):
            raise ToolError("TLC reports %s for vector %d but the harness did not minimise it" % (c, i))
    for x in results:
        if x.get("sig") and x["i"] not in verdict:
            raise ToolError("harness flagged vector %d but the contract holds according to TLC" % x["i"])

    # (4) signatures
    groups = {}
    for i in sorted(verdict):
        x = by_i[i]
        for s, mv in zip(x["sig"], x["min"]):
            # a StreamingPull whose FIRST message is rejected races its own sender goroutine: whether
            # the subscription's expiry was already refreshed is timing-dependent, and so is whether the
            # minimiser manages to reproduce it. One structural signature for both cases: the stream was
            # rejected for its first message and the ONLY change is one subscriptions row.
            if (verdict[i].endswith("error-changed-state") and x.get("rpc") == "StreamingPull" and mv["f"].get("session") == "first"
                    and str(x.get("diff") or "").split(" ")[0] == "subscriptions:-1+1"
                    and (mv["f"].get("ack_ids") in ("garbage", "mixed", "blank") or mv["f"].get("modify_deadline") in ("mismatched", "garbage", "blank"))):
                s = "StreamingPull.~timing-dependent:subscriptions"
            g = groups.setdefault((verdict[i], s), {"clause": verdict[i], "detail": s, "n": 0, "min": mv, "ex": x})
            g["n"] += 1
            # prefer the observation that IS the minimal vector as the example
            if vkey(mv) == vkey(x):
                g["ex"] = x
    viols = [groups[k] for k in sorted(groups)]
    new, hits = vlib.split_known(prop, viols)
    for h in hits.values():
        print("KNOWN-FINDING: property=%s %s (signature %s)" % (prop, h["k"]["text"], vlib.signature(h["ex"])))
    rc = 0
    for v in new[:40]:
        x = v["ex"]
        name = "".join(ch if ch.isalnum() else "_" for ch in v["clause"][4:] + "-" + v["detail"])[:120]
        path = vlib.save_replay(ctx, name, {"vectors": [v["min"]], "signature": vlib.signature(v), "request": x.get("req", ""),
                                            "evidence": (x.get("stderr") or x.get("diff") or x.get("msg") or "")[:600]})
        why = (x.get("stderr") or x.get("diff") or x.get("msg") or "").strip().split("\n")[0][:160]
        print("VIOLATION property=%s replay=%s signature=%s vectors=%d minimal=%s why=%s" % (
            prop, path, vlib.signature(v), v["n"], json.dumps({k: c for k, c in v["min"]["f"].items() if table["valid"][v["min"]["rpc"]][k] != c}), why))
        rc = 1
    if len(new) > 40:
        print("... and %d more new signatures" % (len(new) - 40))

    # (5) evidence
    codes = collections.Counter((x["outcome"], x["code"]) for x in results)
    per_rpc = collections.Counter(x["rpc"] for x in results)
    samples = []
    for x in results:
        if x["i"] in verdict and len(samples) < 3:
            samples.append({k: x.get(k) for k in ("rpc", "f", "outcome", "code", "changed", "sig", "req")})
    for x in results[:: max(1, len(results) // 3)][:3]:
        samples.append({k: x.get(k) for k in ("rpc", "f", "outcome", "code", "changed")})
    cov = {
        "evaluations": len(results),
        "distinct_nontrivial": nontrivial,
        "rule": "one evaluation = one request vector sent to the child server process and judged by TLC against Rpc!Contract; "
                "non-trivial = differs from the all-valid request of its RPC in at least one field class (counted by TLC, RpcCheck!NONTRIVIAL); "
                "vectors are distinct by construction (de-duplicated on the class vector)",
        "samples": samples,
        "exhaustive": tier == "thorough" and not replay,
        "exhaustive_scope": ("full product of the boundary classes for %d of %d RPCs; for %s the full product over each core field group of Rpc!WideCore "
                             "plus every 3-way class combination of all fields" % (len(table["classes"]) - len(wide), len(table["classes"]), ", ".join(sorted(wide))))
        if tier == "thorough" and not replay else "every single-field deviation and every pair of field classes of every RPC, plus the Rpc!QuickCore products",
        "vector_sources": dict(origin),
        "tlc_enumerated_states": tlc_states,
        "rpcs": len(per_rpc),
        "per_rpc": dict(per_rpc),
        "outcomes": {"%s/%s" % k: n for k, n in codes.items()},
        "violating_vectors": len(verdict),
        "signatures": {vlib.signature(v): v["n"] for v in viols},
        "known_findings_hit": {k: h["n"] for k, h in hits.items()},
        "server_restarts": summ["restarts"],
        "requests_sent_incl_minimisation": summ["executed"],
        "harness_wall_s": round(summ["wall_s"], 1),
    }
    vlib.write_evidence(ctx, "exploration", cov, ASSUMPTIONS, len(new))
    if rc == 0:
        print("OK property=%s tier=%s seed=%d vectors=%d nontrivial=%d rpcs=%d violating=%d%s restarts=%d wall=%.0fs" % (
            prop, tier, seed, len(results), nontrivial, len(per_rpc), len(verdict), " (all known findings)" if verdict else "", summ["restarts"], time.time() - ctx.t0))
    return rc
