"""C07 (filter semantics) and C08 (filter syntax): the TLA+ specification is the
oracle and TLC is the enumerator.

C07: spec/FilterEnum.tla (+ FilterSim.tla) prints every AST of the bounded
domain (and random deeper ones, -simulate) with the reference verdict EvalG on
all 64 attribute maps under both readings of != on a missing attribute; TLC
also checks the boolean laws on the reference itself.  harness/cmd/filtercheck
renders each AST to concrete syntax (seeded variants), runs the real parser and
evaluator, compares, checks the laws metamorphically on the implementation and
sends a slice through the real gRPC API (CreateSubscription / Publish / Pull).

C08: spec/FilterSyntax.tla is the documented grammar as a token-level
recogniser; TLC checks generator/recogniser agreement and prints every
sentence of the bounded domain with the verdict of every single-token
mutation, and all token strings of length <= 4.  filtercheck renders them,
compares ParseString's accept/reject, checks the print/parse round trip, sends
a slice through CreateSubscription / UpdateSubscription and runs a seeded
byte-string fuzzer (totality and round trip only, reported separately).
"""
import concurrent.futures, hashlib, json, os, re, shutil, subprocess, sys, time
sys.path.insert(0, os.path.join(os.path.dirname(os.path.abspath(__file__)), "..", "lib"))
import vlib
from vlib import ToolError

PROPS = ("C07", "C08")
NSH = max(2, min(14, vlib.NCPU - 2))
try:
    THOROUGH_SAMPLE = max(1, min(1000, int(os.environ.get("VERIF_C07_SAMPLE", "1000"))))
except ValueError:
    THOROUGH_SAMPLE = 1000

# ---------------------------------------------------------------- plans

def plan_c07(tier, seed):
    """list of TLC runs: (name, module, constants, extra args)"""
    base = {"Mode": '"small"', "Depth2": 2, "Shard": 0, "NShards": NSH, "SampleNum": 10, "Seed": seed % 1000, "LawDepth": 1}
    runs = []
    if tier == "quick":
        small = dict(base, Mode='"small"', Depth2=2)
        three = dict(base, Mode='"three"', SampleNum=10)
        laws = dict(base, Mode='"laws"', LawDepth=1, SampleNum=3)
        sims, simnum = 2, 20
    else:
        small = dict(base, Mode='"small"', Depth2=3)
        # all 27000 leaf triples per shape; VERIF_C07_SAMPLE=<per mille> trades exhaustiveness for time
        three = dict(base, Mode='"three"', SampleNum=THOROUGH_SAMPLE)
        laws = dict(base, Mode='"laws"', LawDepth=2, SampleNum=10)
        sims, simnum = NSH, 300
    for sh in range(NSH):
        runs.append(("laws%02d" % sh, "FilterEnum", dict(laws, Shard=sh), []))
    for sh in range(NSH):
        runs.append(("three%02d" % sh, "FilterEnum", dict(three, Shard=sh), []))
    for sh in range(NSH):
        runs.append(("small%02d" % sh, "FilterEnum", dict(small, Shard=sh), []))
    for i in range(sims):
        c = dict(base, Mode='"sim"', NShards=1, SampleNum=0, MinLeaves=4, MaxLeaves=7)
        runs.append(("sim%02d" % i, "FilterSim", c,
                     ["-simulate", "num=%d" % simnum, "-depth", "51", "-seed", str(seed * 1000 + i + 1)]))
    return runs


def plan_c08(tier, seed):
    base = {"Mode": '"sent1"', "Depth2": 2, "Shard": 0, "NShards": NSH, "AllKinds": "FALSE"}
    runs = []
    for sh in range(NSH):
        runs.append(("agree%02d" % sh, "FilterSyntax", dict(base, Mode='"agree"', Shard=sh), []))
    if tier == "quick":
        # one 1/48 slice of the three-leaf sentences, chosen by the seed
        runs.append(("sent3_00", "FilterSyntax", dict(base, Mode='"sent3"', NShards=48, Shard=seed % 48), []))
        s2 = dict(base, Mode='"sent2"')
    else:
        for sh in range(NSH):
            runs.append(("sent3_%02d" % sh, "FilterSyntax", dict(base, Mode='"sent3"', Shard=sh), []))
        s2 = dict(base, Mode='"sent2"', AllKinds="TRUE")
    for sh in range(NSH):
        runs.append(("sent2_%02d" % sh, "FilterSyntax", dict(s2, Shard=sh), []))
    runs.append(("sent1_00", "FilterSyntax", dict(base, Mode='"sent1"', NShards=1, Shard=0), []))
    for sh in range(4):
        runs.append(("short%02d" % sh, "FilterSyntax", dict(base, Mode='"short"', NShards=4, Shard=sh), []))
    return runs

# ---------------------------------------------------------------- TLC

def _cfg_text(module, consts):
    lines = []
    if module == "FilterSim":
        lines += ["SPECIFICATION Spec", "CHECK_DEADLOCK FALSE"]
    lines.append("CONSTANTS")
    for k, v in consts.items():
        lines.append("  %s = %s" % (k, v))
    return "\n".join(lines) + "\n"


def _run_tlc(args):
    specdir, outdir, name, module, consts, extra, timeout = args
    cfg = os.path.join(specdir, "run_%s.cfg" % name)
    with open(cfg, "w") as f:
        f.write(_cfg_text(module, consts))
    outp = os.path.join(outdir, name + ".out")
    cmd = ["java", "-XX:+UseParallelGC", "-XX:ParallelGCThreads=2", "-Xss64m", "-Xmx3g", "-cp", vlib.JAVA_CP, "tlc2.TLC",
           "-workers", "1", "-metadir", os.path.join(specdir, "md_" + name), "-config", "run_%s.cfg" % name, *extra, module + ".tla"]
    t = time.time()
    with open(outp, "w") as of:
        try:
            r = subprocess.run(cmd, cwd=specdir, stdout=of, stderr=subprocess.STDOUT, timeout=timeout)
        except subprocess.TimeoutExpired:
            return {"name": name, "err": "TLC timed out after %ds" % timeout}
    # the verdict of TLC itself is in the non-case lines
    tail, ncases, marks = [], 0, []
    with open(outp, errors="replace") as f:
        for ln in f:
            if ln.startswith('"{'):
                ncases += 1
            else:
                tail.append(ln)
                if ln.startswith("<<\""):
                    marks.append(ln.strip())
    text = "".join(tail)
    ok = ("Model checking completed. No error has been found." in text) if not extra else \
        ("Finished in" in text and "Error:" not in text)
    res = {"name": name, "module": module, "cases": ncases, "wall_s": round(time.time() - t, 1), "marks": marks}
    if not ok or r.returncode != 0:
        res["err"] = "TLC failed on %s (%s):\n%s" % (module, name, text[-3000:])
    shutil.rmtree(os.path.join(specdir, "md_" + name), ignore_errors=True)
    return res


def run_tlc_plan(ctx, runs, timeout):
    specdir = os.path.join(ctx.scratch, "spec")
    if os.path.exists(specdir):
        shutil.rmtree(specdir)
    shutil.copytree(vlib.SPEC, specdir)
    outdir = ctx.sub("cases")
    jobs = [(specdir, outdir, n, m, c, e, timeout) for (n, m, c, e) in runs]
    out = []
    with concurrent.futures.ThreadPoolExecutor(max_workers=max(2, vlib.NCPU - 2)) as ex:
        for res in ex.map(_run_tlc, jobs):
            if "err" in res:
                raise ToolError("specification run failed (a fault of the specification or of TLC, not of the code):\n" + res["err"])
            out.append(res)
    return outdir, out

# ---------------------------------------------------------------- harness

def run_filtercheck(ctx, args, timeout):
    outp = os.path.join(ctx.scratch, "result.json")
    if os.path.exists(outp):
        os.remove(outp)
    cmd = [os.path.join(ctx.bin, "filtercheck"), *args, "-out", outp, "-scratch", ctx.sub("db")]
    try:
        r = subprocess.run(cmd, capture_output=True, text=True, timeout=timeout)
    except subprocess.TimeoutExpired:
        raise ToolError("filtercheck timed out after %ds" % timeout)
    if r.returncode != 0 or not os.path.exists(outp):
        raise ToolError("filtercheck failed (exit %s):\n%s" % (r.returncode, (r.stdout + r.stderr)[-4000:]))
    return json.load(open(outp))


def verdict(ctx, res, replay_path=None):
    """KNOWN-FINDING / VIOLATION lines from a filtercheck result; returns (n_new, known hit counts)."""
    prop = ctx.prop
    viols = []
    for key, e in sorted(res.get("violations", {}).items()):
        viols.append({"clause": e["clause"], "detail": e["detail"], "count": e["count"], "examples": e["examples"]})
    new, _ = vlib.split_known(prop, viols)
    newset = {id(v) for v in new}
    known = [k for k in vlib.load_known() if k["prop"] == prop]
    hits = {}
    for v in viols:
        if id(v) in newset:
            continue
        k = next(k for k in known if re.fullmatch(k["sig"], vlib.signature(v)))
        h = hits.setdefault(k["sig"], {"k": k, "n": 0, "sigs": 0, "ex": v})
        h["n"] += v["count"]
        h["sigs"] += 1
    for h in hits.values():
        ex = h["ex"]["examples"][0]["msg"] if h["ex"]["examples"] else ""
        print("KNOWN-FINDING: property=%s %s (%d occurrences, %d signatures, e.g. %s)" % (prop, h["k"]["text"], h["n"], h["sigs"], ex[:300]))
    n = 0
    for v in new:
        ex = v["examples"][0]
        if replay_path:
            path = replay_path
        else:
            name = re.sub(r"[^A-Za-z0-9]+", "-", "%s-%s" % (v["clause"].split(":", 1)[-1], v["detail"]))[:60] + "-%s-s%d" % (hashlib.sha1(vlib.signature(v).encode()).hexdigest()[:6], ctx.seed)
            path = vlib.save_replay(ctx, name, {"prop": prop, "seed": ctx.seed, "tier": ctx.tier, "replay": ex["replay"],
                                                "violation": {"clause": v["clause"], "detail": v["detail"], "msg": ex["msg"]}})
        print("VIOLATION property=%s replay=%s clause=%s detail=%s occurrences=%d %s" % (
            prop, path, v["clause"], v["detail"], v["count"], ex["msg"][:600].replace("\n", "\\n")))
        n += 1
    return n, {k: h["n"] for k, h in hits.items()}

# ---------------------------------------------------------------- evidence

ASSUME_COMMON = [
    "the reference is spec/Filter.tla (EvalG) resp. spec/FilterSyntax.tla (Accepts); TLC enumerated the cases and computed every expected verdict",
    "TLC strings are atomic: the vocabulary is ids (3 names, 3 values with v0 = empty string and v1 a proper prefix of v2, prefix relation given explicitly); the harness maps the ids to 10 x 10 concrete vocabularies (quoted, keyword-like, unicode, empty name, punctuation, prefixes of one another)",
    "gRPC slices run against SQLite in a child process (a handler panic would be detected as a crash of that process)",
]
ASSUME_C07 = [
    "attributes.k != \"v\" on a message without k: the implementation must agree with ONE of the two reference variants (NeMissing) over the whole run",
    "the boolean laws are checked by TLC on the reference and metamorphically (implementation against implementation) on renderings of every enumerated AST",
]
ASSUME_C08 = [
    "lexical questions the documentation leaves open (comments, raw/char literals, '! =' with a space, keyword-spelled or non-ASCII unquoted names) are outside the accept/reject oracle: token strings that become sentences when a keyword-spelled word is read as a name have verdict 'unsettled' and only go through the crash and round-trip oracles",
    "arbitrary fuzzed byte strings have no specification-side oracle: totality (no panic, 2 s watchdog) and round trip only, counted separately (fuzz_*)",
    "round trip oracle = the printed form parses and evaluates identically on all attribute maps over the names/values of the filter (extended by prefixes and extensions); structural inequality is counted, not reported",
]


def _run(ctx, replay):
    prop, tier, seed = ctx.prop, ctx.tier, ctx.seed
    vlib.build_harness(ctx, ["filtercheck"])
    if replay:
        obj = json.load(open(replay))
        rp = os.path.join(ctx.scratch, "replay.json")
        json.dump({"prop": prop, "replay": obj["replay"]}, open(rp, "w"))
        res = run_filtercheck(ctx, ["-mode", "replay", "-in", rp], 600)
        n, hits = verdict(ctx, res, replay_path=replay)
        vlib.write_evidence(ctx, "exploration", {"evaluations": 1, "distinct_nontrivial": 2, "rule": "replay of one recorded case (counts not meaningful)",
                                                "samples": [obj.get("violation", obj["replay"])], "exhaustive": False, "replay": replay}, ASSUME_COMMON, n)
        if n == 0:
            print("OK property=%s replay=%s did not reproduce a violation" % (prop, replay))
        return 1 if n else 0

    thorough = tier == "thorough"
    t0 = time.time()
    runs = plan_c07(tier, seed) if prop == "C07" else plan_c08(tier, seed)
    outdir, tl = run_tlc_plan(ctx, runs, 3000 if thorough else 600)
    t_tlc = time.time() - t0
    cases = sum(r["cases"] for r in tl)
    if cases == 0:
        raise ToolError("TLC produced no cases")
    by_kind = {}
    for r in tl:
        k = re.sub(r"_?\d+$", "", r["name"])
        by_kind.setdefault(k, {"runs": 0, "cases": 0, "max_wall_s": 0})
        by_kind[k]["runs"] += 1
        by_kind[k]["cases"] += r["cases"]
        by_kind[k]["max_wall_s"] = max(by_kind[k]["max_wall_s"], r["wall_s"])

    t1 = time.time()
    if prop == "C07":
        if not all(any("LAWS-OK" in m for m in r["marks"]) for r in tl if r["name"].startswith("laws")):
            raise ToolError("the law check of the reference did not complete")
        args = ["-mode", "c07", "-in", outdir, "-seed", str(seed), "-variants", "1",
                "-law-every", "8" if thorough else "1", "-e2e", "600" if thorough else "60"]
    else:
        if not all(any("AGREE-OK" in m for m in r["marks"]) for r in tl if r["name"].startswith("agree")):
            raise ToolError("the generator/recogniser agreement check did not complete")
        args = ["-mode", "c08", "-in", outdir, "-seed", str(seed), "-kwvariants", "4" if thorough else "2",
                "-grpc", "3000" if thorough else "300", "-fuzz", "2000000" if thorough else "40000"]
    res = run_filtercheck(ctx, args, 6000 if thorough else 900)
    t_go = time.time() - t1
    cnt = res["counters"]
    if cnt.get("bad_lines"):
        raise ToolError("filtercheck could not read %d case lines" % cnt["bad_lines"])

    n, hits = verdict(ctx, res)

    if prop == "C07":
        if cnt.get("asts", 0) != cases:
            raise ToolError("TLC printed %d cases but filtercheck consumed %d" % (cases, cnt.get("asts", 0)))
        cov = {
            "evaluations": int(cnt.get("evaluations", 0)),
            "distinct_nontrivial": int(cnt.get("distinct_nontrivial", 0)),
            "rule": "one evaluation = the real Evaluate (or one published message on a filtered subscription) on one (filter text, attribute map) pair compared with the TLA+ reference or with its law-partner; "
                    "a case is an AST enumerated by TLC; it is non-trivial when its reference verdict is not constant over the 64 attribute maps (the filter neither matches everything nor nothing); distinct = distinct AST",
            "samples": res["samples"][:5],
            "exhaustive": bool(thorough and THOROUGH_SAMPLE == 1000),
            "exhaustive_scope": ("all grammar-shaped ASTs over 3 names x 3 values with 1 leaf (every parenthesisation to depth 3), 2 leaves (every parenthesisation to depth %d), "
                                 "3 leaves (288 shapes with grouping parentheses to depth 3 and negated wholes; %s of the 27000 leaf triples per shape) x all 64 attribute maps; plus random ASTs with 4..7 leaves (TLC -simulate)")
                                % (3 if thorough else 2, "all" if (thorough and THOROUGH_SAMPLE == 1000) else "a seeded %.1f%% sample" % (THOROUGH_SAMPLE / 10.0 if thorough else 1.0)),
            "asts": cnt.get("asts"), "asts_by_leaves": {k[5:-7]: v for k, v in cnt.items() if k.startswith("asts_") and k.endswith("_leaves")},
            "asts_ne_sensitive": cnt.get("asts_ne_sensitive"),
            "ne_variant_of_implementation": res.get("ne_variant"),
            "law_checks_on_implementation": cnt.get("law_checks"), "asts_with_law_checks": cnt.get("asts_with_law_checks"),
            "reference_law_check": "TLC, FilterEnum mode laws: %d shards completed (totality, determinism, double negation, De Morgan, commutativity, parenthesisation; both NeMissing variants; all 64 maps)" % by_kind.get("laws", {}).get("runs", 0),
            "grpc_filters": cnt.get("e2e_filters", 0), "grpc_messages": cnt.get("e2e_messages", 0),
            "tlc_runs": by_kind, "tlc_wall_s": round(t_tlc, 1), "harness_wall_s": round(t_go, 1),
            "known_findings_hit": hits,
        }
        summary = "asts=%s evaluations=%s nontrivial=%s laws=%s grpc_filters=%s ne=%s" % (
            cnt.get("asts"), cnt.get("evaluations"), cnt.get("distinct_nontrivial"), cnt.get("law_checks"), cnt.get("e2e_filters", 0), res.get("ne_variant"))
        assumptions = ASSUME_COMMON + ASSUME_C07
    else:
        cov = {
            "evaluations": int(cnt.get("strings_parsed", 0)),
            "distinct_nontrivial": int(cnt.get("distinct_nontrivial", 0)),
            "rule": "one evaluation = one concrete string given to the real ParseString and compared with the TLA+ recogniser's verdict (accepted ones also printed, re-parsed and compared on all maps); "
                    "a case is a token string enumerated by TLC (sentence, single-token mutation of a sentence, or any string of <= 4 tokens); non-trivial = at least two tokens; distinct = distinct token string",
            "samples": res["samples"][:6],
            "exhaustive": bool(thorough),
            "exhaustive_scope": ("sentences of all grammar-shaped ASTs with 1 leaf (14 shapes x 8 leaf kinds), 2 leaves (88 shapes x %s leaf-kind pairs), 3 leaves (288 shapes x 64 operator triples%s); "
                                 "ALL single-token deletions / insertions / replacements of each; ALL token strings of length <= 4")
                                % ("64" if thorough else "16", "" if thorough else ", a 1/48 slice chosen by the seed"),
            "sentences": cnt.get("sentences"), "token_strings": cnt.get("token_strings"), "token_strings_duplicate": cnt.get("token_strings_duplicate"),
            "token_strings_accepted": cnt.get("token_strings_accepted"), "token_strings_rejected": cnt.get("token_strings_rejected"),
            "token_strings_unsettled": cnt.get("token_strings_unsettled"),
            "roundtrips": cnt.get("roundtrips"), "roundtrip_evaluations": cnt.get("roundtrip_evaluations"),
            "roundtrip_structure_differs_but_equivalent": cnt.get("roundtrip_structure_differs_but_equivalent", 0),
            "grpc_strings": cnt.get("grpc_strings", 0), "grpc_strings_accepted": cnt.get("grpc_strings_accepted", 0), "grpc_calls_judged": cnt.get("grpc_calls_judged", 0),
            "fuzz_separately": {"strings": cnt.get("fuzz_strings", 0), "parsed": cnt.get("fuzz_strings_parsed", 0), "roundtrips": cnt.get("fuzz_roundtrips", 0),
                                "oracle": "no panic, no hang (2 s), print/parse round trip; no accept/reject oracle"},
            "generator_recogniser_agreement": "TLC, FilterSyntax mode agree: %s" % "; ".join(sorted({m for r in tl for m in r["marks"] if "AGREE-OK" in m})[:1]),
            "tlc_runs": by_kind, "tlc_wall_s": round(t_tlc, 1), "harness_wall_s": round(t_go, 1),
            "known_findings_hit": hits,
        }
        summary = "sentences=%s token_strings=%s strings_parsed=%s roundtrips=%s grpc=%s fuzz=%s" % (
            cnt.get("sentences"), cnt.get("token_strings"), cnt.get("strings_parsed"), cnt.get("roundtrips"), cnt.get("grpc_strings", 0), cnt.get("fuzz_strings", 0))
        assumptions = ASSUME_COMMON + ASSUME_C08
    if cov["evaluations"] < 1 or cov["distinct_nontrivial"] < 2:
        raise ToolError("nothing was evaluated: %s" % cnt)
    vlib.write_evidence(ctx, "exploration", cov, assumptions, n)
    if n == 0:
        print("OK property=%s tier=%s seed=%d %s tlc=%.0fs harness=%.0fs wall=%.0fs" % (prop, tier, seed, summary, t_tlc, t_go, time.time() - ctx.t0))
        return 0
    return 1


def run(prop, tier, seed, replay=None):
    if prop not in PROPS:
        print("unknown property", prop)
        return 2
    ctx = vlib.Ctx(prop, tier, seed)
    try:
        return _run(ctx, replay)
    except ToolError as e:
        print("TOOL-ERROR property=%s %s" % (prop, str(e)[:4000]))
        return 2
    finally:
        if os.environ.get("VERIF_KEEP") != "1":
            ctx.cleanup()


if __name__ == "__main__":
    import argparse
    ap = argparse.ArgumentParser()
    ap.add_argument("prop")
    ap.add_argument("--tier", default=os.environ.get("VERIF_TIER", "quick"))
    ap.add_argument("--replay")
    a = ap.parse_args()
    sys.exit(run(a.prop, a.tier, int(os.environ.get("VERIF_SEED", "1")), a.replay))
