"""C19 - HTTP push.  spec/Push.tla is model checked (window bounds, acked is
final, every message eventually acknowledged); TLC generates endpoint response
scripts; harness/cmd/pushcheck runs the real HTTP pusher against a scripted
endpoint; spec/PushTrace.tla validates every request and response."""
import json, os, subprocess, sys, time, collections
sys.path.insert(0, os.path.join(os.path.dirname(os.path.abspath(__file__)), "..", "lib"))
import vlib
from vlib import ToolError


def run(prop, tier, seed, replay=None):
    ctx = vlib.Ctx(prop, tier, seed)
    try:
        return _run(ctx, replay)
    except ToolError as e:
        print("TOOL-ERROR property=%s %s" % (prop, str(e)[:4000]))
        return 2
    finally:
        if os.environ.get("VERIF_KEEP") != "1":
            ctx.cleanup()


def _run(ctx, replay):
    prop, tier, seed = ctx.prop, ctx.tier, ctx.seed
    vlib.build_harness(ctx, ["pushcheck"])
    states = transitions = 0
    if replay:
        scen = [json.load(open(replay))["scenario"]]
    else:
        r = vlib.tlc_mc(ctx, "MC_Push", timeout=600)
        if not r["ok"]:
            raise ToolError("specification check failed: MC_Push\n" + r.get("output_tail", ""))
        states, transitions = r["distinct"], r["states"]
        n = 90 if tier == "quick" else 1500
        hs = vlib.tlc_gen(ctx, "Gen_Push", n, 12, seed * 15485863 + 1)
        scen = [{"id": "push-%d-%d" % (seed, i), "scripts": h} for i, h in enumerate(hs)]
        # the lower clamp of the adaptive window (Push.tla: w > Dec ? w - Dec : 1) matters exactly at
        # w = k * Dec: k fast successes alone put the window at 1 + k, then one message fails repeatedly
        # every status next to the success set {200, 201, 202, 204} explicitly, once each (the scripted
        # classes above only cycle through the code ranges)
        edge = ["code203", "code205", "code206", "code207", "code208", "code226", "code300", "code304", "code400", "code599"]
        scen.append({"id": "edge-%d" % seed, "scripts": [[c] for c in edge]})
        for k in ([8, 9, 10, 19] if tier == "quick" else list(range(0, 31)) + [39, 49]):
            scen.append({"id": "window-%d-%d" % (seed, k), "scripts": [[]] * k + [["fail5", "fail4", "fail5"]], "phases": ([k] if k else []) + [1]})
    sp = os.path.join(ctx.scratch, "scen.ndjson")
    vlib.write_scenarios(sp, scen)
    tp = os.path.join(ctx.scratch, "trace.ndjson")
    r = subprocess.run([os.path.join(ctx.bin, "pushcheck"), "-scenarios", sp, "-out", tp, "-workers", "12", "-seed", str(seed), "-scratch", ctx.sub("db")],
                       capture_output=True, text=True, timeout=7200)
    if r.returncode != 0:
        raise ToolError("pushcheck failed:\n" + (r.stdout + r.stderr)[-3000:])
    val = vlib.validate(ctx, tp, runmod="PushTraceRun", chunks=4)
    first = {}
    for v in sorted(val["viols"], key=lambda v: (v["tr"], v["i"])):
        first.setdefault(v["tr"], v)
    mine = [v for v in first.values() if v["clause"].startswith("C19")]
    new, hits = vlib.split_known(prop, mine)
    for h in hits.values():
        print("KNOWN-FINDING: property=%s %s (%d sessions)" % (prop, h["k"]["text"], h["n"]))
    by = {s["id"]: s for s in scen}
    rc = 0
    for v in new[:10]:
        path = vlib.save_replay(ctx, v["tr"], {"scenario": by[v["tr"]], "violation": v})
        print("VIOLATION property=%s replay=%s clause=%s detail=%s session=%s step=%d" % (prop, path, v["clause"], v["detail"], v["tr"], v["i"]))
        rc = 1
    codes = collections.Counter()
    reqs = 0
    sessions = collections.defaultdict(list)
    for ln in open(tp):
        e = json.loads(ln)
        sessions[e["tr"]].append(e)
        if e["op"] == "Resp":
            codes[e["code"]] += 1
        if e["op"] == "Req":
            reqs += 1
    nontriv = {json.dumps(by[tr]["scripts"]) for tr, es in sessions.items() if any(e["op"] == "Req" and e["attempt"] >= 2 for e in es)}
    sample = list(sessions.values())[0][:12] if sessions else []
    cov = {"states": states, "transitions": transitions, "traces_validated_against_impl": val["traces"], "samples": [{"session": sample}],
           "evaluations": val["steps"], "distinct_nontrivial": len(nontriv),
           "rule": "one evaluation = one recorded event (request, response, final state) checked by TLC; a session is non-trivial when at least one message was pushed again after a failure; distinct = distinct response-script assignment",
           "distinct_final_status_codes": len([c for c in codes if c > 0]), "transport_failures": codes.get(-1, 0) + codes.get(-2, 0), "requests": reqs}
    vlib.write_evidence(ctx, "model_checking", cov,
                        ["window bound checked is the sound upper bound min(1000, 1 + fast successes so far): the exact AIMD value depends on unobservable batching of acknowledgements",
                         "backoff lower bound checked = configured minimum backoff (400 ms)", "HTTP 102 cannot be observed as a final status by a Go HTTP client and is not exercised",
                         "envelope fidelity over a pool of 5 payload shapes x attribute / ordering-key variants"], len(new))
    if rc == 0:
        print("OK property=%s tier=%s seed=%d sessions=%d events=%d requests=%d status_codes=%d nontrivial=%d wall=%.0fs" % (
            prop, tier, seed, len(sessions), val["steps"], reqs, cov["distinct_final_status_codes"], len(nontriv), time.time() - ctx.t0))
    return rc
