"""Checks for the properties decided on the contract specification Bus.tla by
(1) exhaustive model checking of the reference model, (2) scenario generation
with TLC -simulate, execution on the real code, and (3) TLC trace validation of
every recorded step against every clause of the contract."""
import json, os, sys, time, collections
sys.path.insert(0, os.path.join(os.path.dirname(os.path.abspath(__file__)), "..", "lib"))
import vlib
from vlib import ToolError

# property -> plan.  mc: exhaustive configurations (module names);
# gen: (generation module, quick count, thorough count, depth, drain)
PLAN = {
    "C01": {"mc": ["MC_Lease", "MC_Prune"], "gen": [("Gen_Mixed", 100, 3000, 25, True), ("Gen_Prune", 60, 1500, 34, True), ("Gen_DeadLetter", 40, 1000, 32, True), ("Gen_Snap", 60, 1500, 30, True),
                                                    # every short history around snapshots / seeks between sibling subscriptions
                                                    ("BFS_Snap", 0, 60000, 8, False),
                                                    # every short history of re-creating / updating one subscription name with other filters
                                                    ("BFS_Recreate", 0, 0, 6, False)]},
    "C02": {"mc": ["MC_Lease", "MC_Names"], "gen": [("Gen_Mixed", 160, 4000, 25, True), ("Gen_Names", 60, 1500, 32, True), ("Gen_Snap", 60, 1500, 30, True), ("BFS_Recreate", 0, 0, 6, False), ("BFS_RecreateTopic", 0, 0, 6, False),
                                                    # dead-letter forwarding onto filtered / ordered subscriptions
                                                    ("Gen_DeadLetter", 60, 1500, 32, True),
                                                    # every short history of forwarding onto filtered dead-letter subscriptions (has / NOT has / =)
                                                    ("BFS_DLFilter", 0, 0, 12, False)]},
    "C03": {"mc": ["MC_Lease", "MC_DeadLetter"], "gen": [("Gen_Mixed", 120, 3000, 25, True), ("Gen_Ordered", 60, 1500, 30, True), ("Gen_DeadLetter", 60, 1500, 32, True),
                                                         # every short history of publish / pull / ack / sweep / clock step on a dead-lettering subscription
                                                         ("BFS_DLAck", 0, 0, 9, False)]},
    "C04": {"mc": ["MC_Lease", "MC_Timing"], "gen": [("Gen_Mixed", 80, 2500, 25, True), ("Gen_Timing", 60, 2000, 30, True), ("Gen_DeadLetter", 40, 1000, 32, True),
                                                     ("Gen_Lease", 100, 3000, 60, False, 100), ("BFS_Blocked", 0, 0, 6, False),
                                                     # one delivery climbing its attempt ladder past saturation of the retry curve
                                                     ("Gen_Ladder", 24, 600, 46, False, 100),
                                                     # StreamingPull sessions with a binding byte budget over deliveries with different attempt numbers
                                                     ("Gen_StreamLease", 120, 3000, 22, False, 1000)]},
    "C05": {"mc": ["MC_Ordered"], "impl": ["MC_ImplSnap"], "impl_thorough": ["MC_ImplSnap_thorough", "MC_ImplSeek"], "gen": [("Gen_Ordered", 240, 6000, 30, True), ("Gen_Mixed", 80, 2000, 25, True),
                                                                                                                            # every short history of keyed publishes / pulls / acks / full rewinds on one ordered subscription
                                                                                                                            ("BFS_Ordered", 0, 0, 9, False),
                                                                                                                            # ... and of pulls / acks / rewinds over two same-key messages already published
                                                                                                                            ("BFS_Ordered2", 0, 0, 11, False)]},
    "C06": {"mc": ["MC_DeadLetter"], "gen": [("Gen_DeadLetter", 240, 6000, 32, True), ("Gen_Mixed", 60, 1500, 25, True), ("BFS_DL", 0, 0, 8, False),
                                             # shared dead-letter targets: fan-in of two sources, self-loop
                                             ("BFS_DLFan", 0, 0, 11, False),
                                             # the attempt budget changes while a pull waits (blocked-pull mode)
                                             ("BFS_BlockedDL", 0, 0, 9, False), ("BFS_AckNack", 0, 0, 7, False)]},
    "C12": {"mc": ["MC_Names"], "gen": [("Gen_Names", 300, 6000, 32, False),
                                       # every short history of deleting / re-creating one topic name under a surviving subscription
                                       ("BFS_RecreateTopic", 0, 0, 6, False),
                                       # a subscription past its expiry time but not yet swept is still live (Get, pull, name clash)
                                       ("BFS_GetExpired", 0, 0, 6, False)]},
    "C13": {"mc": ["MC_Seek"], "impl": ["MC_ImplSnap"], "impl_thorough": ["MC_ImplSnap_thorough", "MC_ImplSeek"], "gen": [("Gen_Seek", 120, 4000, 32, True), ("Gen_Snap", 80, 4000, 30, True), ("BFS_Snap", 0, 60000, 8, False)]},
    "C14": {"mc": ["MC_Timing"], "gen": [("Gen_Timing", 260, 6000, 30, True),
                                        # retention restarted by a seek that revives a message (to a time, to a snapshot)
                                        ("Gen_Snap", 60, 1500, 30, True), ("Gen_Seek", 60, 1500, 32, True),
                                        # retention of dead-letter forwarded copies (counted from the forwarding)
                                        ("Gen_DeadLetter", 60, 1500, 32, True), ("BFS_DL", 0, 0, 8, False), ("BFS_GetExpired", 0, 0, 6, False),
                                        # the same short dead-letter histories with a delivery delay injected on the dead-letter subscription
                                        ("BFS_DLDelay", 0, 0, 9, False)]},
    "C15": {"mc": ["MC_Prune"], "gen": [("Gen_Prune", 200, 5000, 34, True), ("Gen_Names", 60, 1500, 32, True),
                    # dead-letter forwards leave messages of one topic outstanding on subscriptions of another:
                    # reclaiming the source topic must leave them alone
                    ("Gen_DeadLetter", 60, 1500, 32, True)], "converge": True,
            # design-level liveness (no VIEW, no constraint): fair job runs empty every table once everything is deleted
            "mc_thorough_extra": ["MC_Converge"]},
    # C09: every mutating step of the generated histories is re-run with the k-th
    # database interaction failing (k = 1, 2, ... incl. BEGIN and COMMIT), then with
    # the request cancelled at the k-th interaction
    "C09": {"mc": ["MC_Lease"], "gen": [("Gen_Mixed", 14, 600, 25, False), ("Gen_Prune", 8, 300, 34, False),
                                         ("Gen_DeadLetter", 8, 300, 32, False), ("Gen_Seek", 8, 300, 32, False),
                                         # every short history around the three dead-letter paths (pull-time, nack, sweep)
                                         ("BFS_DL", 0, 0, 8, False),
                                         # every short history of pulls / out-of-order acks / snapshots / seeks to them on one subscription
                                         ("BFS_SnapOne", 0, 0, 7, False),
                                         # every short history of pulls and one-request ack + nack operations (one transaction)
                                         ("BFS_AckNack", 0, 0, 7, False)],
            "fault": ["fail", "cancel"]},
}

# mechanism-level configurations (spec/BusImpl.tla): the topics / subscriptions their Init state
# contains, as scenario steps (must mirror mcTopics / mcSubs of the module)
_CFG = {"ttl": 50, "mttl": 6, "ord": False, "filt": {"op": "true"}, "minB": 2, "maxB": 2, "dlt": "", "maxAtt": 0, "push": "", "labels": {}}
IMPL_SETUP = {
    "MC_ImplSnap": [{"op": "CreateTopic", "name": "t1"},
                    {"op": "CreateSub", "name": "s1", "topic": "t1", "cfg": dict(_CFG, ord=True)},
                    {"op": "CreateSub", "name": "s2", "topic": "t1", "cfg": dict(_CFG)}],
    "MC_ImplSnap_thorough": [{"op": "CreateTopic", "name": "t1"},
                    {"op": "CreateSub", "name": "s1", "topic": "t1", "cfg": dict(_CFG, ord=True)},
                    {"op": "CreateSub", "name": "s2", "topic": "t1", "cfg": dict(_CFG)}],
    "MC_ImplSeek": [{"op": "CreateTopic", "name": "t1"},
                    {"op": "CreateSub", "name": "s1", "topic": "t1", "cfg": dict(_CFG, ord=True, mttl=3)}],
}

LEVEL_ASSUMPTIONS = [
    "SQLite only (file database, BEGIN IMMEDIATE): PostgreSQL statement interleavings are not bound to code",
    "virtual clock = shifting every stored timestamp; sound because the code compares time.Now() only with stored times",
    "time in traces is floored to 0.1 s; must/may clauses are strict/non-strict accordingly",
    "expected backoff values are the harness's own transcription of min(max, min*1.1^n), not the repository's function",
]


def touches(prop, events):
    """Is this trace a non-trivial case for the property (non-vacuous antecedent)?"""
    ops = [e["op"] for e in events]
    if prop in ("C01", "C02"):
        return any(e["op"] == "Pull" and e.get("got") for e in events)
    if prop == "C03":
        acked = False
        for e in events:
            if e["op"] == "Ack" and e.get("ids"):
                acked = True
            elif acked and e["op"] == "Pull":
                return True
        return False
    if prop == "C04":
        return any(e["op"] == "Pull" and any(g["att"] >= 2 for g in e.get("got", [])) for e in events) or \
            any(e["op"] in ("ModAck", "Nack") and e.get("ids") for e in events)
    if prop == "C05":
        for e in events:
            if e["op"] == "Pull" and e.get("got"):
                subs = {s["id"]: s for s in e["post"]["subs"]}
                msgs = {m["id"]: m for m in e["post"]["msgs"]}
                for g in e["got"]:
                    s, m = subs.get(g["d"][1]), msgs.get(g["d"][0])
                    if s and m and s["ord"] and m["key"]:
                        return True
        return False
    if prop == "C06":
        # some delivery was retired by dead-lettering: completed while over its budget
        for e in events:
            if e["op"] in ("Pull", "Nack", "DLSweep"):
                subs = {s["id"]: s for s in e["post"]["subs"]}
                for d in e["post"]["del"]:
                    s = subs.get(d["d"][1])
                    if s and s["maxAtt"] > 0 and d["att"] >= s["maxAtt"] and d["done"] == e["t1"]:
                        return True
        return False
    if prop == "C13":
        return any(e["op"] in ("SeekTime", "SeekSnap") and e["code"] == "OK" and e["post"]["del"] for e in events)
    if prop == "C14":
        return "Tick" in ops and any(e["op"] == "Pull" and e["code"] == "OK" for e in events)
    if prop == "C12":
        return any(e["op"] in ("Get", "List") or (e["op"].startswith("Create") and e["code"] == "AlreadyExists") for e in events)
    if prop == "C15":
        return any(e["op"].startswith("Prune") and e["post"]["del"] for e in events)
    if prop == "C09":
        return any(e["op"] == "Failed" and e["kind"] in ("exec", "commit") for e in events)
    return True


def run(prop, tier, seed, replay=None):
    ctx = vlib.Ctx(prop, tier, seed)
    try:
        return _run(ctx, replay)
    except ToolError as e:
        print("TOOL-ERROR property=%s %s" % (prop, str(e)[:4000]))
        return 2
    finally:
        if os.environ.get("VERIF_KEEP") != "1":
            ctx.cleanup()


def _run(ctx, replay):
    prop, tier, seed = ctx.prop, ctx.tier, ctx.seed
    if replay and json.load(open(replay))["scenario"].get("eager"):
        import stream   # a stream session (C03 reopen): replayed by the stream machinery
        return stream._run(ctx, replay)
    plan = PLAN[prop]
    vlib.build_harness(ctx, ["busexec"])

    # (1) exhaustive model checking of the reference model against the contract
    states = transitions = 0
    mc_runs = []
    if not replay:
        for mod in plan["mc"] + (plan.get("mc_thorough_extra", []) if tier == "thorough" else []):
            r = vlib.tlc_mc(ctx, mod + ("_thorough" if tier == "thorough" and os.path.exists(os.path.join(vlib.SPEC, mod + "_thorough.tla")) else ""),
                            timeout=3000 if tier == "thorough" else 600)
            mc_runs.append(r)
            if not r["ok"]:
                raise ToolError("specification check failed for %s (a fault of the specification, not of the code):\n%s" % (mod, r.get("output_tail", "")))
            states += r["distinct"]
            transitions += r["states"]

    # (2) scenarios
    scen = []
    if replay:
        obj = json.load(open(replay))
        scen = [obj["scenario"]]
        ctx.seed = obj.get("seed", seed)
    else:
        for gi, g in enumerate(plan["gen"]):
            mod, nq, nt, depth, drain = g[:5]
            unit = g[5] if len(g) > 5 else 1000
            n = nq if tier == "quick" else nt
            if mod.startswith("BFS_"):
                m2 = mod + "_thorough" if tier == "thorough" and os.path.exists(os.path.join(vlib.SPEC, mod + "_thorough.tla")) else mod
                hs = vlib.tlc_gen_bfs(ctx, m2)
                if n and len(hs) > n:   # a cap: seeded sample of the enumeration
                    import random
                    hs = random.Random(seed).sample(hs, n)
            else:
                hs = vlib.tlc_gen(ctx, mod, n, depth * 2 + 12, seed * 7919 + gi)
            for i, h in enumerate(hs):
                # fault enumeration re-runs every step many times: a coarser time unit keeps
                # the nominal clock ahead of the wall clock
                scen.append({"id": "%s-%d-%d" % (mod, seed, i), "unit_ms": 20000 if plan.get("fault") else unit,
                             "steps": h, "drain": drain, "family": mod, "converge": bool(plan.get("converge")) and not mod.startswith("BFS_"),
                             # every other scenario of the random families runs its pulls on idle subscriptions as BLOCKING pulls
                             "blocked": mod in ("BFS_Blocked", "BFS_BlockedDL") or ((i % 2 == 1) and not mod.startswith("BFS_") and mod not in ("Gen_Lease", "Gen_Ladder", "Gen_StreamLease"))})
    # (2b) refinement check of the mechanism model against the contract: every design-level
    # counterexample becomes a scenario; only what the REAL code does with it counts
    impl_stats = []
    if not replay:
        for mod in (plan.get("impl_thorough", []) if tier == "thorough" and plan.get("impl_thorough") else plan.get("impl", [])):
            st, cex = vlib.tlc_impl_cex(ctx, mod, timeout=3600 if tier == "thorough" else 900)
            impl_stats.append(st)
            states += st["distinct"]
            transitions += st["states"]
            for i, c in enumerate(cex):
                scen.append({"id": "%s-cex-%d" % (mod, i), "unit_ms": 1000, "steps": IMPL_SETUP[mod] + c["hist"], "drain": False,
                             "family": mod, "design_viols": c["viols"]})
    if prop == "C12" and not replay:
        # bulk listings: more live resources than the server's page cap (100), page sizes below,
        # at and above the cap. (Built here, not by TLC: 105 resources are beyond any sensible
        # model bound; every step is still validated by TLC against the List clause.)
        cfg0 = {"ttl": 600, "mttl": 80, "ord": False, "filt": {"op": "true"}, "minB": 20, "maxB": 30, "dlt": "", "maxAtt": 0, "push": "", "labels": {}}
        lists = lambda kind: [{"op": "List", "kind": kind, "proj": "p", "page": pg} for pg in (0, 7, 100, 101, 1000)]
        n = 105
        bulk_t = [{"op": "CreateTopic", "name": "bt%03d" % i} for i in range(n)] + lists("topic")
        bulk_s = [{"op": "CreateTopic", "name": "bt000"}] + [{"op": "CreateSub", "name": "bs%03d" % i, "topic": "bt000", "cfg": cfg0} for i in range(n)] + lists("sub") + \
                 [{"op": "List", "kind": "topicsubs", "name": "bt000", "proj": "p", "page": pg} for pg in (0, 7, 100, 101, 1000)]
        bulk_n = [{"op": "CreateTopic", "name": "bt000"}, {"op": "CreateSub", "name": "bs000", "topic": "bt000", "cfg": cfg0}] + \
                 [{"op": "CreateSnap", "name": "bn%03d" % i, "sub": "bs000"} for i in range(n)] + lists("snap")
        for nm, st in (("topics", bulk_t), ("subs", bulk_s), ("snaps", bulk_n)):
            scen.append({"id": "bulk-%s" % nm, "unit_ms": 1000, "steps": st, "drain": False, "family": "bulk", "converge": False, "blocked": False})
    if not scen:
        raise ToolError("no scenarios generated")
    sp = os.path.join(ctx.scratch, "scenarios.ndjson")
    vlib.write_scenarios(sp, scen)

    # (3) execute on the real code, validate every step with TLC
    tp = os.path.join(ctx.scratch, "traces.ndjson")
    if plan.get("fault"):
        res = []
        with open(tp, "w") as out:
            for mode in plan["fault"]:
                tpm = os.path.join(ctx.scratch, "traces_%s.ndjson" % mode)
                res += vlib.run_busexec(ctx, sp, tpm, fault=mode)
                for ln in open(tpm):
                    # keep trace ids distinct per fault mode
                    out.write(ln.replace('"tr":"', '"tr":"%s:' % mode, 1))
        scen = [dict(s, id="%s:%s" % (mode, s["id"]), fault=mode) for mode in plan["fault"] for s in scen]
    else:
        res = vlib.run_busexec(ctx, sp, tp)
    val = vlib.validate(ctx, tp)

    # C03 also covers streaming acks: sessions whose acknowledgements travel in the opening
    # request of a new stream, validated by StreamTrace (clause C03:stream-redelivers-acked)
    if prop == "C03" and not replay:
        import stream
        rscen, rval = stream.reopen_sessions(ctx, 6 if tier == "quick" else 60)
        val["viols"] += [dict(v, bad=[]) for v in rval["viols"] if v["clause"].startswith("C03")]
        val["traces"] += rval["traces"]
        val["steps"] += rval["steps"]
        for s_ in rscen:
            scen.append(s_)

    # attribute
    by_tr = collections.defaultdict(list)
    for ln in open(tp):
        e = json.loads(ln)
        by_tr[e["tr"]].append(e)
    tool = [v for v in val["viols"] if v["clause"].startswith("C00")]
    if tool:
        raise ToolError("harness self-check clause failed: %s" % tool[:3])
    if os.environ.get("VERIF_DEBUG"):
        c = collections.Counter((v["clause"], v["op"], v["detail"]) for v in val["viols"])
        for k, n in c.most_common():
            ex = next(v for v in val["viols"] if (v["clause"], v["op"], v["detail"]) == k)
            print("DEBUG viol %s x%d e.g. %s step %d bad=%s" % (k, n, ex["tr"], ex["i"], ex["bad"]))
    mine = [v for v in val["viols"] if v["clause"][:3] == prop and set(v["bad"]) <= {prop}]
    new, hits = vlib.split_known(prop, mine)
    scen_by_id = {s["id"]: s for s in scen}
    for h in hits.values():
        print("KNOWN-FINDING: property=%s %s (%d occurrences, e.g. trace %s step %d)" % (prop, h["k"]["text"], h["n"], h["ex"]["tr"], h["ex"]["i"]))
    rc = 0
    seen = set()
    for v in new:
        if v["tr"] in seen:
            continue
        seen.add(v["tr"])
        path = vlib.save_replay(ctx, v["tr"].replace(":", "_"), {"scenario": scen_by_id[v["tr"]], "seed": ctx.seed, "violation": v, "fault": scen_by_id[v["tr"]].get("fault")})
        print("VIOLATION property=%s replay=%s clause=%s trace=%s step=%d op=%s" % (prop, path, v["clause"], v["tr"], v["i"], v["op"]))
        rc = 1
        if len(seen) >= 10:
            break

    # evidence
    nontrivial = set()
    for tr, evs in by_tr.items():
        if touches(prop, evs):
            nontrivial.add(vlib.opseq_hash(evs))
    sample = []
    for tr, evs in list(by_tr.items())[:1]:
        sample = [{k: v for k, v in e.items() if k not in ("post",)} for e in evs[:12]]
    cov = {
        "states": states, "transitions": transitions,
        "traces_validated_against_impl": val["traces"],
        "samples": [{"trace": sample}],
        "evaluations": val["steps"],
        "distinct_nontrivial": len(nontrivial),
        "rule": "one evaluation = one step of the real code checked against every contract clause; a trace is non-trivial for this property when a clause of the property had a non-vacuous antecedent (see checks/bus.py touches()); distinct = distinct operation-sequence hash",
        "exhaustive": False,
        "mc_runs": [{k: r[k] for k in ("module", "states", "distinct", "wall_s")} for r in mc_runs],
        "scenarios_executed": len([r for r in res if r["status"] == "ok"]),
        "scenarios_discarded": len([r for r in res if r["status"] != "ok"]),
        "known_findings_hit": {k: h["n"] for k, h in hits.items()},
        "mechanism_refinement": impl_stats,
    }
    level = "model_checking"
    if plan.get("fault"):
        level = "fault_enumeration"
        failed = [e for evs in by_tr.values() for e in evs if e["op"] == "Failed"]
        cov["evaluations"] = len(failed)
        cov["distinct_nontrivial"] = len({(e["of"], e["k"], e["kind"], e["mode"]) for e in failed if e["kind"] != "begin"})
        cov["rule"] = "one evaluation = one execution of a mutating operation on the real code with its k-th database interaction (BEGIN / statement / COMMIT) failing or cancelling the request, followed by a byte-level comparison of all five tables, an awaiter check, and TLC validation of the Failed step; every k up to the length of the operation is enumerated for every mutating step of every generated history; non-trivial = the fault hit after the transaction had begun; distinct = distinct (operation, k, interaction kind, fault kind)"
        cov["by_operation"] = dict(collections.Counter(e["of"] for e in failed))
        cov["samples"] = [{k: v for k, v in e.items() if k != "post"} for e in failed[:3]] or cov["samples"]
    vlib.write_evidence(ctx, level, cov, LEVEL_ASSUMPTIONS + (["faults are injected at the database/sql driver boundary; failures inside SQLite after a statement was applied are out of reach"] if plan.get("fault") else []), len(new))
    if rc == 0:
        print("OK property=%s tier=%s seed=%d mc_states=%d traces=%d steps=%d nontrivial=%d wall=%.0fs" % (
            prop, tier, ctx.seed, states, val["traces"], val["steps"], len(nontrivial), time.time() - ctx.t0))
    return rc
