"""C11 - streaming pull flow control.  spec/Stream.tla is the contract and the
scenario generator (TLC -simulate prints client scripts); harness/cmd/streamcheck
plays them against a real gRPC StreamingPull session; spec/StreamTrace.tla
validates everything the stream sent (bound at every receive, no stall at every
quiescence point)."""
import json, os, subprocess, sys, time, collections
sys.path.insert(0, os.path.join(os.path.dirname(os.path.abspath(__file__)), "..", "lib"))
import vlib
from vlib import ToolError


def run(prop, tier, seed, replay=None):
    ctx = vlib.Ctx(prop, tier, seed)
    try:
        return _run(ctx, replay)
    except ToolError as e:
        print("TOOL-ERROR property=%s %s" % (prop, str(e)[:4000]))
        return 2
    finally:
        if os.environ.get("VERIF_KEEP") != "1":
            ctx.cleanup()


def reopen_sessions(ctx, n):
    """C03 on streams: sessions in which the acknowledgements travel in the OPENING request of a
    new stream (harness/cmd/streamcheck reopen.go); returns the StreamTrace violations."""
    vlib.build_harness(ctx, ["streamcheck"])
    scen = [{"id": "reopen-%d" % i, "eager": "reopen",
             "steps": [{"op": "Open", "fcM": 10, "fcB": 1000}, {"op": "Publish", "sizes": [10] * (2 + i % 3)}]} for i in range(n)]
    sp = os.path.join(ctx.scratch, "reopen.ndjson")
    vlib.write_scenarios(sp, scen)
    tp = os.path.join(ctx.scratch, "reopen_trace.ndjson")
    r = subprocess.run([os.path.join(ctx.bin, "streamcheck"), "-scenarios", sp, "-out", tp, "-workers", "6", "-scratch", ctx.sub("db")],
                       capture_output=True, text=True, timeout=1800)
    if r.returncode != 0:
        raise ToolError("streamcheck (reopen) failed:\n" + (r.stdout + r.stderr)[-2000:])
    val = vlib.validate(ctx, tp, runmod="StreamTraceRun", chunks=2)
    return scen, val


def _run(ctx, replay):
    prop, tier, seed = ctx.prop, ctx.tier, ctx.seed
    vlib.build_harness(ctx, ["streamcheck"])
    states = transitions = 0
    if replay:
        scen = [json.load(open(replay))["scenario"]]
    else:
        r = vlib.tlc_mc(ctx, "MC_Stream", timeout=600)
        if not r["ok"]:
            raise ToolError("specification check failed: MC_Stream\n" + r.get("output_tail", ""))
        states, transitions = r["distinct"], r["states"]
        n = 48 if tier == "quick" else 1200
        # half of the sessions use one message size and a huge byte limit (pure message-count
        # flow control, where the known head-of-line finding cannot occur and mask anything)
        hs = vlib.tlc_gen(ctx, "Gen_Stream", n // 2, 60, seed * 104729 + 3)
        hc = vlib.tlc_gen(ctx, "Gen_StreamCount", n - n // 2, 60, seed * 104729 + 4)
        # and sessions with one message size and byte limits that are exact multiples of it
        hb = vlib.tlc_gen(ctx, "Gen_StreamBytes", 16 if tier == "quick" else 400, 60, seed * 104729 + 5)
        # in every other message-count session a nack travels in ONE request together with a deadline
        # extension of another outstanding message (a nack of the first and nothing else)
        hc = [[dict(st, op="NackExt") if (i % 2 == 1 and st["op"] == "Nack") else st for st in h] for i, h in enumerate(hc)]
        scen = [{"id": "stream-%d-%d" % (seed, i), "steps": h} for i, h in enumerate(hs)] + \
               [{"id": "streamcount-%d-%d" % (seed, i), "steps": h} for i, h in enumerate(hc)] + \
               [{"id": "streambytes-%d-%d" % (seed, i), "steps": h} for i, h in enumerate(hb)]
        # direct binding of actions.MessageStreamer with a connection that acknowledges inside Send and
        # returns only when the ack has been completely handled (on the stream / outside it): the publishes
        # of the generated scripts, message-count flow control
        for i, h in enumerate(hc[: (6 if tier == "quick" else 100)]):
            # one outstanding message at a time: a slot that is never freed stops the stream for good
            pubs = [dict(st, fcM=1, fcB=1000) if st["op"] == "Open" else st for st in h if st["op"] in ("Open", "Publish")]
            if len(pubs) > 1:
                for kind in ("stream", "external"):
                    scen.append({"id": "eager-%s-%d-%d" % (kind, seed, i), "steps": pubs, "eager": kind})
        # race sessions: one scripted step runs while the stream is parked at the k-th database
        # boundary of its reaction to the step before (streamcheck/race.go); k walks the second step
        # across the stream's own processing (refresh read, fetch transaction, ...)
        shapes = [
            # flow control full, a publish triggers the stream's refresh pass, an external ack lands inside it
            ("pubext", [{"op": "Open", "fcM": 1, "fcB": 1000}, {"op": "Publish", "sizes": [10, 10]}, {"op": "Publish", "sizes": [10]}, {"op": "ExtAck", "j": 1}], 2),
            # a stream ack frees a slot, an external ack lands inside the stream's fetch
            ("ackext", [{"op": "Open", "fcM": 2, "fcB": 1000}, {"op": "Publish", "sizes": [10, 10, 10, 10]}, {"op": "Ack", "j": 1}, {"op": "ExtAck", "j": 1}], 2),
            # two external acks back to back
            ("extext", [{"op": "Open", "fcM": 2, "fcB": 1000}, {"op": "Publish", "sizes": [10, 10, 10, 10]}, {"op": "ExtAck", "j": 1}, {"op": "ExtAck", "j": 1}], 2),
            # a nack on the stream, then an external ack of the other outstanding message
            ("nackext", [{"op": "Open", "fcM": 2, "fcB": 1000}, {"op": "Publish", "sizes": [10, 10, 10]}, {"op": "Nack", "j": 1}, {"op": "ExtAck", "j": 1}], 2),
            # a nack and a deadline extension of the other outstanding message in one request, then an ack
            ("nackextend", [{"op": "Open", "fcM": 2, "fcB": 1000}, {"op": "Publish", "sizes": [10, 10, 10, 10]}, {"op": "NackExt", "j": 1}, {"op": "Ack", "j": 1}], 2),
        ]
        for name, steps, a in shapes:
            for k in range(1, 7 if tier == "quick" else 13):
                scen.append({"id": "race-%s-%d" % (name, k), "steps": steps, "raceAt": [a, k]})
        # an outstanding message whose retention runs out must free its slot (real time, 3 s)
        for i in range(2 if tier == "quick" else 6):
            scen.append({"id": "expire-%d" % i, "eager": "expire", "steps": [{"op": "Open", "fcM": 1, "fcB": 1000000}]})
        if tier == "thorough":
            # and every consecutive pair of actions of the generated message-count scripts
            for i, h in enumerate(hc[:60]):
                for a in range(1, len(h) - 1):
                    if h[a]["op"] in ("Publish", "Ack", "Nack", "ExtAck") and h[a + 1]["op"] in ("Publish", "Ack", "Nack", "ExtAck"):
                        for k in (1, 2, 3, 4):
                            scen.append({"id": "racegen-%d-%d-%d-%d" % (seed, i, a, k), "steps": h, "raceAt": [a, k]})
    sp = os.path.join(ctx.scratch, "scen.ndjson")
    vlib.write_scenarios(sp, scen)
    tp = os.path.join(ctx.scratch, "trace.ndjson")
    r = subprocess.run([os.path.join(ctx.bin, "streamcheck"), "-scenarios", sp, "-out", tp, "-workers", "8", "-scratch", ctx.sub("db")],
                       capture_output=True, text=True, timeout=7200)
    if r.returncode != 0:
        raise ToolError("streamcheck failed:\n" + (r.stdout + r.stderr)[-3000:])
    val = vlib.validate(ctx, tp, runmod="StreamTraceRun", chunks=4)
    # first violation of a trace decides; later ones may be consequences
    first = {}
    for v in sorted(val["viols"], key=lambda v: (v["tr"], v["i"])):
        first.setdefault(v["tr"], v)
    mine = [v for v in first.values() if v["clause"].startswith(prop)]
    new, hits = vlib.split_known(prop, mine)
    for h in hits.values():
        print("KNOWN-FINDING: property=%s %s (%d sessions, e.g. %s step %d)" % (prop, h["k"]["text"], h["n"], h["ex"]["tr"], h["ex"]["i"]))
    by = {s["id"]: s for s in scen}
    rc = 0
    for v in new[:10]:
        path = vlib.save_replay(ctx, v["tr"], {"scenario": by[v["tr"]], "violation": v})
        print("VIOLATION property=%s replay=%s clause=%s detail=%s session=%s step=%d" % (prop, path, v["clause"], v["detail"], v["tr"], v["i"]))
        rc = 1
    evs = collections.defaultdict(list)
    for ln in open(tp):
        e = json.loads(ln)
        evs[e["tr"]].append(e)
    nontriv = set()
    for tr, es in evs.items():
        # non-trivial: the stream had to hold back at least once (something deliverable did not fit) and later sent it
        if any(e["op"] == "Quiet" and e["avail"] for e in es) and sum(1 for e in es if e["op"] == "Recv") >= 2:
            nontriv.add(json.dumps([[e["op"], e.get("ids"), e.get("sizes")] for e in es if e["op"] != "Quiet"]))
    sample = [{k: v for k, v in e.items()} for e in list(evs.values())[0][:14]] if evs else []
    cov = {"states": states, "transitions": transitions, "traces_validated_against_impl": val["traces"],
           "samples": [{"session": sample}], "evaluations": val["steps"], "distinct_nontrivial": len(nontriv),
           "rule": "one evaluation = one recorded stream event checked by TLC (bound at every Recv, no-stall at every Quiet); a session is non-trivial when the stream had to hold deliverable messages back at some quiescence point and still delivered at least two batches; distinct = distinct event sequence",
           "known_findings_hit": {k: h["n"] for k, h in hits.items()}, "sessions": len(evs)}
    vlib.write_evidence(ctx, "model_checking", cov,
                        ["gRPC StreamingPull over an in-process connection, SQLite", "promptness = sent within the quiescence wait (0.3 s quiet, up to 6 s when the harness expects more)",
                         "leases of 10 min, so nothing expires during a session", "interleavings are those produced by real goroutine scheduling around the scripted client actions, not an exhaustive schedule enumeration"], len(new))
    if rc == 0:
        print("OK property=%s tier=%s seed=%d sessions=%d events=%d nontrivial=%d wall=%.0fs" % (prop, tier, seed, len(evs), val["steps"], len(nontriv), time.time() - ctx.t0))
    return rc
