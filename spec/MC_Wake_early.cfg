SPECIFICATION Spec
CONSTANTS
  Waiters = {"w2"}
  Writers = {"x1"}
  WSub <- oneWSub
  WTargets <- oneTargets
  NotifyMode <- oneMode
  Subs = {"a", "b"}
  EarlyReturn = TRUE
  RegisterLate = FALSE
  EmitHist = FALSE
INVARIANTS TypeOK NoLostWake
CHECK_DEADLOCK FALSE
