------------------------------ MODULE MC_Prune ------------------------------
(* C15: every prune / expire / sweep job with minimum ages 0 and 2 and      *)
(* batch sizes 1 and 2 spliced at every position of the histories of one    *)
(* topic, one dead-lettering subscription and a dead-letter subscription.   *)
EXTENDS BusModel
Cfg0 == [ttl |-> 5, mttl |-> 4, ord |-> FALSE, filt |-> NoFilter, minB |-> 2, maxB |-> 2,
         dlt |-> "", maxAtt |-> 0, push |-> "", labels |-> <<>>]
C1 == [name |-> "s1", topic |-> "t1", cfg |-> Cfg0]
mcTopicNames == {"t1"}
mcSubNames == {"s1"}
mcSnapNames == {}
mcSubCfgs == {C1}
mcSetup == << [op |-> "CreateTopic", name |-> "t1"], [op |-> "CreateSub", c |-> C1] >>
mcMsgKinds == { [key |-> "", attrs |-> <<>>] }
mcPrefixPairs == {}
mcBatchMax == 1
mcTickDs == {2}
mcPullMaxes == {2}
mcJobAges == {0, 2}
mcJobMaxes == {1}
mcProjOfName == <<>>
mcWeights == <<>>
mcOps == {"Publish", "Pull", "Ack", "DeleteSub", "DeleteTopic", "ExpireSubs", "Tick"} \cup PruneJobs
=============================================================================
