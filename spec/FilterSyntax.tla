---------------------------- MODULE FilterSyntax ----------------------------
(***************************************************************************)
(* C08: the documented filter grammar at token level, as a recogniser, and *)
(* TLC as the enumerator of sentences, near-sentences and short strings.   *)
(*                                                                         *)
(* Token alphabet (15):  attributes : . Ident String = != hasPrefix ( ) ,  *)
(* AND OR NOT -      A token string is a sequence of these.                *)
(*                                                                         *)
(*   Condition ::= Term ((AND Term)+ | (OR Term)+)?                        *)
(*   Term      ::= (NOT | -)? (Basic | "(" Condition ")")                  *)
(*   Basic     ::= attributes : Name                                       *)
(*               | attributes . Name (= | !=) String                       *)
(*               | hasPrefix ( attributes . Name , String )                *)
(*   Name      ::= Ident | String                                          *)
(*                                                                         *)
(* Accepts(ts) is a recursive-descent recogniser (each parser returns the  *)
(* index after the phrase, 0 = no phrase here).  The grammar is            *)
(* deterministic at this level: after a Term an AND (OR) can only          *)
(* continue the same sequence, because the follow set of a Condition is    *)
(* { ")", end } - so greedy descent decides the language exactly.          *)
(*                                                                         *)
(* Render(ast, neg) is the generator: AST (Filter.tla record format, leaf  *)
(* field k = the KIND of the name token, "Ident" or "String") to token     *)
(* string.  TLC checks generator/recogniser agreement                      *)
(* Accepts(Render(ast, neg)) for every AST of the bounded domain and both  *)
(* spellings of negation before it prints anything for that AST.           *)
(*                                                                         *)
(* Output, one JSON line per sentence s (n = Len(s)):                      *)
(*   {"s": tokens, "acc": 1,                                               *)
(*    "del": [n x v]          verdict for s without token p               *)
(*    "ins": [(n+1) x [15 x v]]    verdict for token t inserted before p   *)
(*    "rep": [n x [15 x v]]        verdict for token p replaced by t}      *)
(* with verdict v: 1 = sentence, 0 = not a sentence, 2 = unsettled (see    *)
(* LenientNames below),                                                    *)
(* (t numbered as in TokSeq) and, in mode "short", one line per token      *)
(* string p with Len(p) <= 3:  {"p": tokens, "acc": v, "ext": [15 x v]}     *)
(* where ext[t] is the verdict for p followed by token t; together these   *)
(* are ALL token strings of length <= 4.                                   *)
(*                                                                         *)
(* Lexical questions the documentation leaves open (comments, raw and char *)
(* literals, "! =" with a space, keyword-named unquoted identifiers,       *)
(* unquoted non-ASCII identifiers) do not exist at this level: the harness *)
(* never renders them in the accept/reject parity cases.                   *)
(***************************************************************************)
EXTENDS FilterShapes, TLC, Json, SequencesExt

CONSTANTS Mode, Depth2, Shard, NShards, AllKinds

TokSeq == <<"attributes", ":", ".", "Ident", "String", "=", "!=", "hasPrefix",
            "(", ")", ",", "AND", "OR", "NOT", "-">>
NTok == 15
Tokens == {TokSeq[i] : i \in 1..NTok}

Tok(ts, i) == IF i >= 1 /\ i <= Len(ts) THEN ts[i] ELSE "EOF"

\* NT = the tokens that may stand where the grammar says Name
StrictNames  == {"Ident", "String"}
\* The documentation does not say whether a word that is spelled like a
\* keyword may be an unquoted attribute name (attributes:AND).  A token string
\* that becomes a sentence when such words are read as Ident in Name position
\* is UNSETTLED: verdict 2, kept out of the accept/reject parity oracle.
LenientNames == StrictNames \cup {"AND", "OR", "NOT", "attributes", "hasPrefix"}

Basic(ts, i, NT) ==
  IF Tok(ts, i) = "attributes" THEN
    IF Tok(ts, i + 1) = ":" /\ Tok(ts, i + 2) \in NT THEN i + 3
    ELSE IF /\ Tok(ts, i + 1) = "." /\ Tok(ts, i + 2) \in NT
            /\ Tok(ts, i + 3) \in {"=", "!="} /\ Tok(ts, i + 4) = "String" THEN i + 5
    ELSE 0
  ELSE IF /\ Tok(ts, i) = "hasPrefix" /\ Tok(ts, i + 1) = "(" /\ Tok(ts, i + 2) = "attributes"
          /\ Tok(ts, i + 3) = "." /\ Tok(ts, i + 4) \in NT /\ Tok(ts, i + 5) = ","
          /\ Tok(ts, i + 6) = "String" /\ Tok(ts, i + 7) = ")" THEN i + 8
  ELSE 0

RECURSIVE Term(_, _, _), Cond(_, _, _), More(_, _, _, _)
Term(ts, i, NT) ==
  LET j == IF Tok(ts, i) \in {"NOT", "-"} THEN i + 1 ELSE i IN
  IF Tok(ts, j) = "("
  THEN LET e == Cond(ts, j + 1, NT) IN IF e # 0 /\ Tok(ts, e) = ")" THEN e + 1 ELSE 0
  ELSE Basic(ts, j, NT)
\* i is just after a Term: consume (kw Term)*
More(ts, i, kw, NT) ==
  IF Tok(ts, i) = kw
  THEN LET e == Term(ts, i + 1, NT) IN IF e = 0 THEN 0 ELSE More(ts, e, kw, NT)
  ELSE i
Cond(ts, i, NT) ==
  LET e == Term(ts, i, NT) IN
  IF e = 0 THEN 0
  ELSE IF Tok(ts, e) \in {"AND", "OR"} THEN More(ts, e, Tok(ts, e), NT) ELSE e

Accepts(ts) == Cond(ts, 1, StrictNames) = Len(ts) + 1
AcceptsLenient(ts) == Cond(ts, 1, LenientNames) = Len(ts) + 1
\* 1 = sentence, 0 = not a sentence under either reading, 2 = unsettled
Verdict(ts) == IF Accepts(ts) THEN 1 ELSE IF AcceptsLenient(ts) THEN 2 ELSE 0

---------------------------------------------------------------------------
\* generator
RECURSIVE Render(_, _)
Join(xs, kw, neg) ==
  LET RECURSIVE J(_)
      J(i) == IF i = 1 THEN Render(xs[1], neg) ELSE J(i - 1) \o <<kw>> \o Render(xs[i], neg)
  IN J(Len(xs))
Render(f, neg) ==
  CASE f.op = "has" -> <<"attributes", ":", f.k>>
    [] f.op = "eq"  -> <<"attributes", ".", f.k, "=", "String">>
    [] f.op = "ne"  -> <<"attributes", ".", f.k, "!=", "String">>
    [] f.op = "pre" -> <<"hasPrefix", "(", "attributes", ".", f.k, ",", "String", ")">>
    [] f.op = "not" -> <<neg>> \o Render(f.x, neg)
    [] f.op = "par" -> <<"(">> \o Render(f.x, neg) \o <<")">>
    [] f.op = "and" -> Join(f.xs, "AND", neg)
    [] f.op = "or"  -> Join(f.xs, "OR", neg)

NKind == 8
KindAt(i) == [op |-> <<"has", "eq", "ne", "pre">>[(i \div 2) + 1],
              k  |-> <<"Ident", "String">>[(i % 2) + 1],
              v  |-> "String"]

---------------------------------------------------------------------------
\* single-token mutations
Del(s, p) == [i \in 1..(Len(s) - 1) |-> IF i < p THEN s[i] ELSE s[i + 1]]
Ins(s, p, t) == [i \in 1..(Len(s) + 1) |-> IF i < p THEN s[i] ELSE IF i = p THEN t ELSE s[i - 1]]
Rep(s, p, t) == [s EXCEPT ![p] = t]
B(e) == IF e THEN 1 ELSE 0

SentenceCase(s) ==
  [s   |-> s,
   acc |-> Verdict(s),
   del |-> [p \in 1..Len(s) |-> Verdict(Del(s, p))],
   ins |-> [p \in 1..(Len(s) + 1) |-> [t \in 1..NTok |-> Verdict(Ins(s, p, TokSeq[t]))]],
   rep |-> [p \in 1..Len(s) |-> [t \in 1..NTok |-> Verdict(Rep(s, p, TokSeq[t]))]]]

\* agreement first, then the case
EmitAst(f) ==
  /\ Accepts(Render(f, "NOT"))
  /\ Accepts(Render(f, "-"))
  /\ PrintT(ToJson(SentenceCase(Render(f, "NOT"))))

Mine(x) == x % NShards = Shard

S1 == SetToSeq(CondS(TRUE, 3, 1, 0))
S2 == SetToSeq(CondS(TRUE, Depth2, 2, 0))
S3 == SetToSeq(Shapes3)

\* leaf kinds of a 2- or 3-leaf sentence: all combinations (AllKinds), or all
\* combinations of the four operators with the name kind fixed by position
Pairs == IF AllKinds THEN {<<a, b>> : a \in 0..7, b \in 0..7}
         ELSE {<<2 * a, 2 * b + 1>> : a \in 0..3, b \in 0..3}
Triples == IF AllKinds THEN {<<a, b, c>> : a \in 0..7, b \in 0..7, c \in 0..7}
           ELSE {<<2 * a + (b % 2), 2 * b + (c % 2), 2 * c + ((a + 1) % 2)>> : a \in 0..3, b \in 0..3, c \in 0..3}

ASSUME Mode \in {"sent1", "sent2", "sent3", "short", "agree"}

ASSUME Mode = "sent1" =>
  \A si \in 1..Len(S1), a \in 0..7 : Mine(si * 8 + a) => EmitAst(Fill(S1[si], <<KindAt(a)>>))

ASSUME Mode = "sent2" =>
  \A si \in 1..Len(S2) : \A p \in Pairs : Mine(si + p[1] * 8 + p[2]) =>
    EmitAst(Fill(S2[si], <<KindAt(p[1]), KindAt(p[2])>>))

ASSUME Mode = "sent3" =>
  \A si \in 1..Len(S3) : \A p \in Triples : Mine(si + p[1] * 64 + p[2] * 8 + p[3]) =>
    EmitAst(Fill(S3[si], <<KindAt(p[1]), KindAt(p[2]), KindAt(p[3])>>))

\* generator / recogniser agreement alone, over the whole bounded domain
\* (all leaf kinds, both spellings of negation), without printing cases
Agree(f) == Accepts(Render(f, "NOT")) /\ Accepts(Render(f, "-"))
ASSUME Mode = "agree" =>
  /\ \A si \in 1..Len(S1), a \in 0..7 : Mine(si) => Agree(Fill(S1[si], <<KindAt(a)>>))
  /\ \A si \in 1..Len(S2) : Mine(si) => \A a \in 0..7, b \in 0..7 :
       Agree(Fill(S2[si], <<KindAt(a), KindAt(b)>>))
  /\ \A si \in 1..Len(S3) : Mine(si) => \A a \in 0..7, b \in 0..7, c \in 0..7 :
       Agree(Fill(S3[si], <<KindAt(a), KindAt(b), KindAt(c)>>))
  /\ PrintT(<<"AGREE-OK", Shard, Len(S1) * 8 + Len(S2) * 64 + Len(S3) * 512>>)

\* all token strings of length <= 4
ShortCase(p) == [p |-> p, acc |-> Verdict(p), ext |-> [t \in 1..NTok |-> Verdict(Append(p, TokSeq[t]))]]
ASSUME Mode = "short" =>
  /\ Mine(0) => PrintT(ToJson(ShortCase(<<>>)))
  /\ \A a \in 1..NTok : Mine(a) =>
       /\ PrintT(ToJson(ShortCase(<<TokSeq[a]>>)))
       /\ \A b \in 1..NTok :
            /\ PrintT(ToJson(ShortCase(<<TokSeq[a], TokSeq[b]>>)))
            /\ \A c \in 1..NTok : PrintT(ToJson(ShortCase(<<TokSeq[a], TokSeq[b], TokSeq[c]>>)))
=============================================================================
