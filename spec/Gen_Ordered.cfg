SPECIFICATION Spec
CONSTANTS
  TU = 1
  Jit = 0
  NeMissing = FALSE
  PrefixPairs <- mcPrefixPairs
  TopicNames = {"t1", "t2"}
  SubNames = {"s1", "s2", "s3", "s4"}
  SnapNames = {}
  SubCfgs <- mcSubCfgs
  MsgKinds <- mcMsgKinds
  BatchMax = 3
  MaxMsgs = 9
  MaxTopics = 2
  MaxSubs = 4
  MaxDels = 40
  MaxTime = 300
  TickDs = {1, 3, 5, 13, 30}
  PullMaxes = {1, 2, 3, 10}
  AckMax = 2
  ModSecs = {0, 4}
  JobAges = {0, 6}
  JobMaxes = {1, 100}
  Ops <- mcOps
  Setup <- mcSetup
  ProjOfName <- mcProjOfName
  Depth = 30
  AttBound = 100
  ViewKeep = {}
  RealBackoff = FALSE
  GenBFS = FALSE
  AckAll = FALSE
  Weights <- mcWeights
CHECK_DEADLOCK FALSE
