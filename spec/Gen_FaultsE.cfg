SPECIFICATION GenSpec
CONSTANTS
  Callers <- geCallers
  CallChoices <- geCallChoices
  InitChoices <- geInitChoices
  LatePool <- mcLatePool
  FirstMatch = TRUE
  RT = FALSE
  Reduce = FALSE
CHECK_DEADLOCK FALSE
