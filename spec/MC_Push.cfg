SPECIFICATION FairSpec
CONSTANTS
  Msgs = {1, 2, 3}
  WCap = 4
  Dec = 2
  Slack = 0
  MaxAtt = 3
  Classes = {"ok", "okslow", "fail", "err"}
  Scripts <- mcScripts
INVARIANT WindowOK
PROPERTIES WithinWindow AckedIsFinal AllAcked
CHECK_DEADLOCK FALSE
