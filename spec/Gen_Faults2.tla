---------------------------- MODULE Gen_Faults2 ----------------------------
(* EVERY schedule of two racing callers (exhaustive enumeration of paths):   *)
(* two overlapping descriptions in both list orders, counts 1..2.            *)
EXTENDS FaultsGen
g2Callers == 1..2
g2Kinds == <<KSuper, KOtherV, KOtherOp>>
g2CallChoices == {[c \in g2Callers |-> g2Kinds[f[c]]] :
                    f \in {g \in [g2Callers -> DOMAIN g2Kinds] : g[1] <= g[2]}}
g2InitChoices == {<<DT(1), DA(1), DO(1)>>, <<DA(1), DT(1), DO(1)>>, <<DT(2), DA(1)>>, <<DA(2), DT(1)>>, <<DT(1)>>}
=============================================================================
