------------------------------ MODULE Interval ------------------------------
(***************************************************************************)
(* C17 (stored-duration codec): reference VALUE of a PostgreSQL-style      *)
(* interval and of a Go duration string.                                   *)
(*                                                                         *)
(* A PostgreSQL interval (output style "postgres") is                      *)
(*     [Y year[s]] [M mon[s]] [D day[s]] [-]HH:MM:SS[.ffffff]              *)
(* where each of Y, M, D carries its own sign and the sign in front of the *)
(* time part applies to the WHOLE time part.  The code documents           *)
(* 1 year = 365 days, 1 month = 30 days, 1 day = 24 hours.                 *)
(*                                                                         *)
(* A record is                                                             *)
(*   [y, mo, d : [p |-> present, v |-> integer], tneg : BOOLEAN,           *)
(*    h, m, s : Nat, fd : 0..9 (number of sub-second digits), fv : Nat     *)
(*    (the digits read as an integer)]                                     *)
(* and its value is [h |-> 0, s |-> seconds, n |-> nanoseconds] (TLC       *)
(* integers are 32 bit; value = h*3600e9 + s*1e9 + n nanoseconds).  The    *)
(* harness renders the record as PostgreSQL prints it and compares         *)
(* sqltypes.ParsePostgreSQLInterval / Interval.Scan with the value; and    *)
(* checks Scan(Value(d)) = d for every enumerated value d.                 *)
(*                                                                         *)
(* Go duration strings [-][Hh][Mm][S[.f]s | f ms | us | ns] likewise.      *)
(*                                                                         *)
(* Mode "pg": one state per interval record (indexed full product, Picks   *)
(* selects); mode "go": one state per duration string record.              *)
(***************************************************************************)
EXTENDS Integers, Sequences, FiniteSets, TLC, Json

CONSTANTS Mode, Picks, Stride, Offset

Day == 86400
Month == 30 * Day
Year == 365 * Day

RECURSIVE Pow10(_)
Pow10(n) == IF n = 0 THEN 1 ELSE 10 * Pow10(n - 1)

None == [p |-> FALSE, v |-> 0]
Of(x) == [p |-> TRUE, v |-> x]
Part(c, unit) == IF c.p THEN c.v * unit ELSE 0

\* THE REFERENCE
PgValue(r) ==
  LET date == Part(r.y, Year) + Part(r.mo, Month) + Part(r.d, Day)
      t == r.h * 3600 + r.m * 60 + r.s
      n == r.fv * Pow10(9 - r.fd)
      sg == IF r.tneg THEN -1 ELSE 1
  IN [h |-> 0, s |-> date + sg * t, n |-> sg * n]

Ys  == <<None, Of(1), Of(2), Of(-1), Of(67)>>
Mos == <<None, Of(1), Of(11), Of(-2)>>
Ds  == <<None, Of(1), Of(29), Of(-3)>>
Hs  == <<0, 4, 23, 100>>
Ms  == <<0, 5, 59>>
Ss  == <<0, 6, 59>>
\* <<digits, value>>: "", .5, .05, .007, .0070, .00700, .007008, .0070080, .00700800, .007008009,
\* .999, .999999, .999999999
Fs  == << <<0, 0>>, <<1, 5>>, <<2, 5>>, <<3, 7>>, <<4, 70>>, <<5, 700>>, <<6, 7008>>, <<7, 70080>>,
          <<8, 700800>>, <<9, 7008009>>, <<3, 999>>, <<6, 999999>>, <<9, 999999999>> >>
Radix == <<Len(Ys), Len(Mos), Len(Ds), 2, Len(Hs), Len(Ms), Len(Ss), Len(Fs)>>
RECURSIVE ProdTo(_)
ProdTo(n) == IF n = 0 THEN 1 ELSE Radix[n] * ProdTo(n - 1)
NPg == ProdTo(Len(Radix))
Digit(i, n) == ((i \div ProdTo(n - 1)) % Radix[n]) + 1
PicksAll == 0..(NPg - 1)
PicksStride == {i \in PicksAll : i % Stride = Offset}
PgRec(i) ==
  [y |-> Ys[Digit(i, 1)], mo |-> Mos[Digit(i, 2)], d |-> Ds[Digit(i, 3)], tneg |-> Digit(i, 4) = 2,
   h |-> Hs[Digit(i, 5)], m |-> Ms[Digit(i, 6)], s |-> Ss[Digit(i, 7)],
   fd |-> Fs[Digit(i, 8)][1], fv |-> Fs[Digit(i, 8)][2]]

(***************************************************************************)
(* Go duration strings: [neg, h, m : optional, tail : one of the seconds / *)
(* sub-second forms].  Value in [h, s, n] (hours may exceed 32-bit seconds)*)
(***************************************************************************)
\* tail forms: [txt |-> how it is written, s |-> seconds, n |-> nanoseconds]
Tails == << [txt |-> "",               s |-> 0,  n |-> 0],
            [txt |-> "3s",             s |-> 3,  n |-> 0],
            [txt |-> "16.854775807s",  s |-> 16, n |-> 854775807],
            [txt |-> "0.000000001s",   s |-> 0,  n |-> 1],
            [txt |-> "59.999999999s",  s |-> 59, n |-> 999999999],
            [txt |-> "1.5ms",          s |-> 0,  n |-> 1500000],
            [txt |-> "999ns",          s |-> 0,  n |-> 999],
            [txt |-> "1us",            s |-> 0,  n |-> 1000],
            [txt |-> "1{micro}s",      s |-> 0,  n |-> 1000],   \* {micro} = U+00B5 (TLC output is ASCII)
            [txt |-> "0.5s",           s |-> 0,  n |-> 500000000] >>
GoHs == <<None, Of(1), Of(100), Of(2562047)>>
GoMs == <<None, Of(2), Of(47)>>
GoValue(g) ==
  LET sg == IF g.neg THEN -1 ELSE 1 IN
  [h |-> sg * Part(g.h, 1), s |-> sg * (Part(g.m, 60) + Tails[g.tail].s), n |-> sg * Tails[g.tail].n]
GoRecs == {g \in [neg : BOOLEAN, h : {GoHs[i] : i \in 1..Len(GoHs)}, m : {GoMs[i] : i \in 1..Len(GoMs)},
                  tail : 1..Len(Tails)] : g.h.p \/ g.m.p \/ g.tail # 1}

VARIABLE c

Init ==
  IF Mode = "pg"
  THEN \E i \in Picks : /\ i \in 0..(NPg - 1)
                        /\ c = [kind |-> "pg", id |-> i, rec |-> PgRec(i), want |-> PgValue(PgRec(i))]
                        /\ PrintT(<<"CASE", ToJson(c)>>)
  ELSE \E g \in GoRecs : /\ c = [kind |-> "go", rec |-> [g EXCEPT !.tail = Tails[g.tail].txt], want |-> GoValue(g)]
                         /\ PrintT(<<"CASE", ToJson(c)>>)
Next == UNCHANGED c
Spec == Init /\ [][Next]_c

(***************************************************************************)
(* Theorems of the reference (checked on every enumerated state)           *)
(***************************************************************************)
\* the sign of the time part governs seconds-of-time and fraction alike
SignOK == c.kind = "pg" =>
            LET r == c.rec
                date == Part(r.y, Year) + Part(r.mo, Month) + Part(r.d, Day) IN
            /\ (r.tneg => c.want.n <= 0 /\ c.want.s <= date)
            /\ (~r.tneg => c.want.n >= 0 /\ c.want.s >= date)
            /\ c.want.n > -1000000000 /\ c.want.n < 1000000000
=============================================================================
