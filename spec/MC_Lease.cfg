SPECIFICATION Spec
CONSTANTS
  TU = 1
  Jit = 0
  NeMissing = FALSE
  PrefixPairs = {}
  TopicNames = {"t1"}
  SubNames = {"s1"}
  SnapNames = {}
  SubCfgs = {}
  MsgKinds <- mcMsgKinds
  BatchMax = 2
  MaxMsgs = 2
  MaxTopics = 1
  MaxSubs = 1
  MaxDels = 2
  MaxTime = 7
  TickDs = {1, 2}
  PullMaxes = {1, 2}
  AckMax = 2
  ModSecs = {0, 3}
  JobAges = {0}
  JobMaxes = {1}
  Ops <- mcOps
  Setup <- mcSetup
  ProjOfName <- mcProjOfName
  Depth = 0
  AttBound = 3
  ViewKeep = {}
  RealBackoff = FALSE
  GenBFS = FALSE
  AckAll = TRUE
  Weights <- mcWeights
INVARIANTS InvOK AckedStaysAcked AttemptsBounded OneLivePerName
PROPERTIES StepProp NoLoss OrderKept LeaseKept
VIEW View
CONSTRAINT Bounded
CHECK_DEADLOCK FALSE
