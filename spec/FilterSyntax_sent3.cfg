\* FilterSyntax, mode "sent3" (C08).  checks/filter.py rewrites Shard / NShards /
\* Depth2 / AllKinds per tier and runs one TLC per shard.
CONSTANTS
  Mode = "sent3"
  Depth2 = 2
  Shard = 0
  NShards = 16
  AllKinds = FALSE
