------------------------------ MODULE MC_Names ------------------------------
(* C12: create / delete / re-create / get / list over two topic names, two  *)
(* subscription names and one snapshot name in two projects, with publishes *)
(* and pulls across delete and re-create.                                   *)
EXTENDS BusModel
Cfg0 == [ttl |-> 50, mttl |-> 20, ord |-> FALSE, filt |-> NoFilter, minB |-> 2, maxB |-> 2,
         dlt |-> "", maxAtt |-> 0, push |-> "", labels |-> <<>>]
C1 == [name |-> "s1", topic |-> "t1", cfg |-> Cfg0]
C2 == [name |-> "A_s1", topic |-> "A_t1", cfg |-> Cfg0]
C3 == [name |-> "s1", topic |-> "A_t1", cfg |-> [Cfg0 EXCEPT !.ord = TRUE]]
mcTopicNames == {"t1", "A_t1"}
mcSubNames == {"s1", "A_s1"}
mcSnapNames == {"n1"}
mcSubCfgs == {C1, C2, C3}
mcSetup == <<>>
mcMsgKinds == { [key |-> "", attrs |-> <<>>] }
mcPrefixPairs == {}
mcBatchMax == 1
mcTickDs == {1}
mcPullMaxes == {1}
mcJobAges == {0}
mcJobMaxes == {1}
mcProjOfName == [n \in {"A_t1", "A_s1"} |-> "A"]
mcWeights == <<>>
mcOps == {"CreateTopic", "DeleteTopic", "CreateSub", "DeleteSub", "CreateSnap", "DeleteSnap", "Get", "List"}
=============================================================================
