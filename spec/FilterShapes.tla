---------------------------- MODULE FilterShapes ----------------------------
(***************************************************************************)
(* Shared by FilterEnum (C07) and FilterSyntax (C08): the bounded set of   *)
(* filter *shapes*.  A shape is an abstract syntax tree in the record      *)
(* format of Filter.tla whose leaves are numbered holes                    *)
(*   [op |-> "hole", i |-> n]                                              *)
(* and which is GRAMMAR-SHAPED, i.e. it is a derivation tree of            *)
(*   Condition ::= Term ((AND Term)+ | (OR Term)+)?                        *)
(*   Term      ::= (NOT | -)? (Basic | "(" Condition ")")                  *)
(* with  and/or = the operator sequences (2 or 3 operands here),           *)
(*       par    = a parenthesised Condition,                               *)
(*       not    = the optional negation of a Term (its operand is a hole   *)
(*                or a par, never another not and never a bare and/or).    *)
(*                                                                         *)
(* Bounds.  k = number of leaves (1..3).  d = nesting depth counted in     *)
(* Condition levels: d = 1 has no parentheses, d = 2 has parenthesised     *)
(* Conditions without further parentheses inside, and so on.               *)
(* red = TRUE admits every placement of parentheses the grammar allows     *)
(* (also around a single Term and doubled); red = FALSE admits only the    *)
(* parentheses that group an AND/OR sequence.                              *)
(*                                                                         *)
(* Measured sizes (TLC): |CondS(TRUE,3,1,0)| = 14, |CondS(TRUE,2,2,0)| = 88,*)
(* |CondS(TRUE,3,2,0)| = 568, |Shapes3| = 288.                             *)
(***************************************************************************)
EXTENDS Integers, Sequences, FiniteSets

Hole(i) == [op |-> "hole", i |-> i]
Not(x)  == [op |-> "not", x |-> x]
Par(x)  == [op |-> "par", x |-> x]

RECURSIVE TermS(_, _, _, _), CondS(_, _, _, _), AndOrS(_, _, _, _)

\* Terms with k leaves numbered off+1 .. off+k, nesting depth <= d
TermS(red, d, k, off) ==
  (IF k = 1 THEN {Hole(off + 1), Not(Hole(off + 1))} ELSE {})
  \cup (IF d > 1
        THEN LET inner == IF red THEN CondS(red, d - 1, k, off) ELSE AndOrS(red, d - 1, k, off)
             IN {Par(c) : c \in inner} \cup {Not(Par(c)) : c \in inner}
        ELSE {})

\* AND / OR sequences of Terms with k leaves in total
AndOrS(red, d, k, off) ==
  IF k = 2 THEN
    {[op |-> o, xs |-> <<x, y>>] : o \in {"and", "or"},
        x \in TermS(red, d, 1, off), y \in TermS(red, d, 1, off + 1)}
  ELSE IF k = 3 THEN
    {[op |-> o, xs |-> <<x, y>>] : o \in {"and", "or"},
        x \in TermS(red, d, 1, off), y \in TermS(red, d, 2, off + 1)}
    \cup {[op |-> o, xs |-> <<x, y>>] : o \in {"and", "or"},
        x \in TermS(red, d, 2, off), y \in TermS(red, d, 1, off + 2)}
    \cup {[op |-> o, xs |-> <<x, y, z>>] : o \in {"and", "or"},
        x \in TermS(red, d, 1, off), y \in TermS(red, d, 1, off + 1), z \in TermS(red, d, 1, off + 2)}
  ELSE {}

CondS(red, d, k, off) == TermS(red, d, k, off) \cup AndOrS(red, d, k, off)

\* The three-leaf family: grouping parentheses only, depth <= 3, and the
\* negated whole  NOT ( ... )  (the De Morgan shapes).
Shapes3 == AndOrS(FALSE, 3, 3, 0) \cup {Not(Par(c)) : c \in AndOrS(FALSE, 2, 3, 0)}

\* Replace hole n by ls[n].
RECURSIVE Fill(_, _)
Fill(s, ls) ==
  CASE s.op = "hole" -> ls[s.i]
    [] s.op \in {"not", "par"} -> [op |-> s.op, x |-> Fill(s.x, ls)]
    [] OTHER -> [op |-> s.op, xs |-> [i \in DOMAIN s.xs |-> Fill(s.xs[i], ls)]]

\* A deterministic order on a finite set of shapes is not available in TLA+;
\* shards are therefore cut on leaf indices, never on shapes.
=============================================================================
