--------------------------- MODULE FaultsTraceDiag ---------------------------
(* FaultsTraceRun with progress output: the largest line index printed is    *)
(* the last line of a rejected trace that some behaviour of the model could  *)
(* still produce.                                                            *)
EXTENDS FaultsTraceRun
=============================================================================
