------------------------------ MODULE Gen_Snap ------------------------------
(* Family "snap" (C13, C02, C01): two sibling subscriptions of one topic,   *)
(* batched publishes, single-id (hence out-of-order) acks, snapshots of     *)
(* either subscription and seeks of either subscription to them.            *)
EXTENDS BusModel
Cfg0 == [ttl |-> 600, mttl |-> 80, ord |-> FALSE, filt |-> NoFilter, minB |-> 2, maxB |-> 3,
         dlt |-> "", maxAtt |-> 0, push |-> "", labels |-> <<>>]
C1 == [name |-> "s1", topic |-> "t1", cfg |-> Cfg0]
C2 == [name |-> "s2", topic |-> "t1", cfg |-> Cfg0]
mcTopicNames == {"t1"}
mcSubNames == {"s1", "s2"}
mcSnapNames == {"n1", "n2"}
mcSubCfgs == {C1, C2}
mcSetup == << [op |-> "CreateTopic", name |-> "t1"], [op |-> "CreateSub", c |-> C1], [op |-> "CreateSub", c |-> C2] >>
mcMsgKinds == { [key |-> "", attrs |-> <<>>] }
mcPrefixPairs == {}
mcTickDs == {1, 3, 5}
mcProjOfName == <<>>
mcOps == {"Publish", "Pull", "Ack", "SeekTime", "CreateSnap", "SeekSnap", "DeleteSnap", "Tick"}
W0 == [op \in mcOps |-> 1]
mcWeights == [W0 EXCEPT !["Publish"] = 6, !["Pull"] = 10, !["Ack"] = 9, !["SeekTime"] = 2, !["CreateSnap"] = 5,
                        !["SeekSnap"] = 6, !["Tick"] = 4]
=============================================================================
