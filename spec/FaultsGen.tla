----------------------------- MODULE FaultsGen -----------------------------
(* Schedule generation for the gate driver (harness/cmd/faultgate).         *)
(* The behaviours of Faults.tla with a history variable: every step is      *)
(* logged as (caller, step) together with what the model predicts at that   *)
(* point (matched description, remaining count, branch taken, the listing   *)
(* Current() would return after the step).  At quiescence the complete      *)
(* schedule, the calls, the descriptions and the predicted per-caller       *)
(* outcomes / fired counts / final listing are printed once.                *)
(*   exhaustive (BFS, no -simulate): every schedule of the configuration;   *)
(*   -simulate: random schedules.                                           *)
(* Callers start in "Start": the driver takes the invocation stamp when it  *)
(* launches the goroutine at the caller's first Match.                      *)
EXTENDS MC_Faults, Json

CONSTANT Reduce   \* TRUE: partial-order reduction for exhaustive enumeration (see LocalPending)

VARIABLE hist
gvars == <<desc, count, list, pc, call, prunes, fired, hits, avail, expired, clock, startAt, endAt, hist>>

CStep(c, s) == [c |-> c, s |-> s, d |-> pc'[c].d, rem |-> pc'[c].rem, st |-> pc'[c].st, cur |-> Listing']

\* the driver launches the callers itself: they begin in "Start"
GenInit ==
  /\ \E ds \in InitChoices, cls \in CallChoices : InitWith(ds, cls, "Start")
  /\ hist = <<>>

\* Pass, Decide and Finish touch nothing another caller reads (Decide and
\* Finish only write the ghost `fired` and schedule a prune): they commute
\* with every step of the others.  With Reduce a caller that has such a step
\* pending takes it at once, so the enumeration is over the orders of Match,
\* Dec, Prune and Add only.  (Gen_Faults2 enumerates WITHOUT the reduction.)
LocalPending == {c \in Callers : pc[c].st \in {"Decremented", "Fired"}
                                  \/ (pc[c].st = "Matched" /\ pc[c].d = 0)}
MayMove(c) == IF Reduce /\ LocalPending # {}
              THEN c = (CHOOSE x \in LocalPending : \A y \in LocalPending : x <= y)
              ELSE TRUE

CallerGen(c) ==
  \/ Match(c) /\ hist' = Append(hist, CStep(c, "Match"))
  \/ Pass(c) /\ hist' = Append(hist, CStep(c, "Pass"))
  \/ Dec(c) /\ hist' = Append(hist, CStep(c, "Dec"))
  \/ Decide(c) /\ hist' = Append(hist, CStep(c, "Decide"))
  \/ Finish(c) /\ hist' = Append(hist, CStep(c, "Finish"))

GenStep ==
  \/ \E c \in Callers : MayMove(c) /\ CallerGen(c)
  \/ (~Reduce \/ LocalPending = {}) /\ Prune /\ hist' = Append(hist, [c |-> 0, s |-> "Prune", expired |-> expired', cur |-> Listing'])
  \/ \E dsc \in LatePool :
       /\ (~Reduce \/ LocalPending = {})
       /\ \A i \in Ids : desc[i].tag # dsc.tag
       /\ Add(dsc)
       /\ hist' = Append(hist, [c |-> 0, s |-> "Add", desc |-> dsc, cur |-> Listing'])

NAdds == Cardinality({i \in DOMAIN hist : hist[i].s = "Add"})

Emit ==
  /\ PrintT(<<"SCENARIO", ToJson([descs |-> desc, ninit |-> Len(desc) - NAdds, calls |-> call, hist |-> hist,
                                  out |-> [c \in Callers |-> pc[c].d], fired |-> fired,
                                  cur |-> Listing, expired |-> expired])>>)
  /\ hist' = Append(hist, [c |-> 0, s |-> "End"])
  /\ UNCHANGED vars

Emitted == hist # <<>> /\ hist[Len(hist)].s = "End"

GenNext ==
  IF Quiescent THEN (~Emitted /\ Emit)
  ELSE GenStep

GenSpec == GenInit /\ [][GenNext]_gvars
=============================================================================
