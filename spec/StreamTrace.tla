---------------------------- MODULE StreamTrace ----------------------------
(* Validation of traces recorded from real StreamingPull sessions against   *)
(* the contract of module Stream.  Events: Open(fcM, fcB), Publish(ids,     *)
(* sizes), Recv(ids) (one StreamingPullResponse), Ack / Nack / ExtAck(ids), *)
(* Quiet(avail) (the stream sent nothing for the quiescence interval;       *)
(* avail = ids deliverable according to the database), Reset(tr).           *)
EXTENDS Integers, Sequences, FiniteSets, TLC, Json

CONSTANT TraceFile
Trace == ndJsonDeserialize(TraceFile)
VARIABLES l, fcM, fcB, size, wire, dead
tvars == <<l, fcM, fcB, size, wire, dead>>

RECURSIVE Sum(_, _)
Sum(sz, X) == IF X = {} THEN 0 ELSE LET x == CHOOSE y \in X : TRUE IN sz[x] + Sum(sz, X \ {x})
Set(q) == {q[i] : i \in DOMAIN q}
BoundOK(sz, W, mM, mB) == Cardinality(W) <= mM /\ (Sum(sz, W) <= mB \/ Cardinality(W) = 1)
Fits(sz, W, m, mM, mB) == Cardinality(W) + 1 <= mM /\ (Sum(sz, W) + sz[m] <= mB \/ W = {})
Viol(e, c, d) == PrintT(ToJson(<<"VIOL", e.tr, e.i, e.op, c, dead, d>>))

TraceInit == l = 1 /\ fcM = 0 /\ fcB = 0 /\ size = <<>> /\ wire = {} /\ dead = {}

TraceNext ==
  /\ l <= Len(Trace) /\ l' = l + 1
  /\ LET e == Trace[l] IN
     CASE e.op = "Reset" ->
            /\ fcM' = 0 /\ fcB' = 0 /\ size' = <<>> /\ wire' = {} /\ dead' = {}
            /\ PrintT(ToJson(<<"TRACE", e.tr>>))
       [] e.op = "Open" -> fcM' = e.fcM /\ fcB' = e.fcB /\ UNCHANGED <<size, wire, dead>>
       [] e.op = "Publish" ->
            /\ size' = [m \in DOMAIN size \cup Set(e.ids) |->
                          IF m \in DOMAIN size THEN size[m]
                          ELSE e.sizes[CHOOSE i \in DOMAIN e.ids : e.ids[i] = m]]
            /\ UNCHANGED <<fcM, fcB, wire, dead>>
       [] e.op = "Recv" ->
            LET W == wire \cup Set(e.ids) IN
            /\ wire' = W
            /\ (~BoundOK(size, W, fcM, fcB)) =>
                 Viol(e, IF Cardinality(W) > fcM THEN "C11:over-max-outstanding-messages"
                         ELSE "C11:over-max-outstanding-bytes",
                      ToJson([n |-> Cardinality(W), bytes |-> Sum(size, W), fcM |-> fcM, fcB |-> fcB]))
            /\ (Set(e.ids) \cap dead # {}) => Viol(e, "C03:stream-redelivers-acked", "")
            /\ UNCHANGED <<fcM, fcB, size, dead>>
       [] e.op \in {"Ack", "ExtAck"} ->
            /\ wire' = wire \ Set(e.ids) /\ dead' = dead \cup Set(e.ids)
            /\ UNCHANGED <<fcM, fcB, size>>
       \* Nack: the client gave the message back; Expire: its retention ran out while outstanding -
       \* either way it no longer counts against the limits ("acknowledged, nacked or expired")
       [] e.op \in {"Nack", "Expire"} ->
            /\ wire' = wire \ Set(e.ids) /\ UNCHANGED <<fcM, fcB, size, dead>>
       [] e.op = "Quiet" ->
            /\ LET stalled == {m \in Set(e.avail) \ wire : Fits(size, wire, m, fcM, fcB)} IN
               (stalled # {}) =>
                 Viol(e, "C11:stall",
                      \* head-of-line: some OTHER deliverable message does not fit the remaining
                      \* budget (the stream's size-blind fetch window never gets past it)
                      IF \A m \in stalled : size[m] > fcB THEN "oversized-alone"
                      ELSE IF \E o \in Set(e.avail) \ wire : ~Fits(size, wire, o, fcM, fcB)
                      THEN "head-of-line"
                      ELSE "plain")
            /\ UNCHANGED <<fcM, fcB, size, wire, dead>>
       [] OTHER -> UNCHANGED <<fcM, fcB, size, wire, dead>>

TraceSpec == TraceInit /\ [][TraceNext]_tvars
Consumed == (l = Len(Trace) + 1) => PrintT(ToJson(<<"CONSUMED", Len(Trace)>>))
=============================================================================
