---------------------------- MODULE BFS_BlockedDL ----------------------------
(* Bounded exhaustive histories executed with BLOCKING pulls on a dead-        *)
(* lettering subscription: the attempt budget is changed (1 <-> 3) while a     *)
(* pull waits, a zero deadline then makes the delivered message due again.     *)
(* The waiting pull must judge "over budget" by the policy in force when it    *)
(* hands out or forwards, not by the one it read before it went to sleep.      *)
EXTENDS BusModel
Cfg0 == [ttl |-> 600, mttl |-> 400, ord |-> FALSE, filt |-> NoFilter, minB |-> 20, maxB |-> 30,
         dlt |-> "t2", maxAtt |-> 1, push |-> "", labels |-> <<>>]
C1 == [name |-> "s1", topic |-> "t1", cfg |-> Cfg0]
C3 == [name |-> "s1", topic |-> "t1", cfg |-> [Cfg0 EXCEPT !.maxAtt = 3]]
C2 == [name |-> "s2", topic |-> "t2", cfg |-> [Cfg0 EXCEPT !.dlt = "", !.maxAtt = 0]]
mcSubCfgs == {C1, C3}
mcSetup == << [op |-> "CreateTopic", name |-> "t1"], [op |-> "CreateTopic", name |-> "t2"],
              [op |-> "CreateSub", c |-> C1], [op |-> "CreateSub", c |-> C2],
              [op |-> "Publish", topic |-> "t1", msgs |-> << [key |-> "", attrs |-> <<>>] >>] >>
mcMsgKinds == { [key |-> "", attrs |-> <<>>] }
mcProjOfName == <<>>
mcPrefixPairs == {}
mcWeights == <<>>
mcOps == {"UpdateDL", "Pull", "ModAck"}
=============================================================================
