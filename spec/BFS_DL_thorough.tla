------------------------------- MODULE BFS_DL_thorough --------------------------
(* Bounded exhaustive histories around dead-lettering: s1 on t1 forwards to  *)
(* t2 after ONE delivery; s2 listens on t2.  Every sequence of publish,      *)
(* pull, nack, sweep and a clock step past the backoff of the given length:  *)
(* all three dead-letter paths (pull-time, nack, sweep) occur, each of them  *)
(* also under fault injection at every database interaction (C09, C06).      *)
EXTENDS BusModel
Cfg0 == [ttl |-> 600, mttl |-> 200, ord |-> FALSE, filt |-> NoFilter, minB |-> 2, maxB |-> 3,
         dlt |-> "", maxAtt |-> 0, push |-> "", labels |-> <<>>]
C1 == [name |-> "s1", topic |-> "t1", cfg |-> [Cfg0 EXCEPT !.dlt = "t2", !.maxAtt = 1]]
C2 == [name |-> "s2", topic |-> "t2", cfg |-> Cfg0]
mcSubCfgs == {C1, C2}
mcSetup == << [op |-> "CreateTopic", name |-> "t1"], [op |-> "CreateTopic", name |-> "t2"],
              [op |-> "CreateSub", c |-> C1], [op |-> "CreateSub", c |-> C2] >>
mcMsgKinds == { [key |-> "", attrs |-> <<>>] }
mcProjOfName == <<>>
mcWeights == <<>>
mcOps == {"Publish", "Pull", "Nack", "DLSweep", "Tick", "DeleteTopic"}
Shape == (S.ph = Len(Setup) /\ S.nm = 0) => ev'.op = "Publish"
=============================================================================
