---------------------------- MODULE Gen_Faults3 ----------------------------
(* Random schedules (-simulate) of three racing callers: five call kinds,    *)
(* two overlapping descriptions in both list orders with counts 1..3, a      *)
(* description for another operation, and two descriptions that are added    *)
(* while the calls run.                                                      *)
EXTENDS FaultsGen
g3Callers == 1..3
g3CallChoices == [g3Callers -> Range(Kinds)]
g3InitChoices == UNION {{<<DT(a), DA(b), DO(1)>>, <<DA(b), DT(a), DO(1)>>, <<DT(a), DA(b)>>, <<DA(b)>>, <<DT(a)>>} : a \in 1..3, b \in 1..3}
g3LatePool == {[tag |-> "dL1", op |-> "Publish", params |-> <<>>, n |-> 1],
               [tag |-> "dL2", op |-> "Publish", params |-> [topic |-> "t1"], n |-> 2]}
=============================================================================
