-------------------------------- MODULE Push --------------------------------
(***************************************************************************)
(* C19 - HTTP push.  One push subscription, a set of messages, an endpoint *)
(* that answers each push with a response class.  The pusher keeps an      *)
(* adaptive window w (AIMD: +1 per fast success, -1 per slow success,      *)
(* -Dec per failure (Dec = 10), clamped to 1..WCap; 1000 in the            *)
(* implementation).  The lower clamp matters exactly when w = k * Dec.     *)
(*                                                                         *)
(*   state of a message:  "due" -> (Push) "flight" -> (Respond)            *)
(*        success -> "acked"  (never pushed again)                         *)
(*        anything else -> "backoff" -> (Retry, after the backoff) "due"   *)
(*                                                                         *)
(* Success = final status 200, 201, 202 or 204 (102 is an informational    *)
(* response that Go's HTTP client never surfaces as final).  Every other   *)
(* final status and every transport error is a failure.                    *)
(***************************************************************************)
EXTENDS Integers, Sequences, FiniteSets, TLC, Json

CONSTANTS Msgs, WCap, Dec, Slack, MaxAtt, Classes, Scripts   \* Dec: window decrease per failure (10 in the implementation)

SuccessCodes == {200, 201, 202, 204}
IsSuccessClass(c) == c \in {"ok", "okslow"}

VARIABLES st, att, w, script, pushedAfterAck
vars == <<st, att, w, script, pushedAfterAck>>

InFlight == {m \in Msgs : st[m] = "flight"}

Init ==
  /\ st = [m \in Msgs |-> "due"] /\ att = [m \in Msgs |-> 0] /\ w = 1
  /\ script \in [Msgs -> Scripts]     \* what the endpoint will answer to attempt 1, 2, ... of each message
  /\ pushedAfterAck = FALSE

Push(m) ==
  /\ st[m] = "due" /\ Cardinality(InFlight) < w /\ att[m] < MaxAtt
  /\ st' = [st EXCEPT ![m] = "flight"] /\ att' = [att EXCEPT ![m] = @ + 1]
  /\ UNCHANGED <<w, script, pushedAfterAck>>

ClassOf(m) == IF att[m] <= Len(script[m]) THEN script[m][att[m]] ELSE "ok"

Respond(m) ==
  /\ st[m] = "flight"
  /\ LET c == ClassOf(m) IN
     /\ st' = [st EXCEPT ![m] = IF IsSuccessClass(c) THEN "acked" ELSE "backoff"]
     /\ w' = CASE c = "ok" -> IF w < WCap THEN w + 1 ELSE w
               [] c = "okslow" -> IF w > 1 THEN w - 1 ELSE 1
               [] OTHER -> IF w > Dec - Slack THEN w - Dec ELSE 1   \* Slack = 1: a wrong lower clamp (non-vacuity variant)
  /\ UNCHANGED <<att, script, pushedAfterAck>>

Retry(m) == st[m] = "backoff" /\ st' = [st EXCEPT ![m] = "due"] /\ UNCHANGED <<att, w, script, pushedAfterAck>>

Next == \E m \in Msgs : Push(m) \/ Respond(m) \/ Retry(m)
Spec == Init /\ [][Next]_vars
FairSpec == Spec /\ \A m \in Msgs : WF_vars(Push(m)) /\ WF_vars(Respond(m)) /\ WF_vars(Retry(m))

WindowOK == w >= 1 /\ w <= WCap
\* at the moment of a push the number in flight (including it) is within the window
WithinWindow == [][\A m \in Msgs : (st[m] # "flight" /\ st'[m] = "flight") => Cardinality({x \in Msgs : st'[x] = "flight"}) <= w]_vars
AckedIsFinal == [][\A m \in Msgs : st[m] = "acked" => st'[m] = "acked"]_vars
\* every message whose script eventually answers success is eventually acknowledged
AllAcked == \A m \in Msgs : <>(st[m] = "acked" \/ att[m] = MaxAtt)

\* generation: print the script assignment of the initial state
EmitScript == PrintT(<<"SCENARIO", ToJson([m \in Msgs |-> script[m]])>>)
=============================================================================
