----------------------------- MODULE MC_ImplSnap_thorough -----------------------------
(* Mechanism vs contract: ordering chain x snapshot encoding.  Ordered s1 and *)
(* plain sibling s2 on one topic, up to three messages (key K or none), no    *)
(* clock advance.                                                             *)
EXTENDS BusImpl
Cfg0 == [ttl |-> 50, mttl |-> 6, ord |-> FALSE, filt |-> NoFilter, minB |-> 2, maxB |-> 2,
         dlt |-> "", maxAtt |-> 0, push |-> "", labels |-> <<>>]
mcTopics == <<"t1">>
mcSubs == << [name |-> "s1", topic |-> "t1", cfg |-> [Cfg0 EXCEPT !.ord = TRUE]],
             [name |-> "s2", topic |-> "t1", cfg |-> Cfg0] >>
mcMsgKinds == { [key |-> "", attrs |-> <<>>], [key |-> "K", attrs |-> <<>>] }
mcOps == {"Publish", "Pull", "Ack", "CreateSnap", "SeekSnap"}
=============================================================================
