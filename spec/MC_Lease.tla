------------------------------ MODULE MC_Lease ------------------------------
(* C01/C03/C04/C14: one topic, one plain subscription, two messages,       *)
(* backoff 2 then 3, retention 5, every order of publish / pull / ack /    *)
(* modify-deadline / nack / clock advance.                                 *)
EXTENDS BusModel
Cfg0 == [ttl |-> 20, mttl |-> 5, ord |-> FALSE, filt |-> NoFilter, minB |-> 2, maxB |-> 3,
         dlt |-> "", maxAtt |-> 0, push |-> "", labels |-> <<>>]
C1 == [name |-> "s1", topic |-> "t1", cfg |-> Cfg0]
mcSetup == << [op |-> "CreateTopic", name |-> "t1"], [op |-> "CreateSub", c |-> C1] >>
mcMsgKinds == { [key |-> "", attrs |-> <<>>] }
mcWeights == [op \in {} |-> 1]
mcProjOfName == <<>>
mcOps == {"Publish", "Pull", "Ack", "ModAck", "Nack", "Tick"}
=============================================================================
