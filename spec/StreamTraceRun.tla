--------------------------- MODULE StreamTraceRun ---------------------------
EXTENDS StreamTrace
TraceFileName == "trace.ndjson"
=============================================================================
