---------------------------- MODULE Gen_Faults3x ----------------------------
(* EVERY order of the Match / Dec / Prune steps of three racing callers     *)
(* (exhaustive enumeration of paths with the reduction of FaultsGen):       *)
(* three call kinds, two overlapping descriptions, counts 1..2, both list   *)
(* orders.                                                                  *)
EXTENDS FaultsGen
x3Callers == 1..3
x3Kinds == <<KSuper, KOtherV, KOtherOp>>
x3CallChoices == {[c \in x3Callers |-> x3Kinds[f[c]]] :
                    f \in {g \in [x3Callers -> DOMAIN x3Kinds] : \A c \in x3Callers : c > 1 => g[c - 1] <= g[c]}}
x3InitChoices == {<<DT(1), DA(1), DO(1)>>, <<DA(1), DT(1)>>, <<DT(2), DA(1)>>, <<DA(2), DT(1)>>, <<DT(1)>>, <<DT(2)>>}
=============================================================================
