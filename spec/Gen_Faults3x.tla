---------------------------- MODULE Gen_Faults3x ----------------------------
(* EVERY schedule (exhaustive enumeration of paths) of three racing callers  *)
(* that all match both overlapping descriptions, counts 1 and 2, both list   *)
(* orders: the thorough tier's complete coverage of the three-way race.      *)
EXTENDS FaultsGen
x3Callers == 1..3
x3CallChoices == {[c \in x3Callers |-> KSuper], [c \in x3Callers |-> IF c = 3 THEN KOtherV ELSE KExact]}
x3InitChoices == {<<DT(1), DA(1)>>, <<DA(1), DT(1)>>, <<DT(2)>>}
=============================================================================
