------------------------------- MODULE Stream -------------------------------
(***************************************************************************)
(* C11 - a streaming pull honours the client's flow control and keeps      *)
(* flowing.  Contract level: what a client of one StreamingPull can        *)
(* observe.                                                                *)
(*                                                                         *)
(*   onWire : messages sent on the stream and not yet acknowledged, nacked *)
(*            (on the stream or by an Acknowledge outside it) or expired   *)
(*   avail  : messages deliverable on the subscription right now           *)
(*                                                                         *)
(* Safety (checked at every message the client receives):                  *)
(*     |onWire| <= maxMsgs  /\  (bytes(onWire) <= maxBytes \/ |onWire| = 1)*)
(* No stall (checked whenever the stream has gone quiet after a change):   *)
(*     no deliverable message fits, where m fits iff                       *)
(*     |onWire| + 1 <= maxMsgs /\ (bytes(onWire) + size(m) <= maxBytes     *)
(*                                 \/ onWire = {})                         *)
(*                                                                         *)
(* The same module is the scenario generator (-simulate): a small model of *)
(* a conforming stream plus the client's and a publisher's actions; the    *)
(* history of CLIENT-side actions is printed and replayed against the real *)
(* gRPC StreamingPull; what the real stream sends is recorded and checked  *)
(* by StreamTrace.                                                         *)
(***************************************************************************)
EXTENDS Integers, Sequences, FiniteSets, TLC, Json

CONSTANTS MaxMsgsSet, MaxBytesSet, Sizes, MaxPub, Depth

VARIABLES fcM, fcB, size, st, hist
\* st : message index -> "avail" | "wire" | "done"
vars == <<fcM, fcB, size, st, hist>>

Msgs == DOMAIN st
OnWire == {m \in Msgs : st[m] = "wire"}
Avail == {m \in Msgs : st[m] = "avail"}
RECURSIVE SumSize(_, _)
SumSize(sz, X) == IF X = {} THEN 0 ELSE LET x == CHOOSE y \in X : TRUE IN sz[x] + SumSize(sz, X \ {x})

BoundOK(sz, W, mM, mB) == Cardinality(W) <= mM /\ (SumSize(sz, W) <= mB \/ Cardinality(W) = 1)
Fits(sz, W, m, mM, mB) == Cardinality(W) + 1 <= mM /\ (SumSize(sz, W) + sz[m] <= mB \/ W = {})

Init ==
  /\ fcM \in MaxMsgsSet /\ fcB \in MaxBytesSet
  /\ size = <<>> /\ st = <<>>
  /\ hist = <<[op |-> "Open", fcM |-> fcM, fcB |-> fcB]>>

Log(e) == hist' = Append(hist, e)

Publish(szs) ==
  /\ Len(st) + Len(szs) <= MaxPub
  /\ size' = size \o szs
  /\ st' = st \o [i \in DOMAIN szs |-> "avail"]
  /\ Log([op |-> "Publish", sizes |-> szs])
  /\ UNCHANGED <<fcM, fcB>>

\* the conforming stream sends one fitting message (internal step, not logged)
Send(m) ==
  /\ st[m] = "avail" /\ Fits(size, OnWire, m, fcM, fcB)
  /\ st' = [st EXCEPT ![m] = "wire"]
  /\ UNCHANGED <<fcM, fcB, size, hist>>

\* client actions address the j-th oldest message on the wire (the real stream
\* may have sent a different set than the model)
NthWire(j) == CHOOSE m \in OnWire : Cardinality({x \in OnWire : x < m}) = j - 1

Act(kind, j, to) ==
  /\ j <= Cardinality(OnWire)
  /\ st' = [st EXCEPT ![NthWire(j)] = to]
  /\ Log([op |-> kind, j |-> j])
  /\ UNCHANGED <<fcM, fcB, size>>

Emit == /\ PrintT(<<"SCENARIO", ToJson(hist)>>)
        /\ hist' = Append(hist, [op |-> "End"]) /\ UNCHANGED <<fcM, fcB, size, st>>

Next ==
  IF Len(hist) >= Depth THEN (Len(hist) = Depth /\ Emit) ELSE
  \/ \E n \in 1..3 : \E szs \in [1..n -> Sizes] : Publish(szs)
  \/ \E m \in Msgs : Send(m)
  \/ \E j \in 1..3 : Act("Ack", j, "done") \/ Act("Nack", j, "avail") \/ Act("ExtAck", j, "done")

Spec == Init /\ [][Next]_vars

\* the generator model itself conforms to the contract
ModelBound == BoundOK(size, OnWire, fcM, fcB)
=============================================================================
