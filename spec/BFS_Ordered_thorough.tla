----------------------------- MODULE BFS_Ordered_thorough ------------------
(* Bounded exhaustive histories on ONE ordered subscription: every sequence  *)
(* of single keyed publishes (one key), pulls, single-id acks, nacks and     *)
(* full rewinds (seek to time 0) of the given length.  Targets the ordering  *)
(* chain being (re)built at publish time while earlier same-key deliveries   *)
(* are completed, revived by a seek, or rescheduled (C05, C13, C03).         *)
EXTENDS BusModel
Cfg0 == [ttl |-> 600, mttl |-> 80, ord |-> TRUE, filt |-> NoFilter, minB |-> 20, maxB |-> 30,
         dlt |-> "", maxAtt |-> 0, push |-> "", labels |-> <<>>]
C1 == [name |-> "s1", topic |-> "t1", cfg |-> Cfg0]
mcSubCfgs == {C1}
\* (the clock moves before the first publish, so that a seek to time 0 is a rewind to before it)
mcSetup == << [op |-> "CreateTopic", name |-> "t1"], [op |-> "CreateSub", c |-> C1], [op |-> "Tick", d |-> 1] >>
mcMsgKinds == { [key |-> "K", attrs |-> <<>>] }
mcProjOfName == <<>>
mcWeights == <<>>
mcOps == {"Publish", "Pull", "Ack", "SeekTime", "ModAck"}
\* the first step publishes; seeks rewind fully
Shape ==
  /\ (S.ph = Len(Setup) /\ S.nm = 0) => ev'.op = "Publish"
  /\ ev'.op = "SeekTime" => ev'.T = 0
=============================================================================
