SPECIFICATION Spec
CONSTANTS
  Callers <- mcCallers
  CallChoices <- mcCallChoices
  InitChoices <- anyInitChoices
  LatePool <- mcLatePool
  FirstMatch = FALSE
  RT = FALSE
INVARIANTS
  TypeOK
  FiredLeN
  OnlyMatching
  NonMatchingNeverFails
  AtMostOne
  Accounting
  ListingOK
  QuiescentListing
  PassedOnlyWhenExhausted
  TermExact
  TermMaximal
  TermSerial
CHECK_DEADLOCK FALSE
