--------------------------- MODULE Gen_DeadLetter ---------------------------
(* Family "deadletter" (C06): N in {1,2,3}, dead-letter topic with several  *)
(* subscribers (filtered, ordered), a chain t1 -> t2 -> t3, a self loop     *)
(* (dead-letter topic = own topic), dead-letter topic deleted mid-way; all  *)
(* orders of pull / nack / modack / ack / tick / sweep.                     *)
EXTENDS BusModel
F_has_a == [op |-> "has", k |-> "a"]
Cfg0 == [ttl |-> 600, mttl |-> 60, ord |-> FALSE, filt |-> NoFilter, minB |-> 2, maxB |-> 3,
         dlt |-> "", maxAtt |-> 0, push |-> "", labels |-> <<>>]
C1 == [name |-> "s1", topic |-> "t1", cfg |-> [Cfg0 EXCEPT !.dlt = "t2", !.maxAtt = 2]]
C2 == [name |-> "s2", topic |-> "t2", cfg |-> [Cfg0 EXCEPT !.dlt = "t3", !.maxAtt = 1, !.mttl = 7]]
C3 == [name |-> "s3", topic |-> "t2", cfg |-> [Cfg0 EXCEPT !.filt = F_has_a, !.ord = TRUE]]
C4 == [name |-> "s4", topic |-> "t3", cfg |-> Cfg0]
C5 == [name |-> "s5", topic |-> "t1", cfg |-> [Cfg0 EXCEPT !.dlt = "t1", !.maxAtt = 3, !.mttl = 9]]
C6 == [name |-> "s6", topic |-> "t1", cfg |-> [Cfg0 EXCEPT !.dlt = "t3", !.maxAtt = 0]]
C7 == [name |-> "s6", topic |-> "t1", cfg |-> [Cfg0 EXCEPT !.dlt = "t2", !.maxAtt = 1, !.mttl = 6]]
mcTopicNames == {"t1", "t2", "t3"}
mcSubNames == {"s1", "s2", "s3", "s4", "s5", "s6"}
mcSnapNames == {}
mcSubCfgs == {C1, C2, C3, C4, C5, C6, C7}
mcSetup == << [op |-> "CreateTopic", name |-> "t1"], [op |-> "CreateTopic", name |-> "t2"],
              [op |-> "CreateTopic", name |-> "t3"],
              [op |-> "CreateSub", c |-> C1], [op |-> "CreateSub", c |-> C2],
              [op |-> "CreateSub", c |-> C3], [op |-> "CreateSub", c |-> C4],
              [op |-> "CreateSub", c |-> C7] >>
mcMsgKinds == { [key |-> "", attrs |-> <<>>], [key |-> "K", attrs |-> [a |-> "x"]], [key |-> "K", attrs |-> <<>>] }
mcPrefixPairs == {<<"x", "">>, <<"x", "x">>}
mcTickDs == {1, 2, 3, 5, 13}
mcProjOfName == <<>>
mcOps == {"Publish", "Pull", "Ack", "ModAck", "Nack", "DLSweep", "Tick", "DeleteTopic", "CreateSub",
          "DeleteSub", "CreateTopic", "SeekTime", "StreamAN", "AckNack"}
W0 == [op \in mcOps |-> 1]
mcWeights == [W0 EXCEPT !["Publish"] = 5, !["Pull"] = 14, !["Ack"] = 2, !["ModAck"] = 3, !["Nack"] = 6, !["StreamAN"] = 4, !["AckNack"] = 4,
                        !["Tick"] = 8, !["DLSweep"] = 5, !["CreateSub"] = 2]
=============================================================================
