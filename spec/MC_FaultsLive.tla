--------------------------- MODULE MC_FaultsLive ---------------------------
(* Liveness: every Check terminates, under weak fairness of every caller's  *)
(* steps (prune and Add need no fairness).  No state constraint: the state  *)
(* space is finite because a caller retries only after a decrement below    *)
(* zero, which makes that description unmatchable for good.                 *)
EXTENDS MC_Faults
lvCallChoices == {[c \in mcCallers |-> Kinds[f[c]]] :
                    f \in {g \in [mcCallers -> {1, 3}] : \A c \in mcCallers : c > 1 => g[c - 1] <= g[c]}}
lvInitChoices == {<<DT(1), DA(1)>>, <<DA(2), DT(1)>>}
lvLatePool == {[tag |-> "dL", op |-> "Publish", params |-> <<>>, n |-> 1]}
=============================================================================
