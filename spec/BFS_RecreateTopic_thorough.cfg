SPECIFICATION Spec
CONSTANTS
  TU = 1
  Jit = 0
  NeMissing = FALSE
  PrefixPairs <- mcPrefixPairs
  TopicNames = {"t1"}
  SubNames = {"s1", "s2"}
  SnapNames = {}
  SubCfgs <- mcSubCfgs
  MsgKinds <- mcMsgKinds
  BatchMax = 1
  MaxMsgs = 3
  MaxTopics = 3
  MaxSubs = 4
  MaxDels = 6
  MaxTime = 100
  TickDs = {1}
  PullMaxes = {10}
  AckMax = 1
  ModSecs = {0}
  JobAges = {0}
  JobMaxes = {1}
  Ops <- mcOps
  Setup <- mcSetup
  ProjOfName <- mcProjOfName
  Depth = 7
  AttBound = 100
  ViewKeep = {}
  RealBackoff = FALSE
  GenBFS = TRUE
  AckAll = FALSE
  Weights <- mcWeights
CHECK_DEADLOCK FALSE
