------------------------------ MODULE Gen_Names ------------------------------
(* Family "names" (C12, C17): create / delete / re-create / get / list over *)
(* topics, subscriptions and snapshots; publishes and pulls across delete   *)
(* and re-create; configuration read back after every change.               *)
EXTENDS BusModel
F_has_a == [op |-> "has", k |-> "a"]
Cfg0 == [ttl |-> 600, mttl |-> 60, ord |-> FALSE, filt |-> NoFilter, minB |-> 2, maxB |-> 3,
         dlt |-> "", maxAtt |-> 0, push |-> "", labels |-> <<>>]
(* Resources named X_... live in another project: A differs from the base  *)
(* project only by case, B is a proper prefix of it, C / D replace its last *)
(* character by the LIKE wildcards _ and %.                                *)
C1 == [name |-> "s1", topic |-> "t1", cfg |-> Cfg0]
C5 == [name |-> "A_s1", topic |-> "A_t1", cfg |-> Cfg0]
C6 == [name |-> "C_s1", topic |-> "t1", cfg |-> Cfg0]
C7 == [name |-> "B_s2", topic |-> "B_t1", cfg |-> Cfg0]
C2 == [name |-> "s1", topic |-> "t2", cfg |-> [Cfg0 EXCEPT !.filt = F_has_a, !.ord = TRUE, !.ttl = 0, !.mttl = 0, !.minB = 0, !.maxB = 0]]
C3 == [name |-> "s2", topic |-> "t1", cfg |-> [Cfg0 EXCEPT !.dlt = "t2", !.maxAtt = 0, !.labels = [x |-> "y"]]]
C4 == [name |-> "s2", topic |-> "t2", cfg |-> [Cfg0 EXCEPT !.dlt = "t1", !.maxAtt = 3, !.minB = 5, !.maxB = 0]]
C8 == [name |-> "s3", topic |-> "t1", cfg |-> Cfg0]
C9 == [name |-> "s4", topic |-> "t2", cfg |-> Cfg0]
mcTopicNames == {"t1", "t2", "t3", "A_t1", "B_t1", "D_t2"}
mcSubNames == {"s1", "s2", "s3", "s4", "A_s1", "C_s1", "B_s2"}
mcSnapNames == {"n1", "n2", "n3", "A_n1"}
mcSubCfgs == {C1, C2, C3, C4, C5, C6, C7, C8, C9}
\* several live resources per project from the start, so that listings span pages
mcSetup == << [op |-> "CreateTopic", name |-> "t1"], [op |-> "CreateTopic", name |-> "t2"],
              [op |-> "CreateTopic", name |-> "t3"], [op |-> "CreateTopic", name |-> "A_t1"],
              [op |-> "CreateSub", c |-> C1], [op |-> "CreateSub", c |-> C3], [op |-> "CreateSub", c |-> C8],
              [op |-> "CreateSub", c |-> C5] >>
mcMsgKinds == { [key |-> "", attrs |-> <<>>], [key |-> "K", attrs |-> [a |-> "x"]] }
mcPrefixPairs == {<<"x", "">>, <<"x", "x">>}
mcTickDs == {1, 5}
mcProjOfName == [n \in {"A_t1", "A_s1", "A_n1"} |-> "A"] @@ [n \in {"B_t1", "B_s2"} |-> "B"] @@
                [n \in {"C_s1"} |-> "C"] @@ [n \in {"D_t2"} |-> "D"]
mcOps == {"CreateTopic", "DeleteTopic", "CreateSub", "DeleteSub", "Publish", "Pull", "Ack", "CreateSnap",
          "DeleteSnap", "SeekSnap", "Get", "List", "Tick", "PruneDeletedSubscriptions", "PruneDeletedTopics",
          "RaceCreate"}
W0 == [op \in mcOps |-> 3]
mcWeights == [W0 EXCEPT !["CreateTopic"] = 4, !["RaceCreate"] = 8, !["CreateSub"] = 8, !["Get"] = 6, !["List"] = 10, !["CreateSnap"] = 5, !["Publish"] = 5,
                        !["Pull"] = 5, !["Tick"] = 2, !["PruneDeletedTopics"] = 1, !["PruneDeletedSubscriptions"] = 1]
=============================================================================
