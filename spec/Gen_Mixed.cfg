SPECIFICATION Spec
CONSTANTS
  TU = 1
  Jit = 0
  NeMissing = FALSE
  PrefixPairs <- mcPrefixPairs
  TopicNames = {"t1", "t2"}
  SubNames = {"s1", "s2", "s3", "s4"}
  SnapNames = {"n1", "n2"}
  SubCfgs <- mcSubCfgs
  MsgKinds <- mcMsgKinds
  BatchMax = 2
  MaxMsgs = 8
  MaxTopics = 4
  MaxSubs = 7
  MaxDels = 24
  MaxTime = 200
  TickDs = {1, 3, 5, 13}
  PullMaxes = {1, 2, 10}
  AckMax = 2
  ModSecs = {0, 4}
  JobAges = {0, 6}
  JobMaxes = {1, 100}
  Ops <- mcOps
  Setup <- mcSetup
  ProjOfName <- mcProjOfName
  Depth = 25
  AttBound = 100
  ViewKeep = {}
  RealBackoff = FALSE
  GenBFS = FALSE
  AckAll = FALSE
  Weights <- mcWeights

CHECK_DEADLOCK FALSE
