SPECIFICATION AggSpec
CONSTANTS
  TraceFile <- TraceFileName
INVARIANT Consumed
CHECK_DEADLOCK FALSE
