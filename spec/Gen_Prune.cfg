SPECIFICATION Spec
CONSTANTS
  TU = 1
  Jit = 0
  NeMissing = FALSE
  PrefixPairs <- mcPrefixPairs
  TopicNames <- mcTopicNames
  SubNames <- mcSubNames
  SnapNames <- mcSnapNames
  SubCfgs <- mcSubCfgs
  MsgKinds <- mcMsgKinds
  BatchMax = 2
  MaxMsgs = 9
  MaxTopics = 5
  MaxSubs = 8
  MaxDels = 40
  MaxTime = 100000
  TickDs <- mcTickDs
  PullMaxes = {1, 2, 10}
  AckMax = 2
  ModSecs = {0, 4}
  JobAges = {0, 3, 50}
  JobMaxes = {1, 2, 100}
  Ops <- mcOps
  Setup <- mcSetup
  ProjOfName <- mcProjOfName
  Depth = 36
  AttBound = 100
  ViewKeep = {}
  RealBackoff = FALSE
  GenBFS = FALSE
  AckAll = FALSE
  Weights <- mcWeights
CHECK_DEADLOCK FALSE
