------------------------------ MODULE BFS_Snap ------------------------------
(* Bounded exhaustive histories (TLC breadth-first over the history         *)
(* variable): two sibling subscriptions, one batch of two messages, then    *)
(* EVERY sequence of pulls, single-id acks, snapshots and seeks of the      *)
(* given length.  Every such history is replayed on the real code.          *)
EXTENDS BusModel
Cfg0 == [ttl |-> 600, mttl |-> 80, ord |-> FALSE, filt |-> NoFilter, minB |-> 20, maxB |-> 30,
         dlt |-> "", maxAtt |-> 0, push |-> "", labels |-> <<>>]
C1 == [name |-> "s1", topic |-> "t1", cfg |-> Cfg0]
C2 == [name |-> "s2", topic |-> "t1", cfg |-> Cfg0]
mcSubCfgs == {C1, C2}
mcSetup == << [op |-> "CreateTopic", name |-> "t1"], [op |-> "CreateSub", c |-> C1], [op |-> "CreateSub", c |-> C2] >>
mcMsgKinds == { [key |-> "", attrs |-> <<>>] }
mcProjOfName == <<>>
mcWeights == <<>>
mcOps == {"Publish", "Pull", "Ack", "CreateSnap", "SeekSnap"}
\* one publish of two messages, first; acks name their own subscription; seeks to time rewind fully
PublishFirst ==
  /\ (S.ph = Len(Setup) /\ S.nm = 0) => (ev'.op = "Publish" /\ Len(ev'.msgs) = 2)
  /\ ev'.op = "Ack" => \A i \in DOMAIN ev'.ids : ev'.ids[i][2] \in SubsNamed(S, ev'.sub)
  /\ ev'.op = "SeekTime" => ev'.T = 0
=============================================================================
