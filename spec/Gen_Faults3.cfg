SPECIFICATION GenSpec
CONSTANTS
  Callers <- g3Callers
  CallChoices <- g3CallChoices
  InitChoices <- g3InitChoices
  LatePool <- g3LatePool
  FirstMatch = TRUE
  RT = FALSE
  Reduce = FALSE
CHECK_DEADLOCK FALSE
