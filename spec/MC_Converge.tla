----------------------------- MODULE MC_Converge -----------------------------
(* C15 liveness at design level: one topic, one subscription, one message;    *)
(* publish / pull / ack / snapshot / delete in any order, every prune job     *)
(* with age 0 and batch 1, clock advances; no state constraint.               *)
EXTENDS BusModel
Cfg0 == [ttl |-> 3, mttl |-> 2, ord |-> FALSE, filt |-> NoFilter, minB |-> 2, maxB |-> 2,
         dlt |-> "", maxAtt |-> 0, push |-> "", labels |-> <<>>]
C1 == [name |-> "s1", topic |-> "t1", cfg |-> Cfg0]
mcTopicNames == {"t1"}
mcSubNames == {"s1"}
mcSnapNames == {"n1"}
mcSubCfgs == {C1}
mcSetup == << [op |-> "CreateTopic", name |-> "t1"], [op |-> "CreateSub", c |-> C1] >>
mcMsgKinds == { [key |-> "", attrs |-> <<>>] }
mcPrefixPairs == {}
mcBatchMax == 1
mcTickDs == {1}
mcPullMaxes == {1}
mcJobAges == {0}
mcJobMaxes == {1}
mcProjOfName == <<>>
mcWeights == <<>>
mcOps == {"Publish", "Pull", "Ack", "CreateSnap", "DeleteSnap", "DeleteSub", "DeleteTopic", "ExpireSubs", "Tick"} \cup PruneJobs
=============================================================================
