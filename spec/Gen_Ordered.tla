---------------------------- MODULE Gen_Ordered ----------------------------
(* Scenario generation, family "ordered" (C05): one ordered subscription    *)
(* and one plain sibling, messages over keys K, L and no key, single and    *)
(* batched publishes, pulls of any size, acks in any order, nacks, lease    *)
(* and retention expiry, dead-lettering of a predecessor, seeks, pruning of *)
(* completed / expired predecessors.                                        *)
EXTENDS BusModel
Cfg0 == [ttl |-> 600, mttl |-> 40, ord |-> TRUE, filt |-> NoFilter, minB |-> 2, maxB |-> 4,
         dlt |-> "", maxAtt |-> 0, push |-> "", labels |-> <<>>]
C1 == [name |-> "s1", topic |-> "t1", cfg |-> Cfg0]
C2 == [name |-> "s2", topic |-> "t1", cfg |-> [Cfg0 EXCEPT !.ord = FALSE]]
C3 == [name |-> "s3", topic |-> "t1", cfg |-> [Cfg0 EXCEPT !.dlt = "t2", !.maxAtt = 1, !.mttl = 15]]
C4 == [name |-> "s4", topic |-> "t2", cfg |-> Cfg0]
mcSubCfgs == {C1, C2, C3, C4}
mcSetup == << [op |-> "CreateTopic", name |-> "t1"], [op |-> "CreateTopic", name |-> "t2"],
              [op |-> "CreateSub", c |-> C1], [op |-> "CreateSub", c |-> C2],
              [op |-> "CreateSub", c |-> C3], [op |-> "CreateSub", c |-> C4] >>
mcMsgKinds == { [key |-> "", attrs |-> <<>>], [key |-> "K", attrs |-> <<>>], [key |-> "L", attrs |-> <<>>] }
mcPrefixPairs == {}
mcProjOfName == <<>>
mcOps == {"Publish", "Pull", "Ack", "ModAck", "Nack", "SeekTime", "DLSweep", "Tick",
          "PruneCompletedDeliveries", "PruneExpiredDeliveries", "PruneCompletedMessages", "StreamAN", "RacePull"}
W0 == [op \in mcOps |-> 1]
mcWeights == [W0 EXCEPT !["Publish"] = 8, !["Pull"] = 12, !["Ack"] = 8, !["ModAck"] = 2, !["Nack"] = 2, !["StreamAN"] = 4, !["RacePull"] = 4,
                        !["Tick"] = 5]
=============================================================================
