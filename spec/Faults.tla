------------------------------- MODULE Faults -------------------------------
(***************************************************************************)
(* C18  "An injected fault fires exactly its count, only on matching       *)
(* calls".                                                                 *)
(*                                                                         *)
(* faults.Set.Check (repo: faults/set.go) modelled step by step, exactly   *)
(* as the code takes the steps, for any number of concurrent callers:      *)
(*                                                                         *)
(*   for {                                                                 *)
(*     d := s.match(op, params)        -- Match   (under the read lock)    *)
(*                                        hook "matched"                   *)
(*     if d == nil { return nil }      -- Pass                             *)
(*     remaining := atomic.Add(&d.Count,-1)  -- Dec                        *)
(*                                        hook "decremented"               *)
(*     if remaining <= 0 { prune = true;                                   *)
(*        if remaining < 0 { continue } }    -- Decide (retry | fire)      *)
(*     ret = d.OnFault(...) ; break                                        *)
(*   }                                    hook "decided"                   *)
(*   if prune { go s.prune() }         -- Finish  (schedules a prune)      *)
(*   return ret                                                            *)
(*                                                                         *)
(* prune (under the write lock: drop descriptions with Count <= 0) is an   *)
(* independent step `Prune`; `Add` appends under the write lock;           *)
(* `Current()` is the state function `Listing`.                            *)
(*                                                                         *)
(* The code keeps one slice per operation; the model keeps ONE sequence    *)
(* `list` of description ids and filters by operation.  Append and the     *)
(* order preserving compaction of prune keep the relative order of the     *)
(* descriptions of one operation, so the projection on an operation is     *)
(* the code's slice.                                                       *)
(*                                                                         *)
(* FirstMatch = TRUE : Match returns the first matching description in     *)
(*   list order (what the code does; used for schedule generation).        *)
(* FirstMatch = FALSE: Match returns ANY matching description (the         *)
(*   documentation: "If multiple match, which runs is undefined"); the     *)
(*   contract-level properties are checked for both, trace validation of   *)
(*   black-box traces uses FALSE so that a different choice rule is not a  *)
(*   false alarm.                                                          *)
(***************************************************************************)
EXTENDS FaultsDefs, Integers, Sequences, FiniteSets, TLC

CONSTANTS
  Callers,      \* set of caller ids (each caller performs one Check)
  CallChoices,  \* set of functions Callers -> [op, params]: the mixes of calls
  InitChoices,  \* set of sequences of descriptions [tag, op, params, n] present at the start
  LatePool,     \* set of descriptions that may be Add()ed while calls are running
  FirstMatch,   \* see above
  RT            \* TRUE: keep real-time stamps (ghost) of invocation and return

VARIABLES
  desc,     \* sequence of all descriptions ever added: id |-> [tag, op, params, n]
  count,    \* id |-> Description.Count (the atomic counter; may go below 0)
  list,     \* sequence of ids: the slices s.faults[op] (all operations, see above)
  pc,       \* caller |-> [st, d, rem, pr]
  call,     \* caller |-> [op, params]
  prunes,   \* number of `go s.prune()` scheduled and not yet run
  fired,    \* ghost: id |-> number of calls this description failed
  hits,     \* ghost: caller |-> number of faults it fired (must stay <= 1)
  avail,    \* ghost: caller |-> ids added before the caller's first Match
  expired,  \* ghost: number of descriptions dropped by prune (the metric faultsExpired)
  clock, startAt, endAt  \* ghost real-time stamps (only when RT)

vars == <<desc, count, list, pc, call, prunes, fired, hits, avail, expired, clock, startAt, endAt>>

Ids == DOMAIN desc

\* Matches(d, call), ParamsMatch, Min, Max, Range: module FaultsDefs

\* Set.match: candidates in list order
Cand(cl) == SelectSeq(list, LAMBDA i : count[i] > 0 /\ Matches(desc[i], cl))

\* Set.Current(): id |-> listed count, 0 = not listed (as a sequence over Ids)
Listing == [i \in Ids |-> IF i \in Range(list) /\ count[i] > 0 THEN count[i] ELSE 0]

NoPc == [st |-> "Idle", d |-> 0, rem |-> 0, pr |-> FALSE]

-----------------------------------------------------------------------------
(* Steps                                                                   *)

Tick == IF RT THEN clock + 1 ELSE clock

Invoke(c, cl) ==
  /\ pc[c].st = "Idle"
  /\ call' = [call EXCEPT ![c] = cl]
  /\ pc' = [pc EXCEPT ![c] = [NoPc EXCEPT !.st = "Start"]]
  /\ clock' = Tick /\ startAt' = [startAt EXCEPT ![c] = clock']
  /\ UNCHANGED <<desc, count, list, prunes, fired, hits, avail, expired, endAt>>

Match(c) ==
  /\ pc[c].st \in {"Start", "Retry"}
  /\ LET cs == Cand(call[c]) IN
     IF cs = <<>>
     THEN pc' = [pc EXCEPT ![c] = [@ EXCEPT !.st = "Matched", !.d = 0]]
     ELSE IF FirstMatch
          THEN pc' = [pc EXCEPT ![c] = [@ EXCEPT !.st = "Matched", !.d = Head(cs)]]
          ELSE \E d \in Range(cs) : pc' = [pc EXCEPT ![c] = [@ EXCEPT !.st = "Matched", !.d = d]]
  /\ avail' = IF pc[c].st = "Start" THEN [avail EXCEPT ![c] = Ids] ELSE avail
  /\ UNCHANGED <<desc, count, list, call, prunes, fired, hits, expired, clock, startAt, endAt>>

\* `if d == nil { return nil }` : returns at once, also after a lost race
\* (no prune is scheduled on this path; the racer that reached 0 schedules it)
Pass(c) ==
  /\ pc[c].st = "Matched" /\ pc[c].d = 0
  /\ pc' = [pc EXCEPT ![c] = [@ EXCEPT !.st = "Done"]]
  /\ clock' = Tick /\ endAt' = [endAt EXCEPT ![c] = clock']
  /\ UNCHANGED <<desc, count, list, call, prunes, fired, hits, avail, expired, startAt>>

Dec(c) ==
  /\ pc[c].st = "Matched" /\ pc[c].d # 0
  /\ LET d == pc[c].d IN
     /\ count' = [count EXCEPT ![d] = @ - 1]
     /\ pc' = [pc EXCEPT ![c] = [@ EXCEPT !.st = "Decremented", !.rem = count[d] - 1]]
  /\ UNCHANGED <<desc, list, call, prunes, fired, hits, avail, expired, clock, startAt, endAt>>

Decide(c) ==
  /\ pc[c].st = "Decremented"
  /\ IF pc[c].rem < 0
     THEN /\ pc' = [pc EXCEPT ![c] = [@ EXCEPT !.st = "Retry", !.pr = TRUE]]
          /\ UNCHANGED <<fired, hits>>
     ELSE /\ pc' = [pc EXCEPT ![c] = [@ EXCEPT !.st = "Fired", !.pr = @ \/ pc[c].rem <= 0]]
          /\ fired' = [fired EXCEPT ![pc[c].d] = @ + 1]
          /\ hits' = [hits EXCEPT ![c] = @ + 1]
  /\ UNCHANGED <<desc, count, list, call, prunes, avail, expired, clock, startAt, endAt>>

Finish(c) ==
  /\ pc[c].st = "Fired"
  /\ prunes' = IF pc[c].pr THEN prunes + 1 ELSE prunes
  /\ pc' = [pc EXCEPT ![c] = [@ EXCEPT !.st = "Done"]]
  /\ clock' = Tick /\ endAt' = [endAt EXCEPT ![c] = clock']
  /\ UNCHANGED <<desc, count, list, call, fired, hits, avail, expired, startAt>>

Prune ==
  /\ prunes > 0
  /\ prunes' = prunes - 1
  /\ list' = SelectSeq(list, LAMBDA i : count[i] > 0)
  /\ expired' = expired + (Len(list) - Len(list'))
  /\ UNCHANGED <<desc, count, pc, call, fired, hits, avail, clock, startAt, endAt>>

Add(dsc) ==
  /\ desc' = Append(desc, dsc)
  /\ count' = Append(count, dsc.n)
  /\ fired' = Append(fired, 0)
  /\ list' = Append(list, Len(desc) + 1)
  /\ UNCHANGED <<pc, call, prunes, hits, avail, expired, clock, startAt, endAt>>

CallerStep(c) == Match(c) \/ Pass(c) \/ Dec(c) \/ Decide(c) \/ Finish(c)

-----------------------------------------------------------------------------
(* The closed system used for model checking                               *)

InitWith(ds, cls, st0) ==
  /\ desc = ds
  /\ count = [i \in DOMAIN ds |-> ds[i].n]
  /\ fired = [i \in DOMAIN ds |-> 0]
  /\ list = [i \in DOMAIN ds |-> i]
  /\ call = cls
  /\ pc = [c \in Callers |-> [NoPc EXCEPT !.st = st0]]
  /\ prunes = 0 /\ expired = 0
  /\ hits = [c \in Callers |-> 0]
  /\ avail = [c \in Callers |-> {}]
  /\ clock = 0
  /\ startAt = [c \in Callers |-> 0]
  /\ endAt = [c \in Callers |-> 0]

Init == \E ds \in InitChoices, cls \in CallChoices : InitWith(ds, cls, "Idle")

LateAdd == \E dsc \in LatePool : (\A i \in Ids : desc[i].tag # dsc.tag) /\ Add(dsc)

Next ==
  \/ \E c \in Callers : Invoke(c, call[c]) \/ CallerStep(c)
  \/ Prune
  \/ LateAdd

Spec == Init /\ [][Next]_vars

\* every step of a caller that has started is eventually taken; prune goroutines run
FairSpec == Spec /\ \A c \in Callers : WF_vars(CallerStep(c))

-----------------------------------------------------------------------------
(* Properties                                                              *)

Done(c) == pc[c].st = "Done"
Out(c) == IF Done(c) THEN pc[c].d ELSE 0        \* 0 = passed (or not finished)
AllDone == \A c \in Callers : Done(c)
Quiescent == AllDone /\ prunes = 0

TypeOK ==
  /\ \A i \in Ids : desc[i].n \in Nat /\ count[i] \in Int /\ fired[i] \in Nat
  /\ DOMAIN count = Ids /\ DOMAIN fired = Ids
  /\ Range(list) \subseteq Ids
  /\ \A c \in Callers : /\ pc[c].st \in {"Idle", "Start", "Matched", "Decremented", "Retry", "Fired", "Done"}
                        /\ pc[c].d \in Ids \cup {0}
  /\ prunes \in Nat

\* (P1) a fault never fires more than its count
FiredLeN == \A i \in Ids : fired[i] <= desc[i].n

\* (P2) a call whose operation differs or whose parameters do not include every
\*      injected parameter of d never fires d
OnlyMatching ==
  \A c \in Callers : (pc[c].st \in {"Fired", "Done"} /\ pc[c].d # 0) => Matches(desc[pc[c].d], call[c])

\* (P3) a call that matches no description is never failed
NonMatchingNeverFails ==
  \A c \in Callers : (\A i \in Ids : ~Matches(desc[i], call[c])) => (pc[c].st # "Fired" /\ Out(c) = 0)

\* (P4) each call fires at most one fault
AtMostOne == \A c \in Callers : hits[c] <= 1

\* the counter accounts for every fire: the calls that won a decrement
\* (remaining >= 0) are exactly those that have fired or are about to
Winners(i) == {c \in Callers : pc[c].st = "Decremented" /\ pc[c].d = i /\ pc[c].rem >= 0}
Accounting == \A i \in Ids : fired[i] + Cardinality(Winners(i)) = desc[i].n - Max(count[i], 0)

\* (P5) Current(): never lists a count <= 0, an exhausted fault (fired = N) is
\*      not listed, a listed count never promises more than the budget left,
\*      and prune never removes a description that still has budget
ListingOK ==
  \A i \in Ids : /\ Listing[i] >= 0
                 /\ (fired[i] = desc[i].n => Listing[i] = 0)
                 /\ Listing[i] <= desc[i].n - fired[i]
                 /\ (count[i] > 0 => Listing[i] = count[i])
\* after quiescence exactly the budget that was not used is listed, and the
\* internal list holds no description that was used up (a description added
\* with count 0 never fires, is never listed, and stays until the next prune)
QuiescentListing ==
  Quiescent => \A i \in Ids : /\ Listing[i] = desc[i].n - fired[i]
                              /\ (count[i] > 0 => i \in Range(list))
                              /\ (desc[i].n > 0 /\ count[i] <= 0 => i \notin Range(list))

\* (P6) a call passes only when every description it matches (added before it
\*      looked) is exhausted
PassedOnlyWhenExhausted ==
  \A c \in Callers : (Done(c) /\ pc[c].d = 0) =>
     \A i \in avail[c] : Matches(desc[i], call[c]) => count[i] <= 0

\* --- at termination ------------------------------------------------------
MatchingCalls(i) == {c \in Callers : Matches(desc[i], call[c])}
\* d is isolated: no call that matches d matches another description
Isolated(i) == \A c \in MatchingCalls(i) : \A j \in Ids \ {i} : ~Matches(desc[j], call[c])

\* (T1) single (non-overlapping) description: fired = Min(N, matching calls).
\*      With late Adds the calls that looked before the Add need not count.
TermExact ==
  AllDone => \A i \in Ids : Isolated(i) =>
     /\ fired[i] <= Min(desc[i].n, Cardinality(MatchingCalls(i)))
     /\ fired[i] >= Min(desc[i].n, Cardinality({c \in MatchingCalls(i) : i \in avail[c]}))

\* (T2) overlapping descriptions: the outcome is a MAXIMAL assignment: no call
\*      passed although a description it matches still had budget.  Together
\*      with P1, P2, P4 this says  fired[d] = Min(N[d], calls matching d that
\*      were not failed by another description), the only reading of "exactly
\*      min(N, matching calls)" that is satisfiable when a call can match two
\*      descriptions and fires at most one.
TermMaximal ==
  AllDone => \A c \in Callers : pc[c].d = 0 =>
     \A i \in avail[c] : Matches(desc[i], call[c]) => fired[i] = desc[i].n

\* (T3) [RT, no late Adds] linearizability of the complete history: the
\*      per-caller outcomes are those of SOME serial order of the calls that
\*      respects real time (a returned before b was invoked => a first), in
\*      which every call fires one (any) matching description with budget left
\*      if there is one and passes otherwise.
RECURSIVE Serial(_, _, _)
Serial(rest, budget, out) ==
  IF rest = {} THEN {out} ELSE
  UNION { LET M == {i \in Ids : budget[i] > 0 /\ Matches(desc[i], call[c])} IN
          IF M = {} THEN Serial(rest \ {c}, budget, [out EXCEPT ![c] = 0])
          ELSE UNION {Serial(rest \ {c}, [budget EXCEPT ![i] = @ - 1], [out EXCEPT ![c] = i]) : i \in M}
        : c \in {x \in rest : \A y \in rest \ {x} : ~(endAt[y] < startAt[x])} }
TermSerial ==
  AllDone => [c \in Callers |-> pc[c].d] \in Serial(Callers, [i \in Ids |-> desc[i].n], [c \in Callers |-> 0])

\* (T4) [RT] the black-box form used on recorded traces (FaultsAgg.tla): a call
\*      passed => for every description d it matches (added before it looked)
\*      exactly N[d] of the calls that were invoked before it returned are failed by d
IntervalExact ==
  AllDone => \A c \in Callers : pc[c].d = 0 =>
     \A i \in avail[c] : Matches(desc[i], call[c]) =>
        Cardinality({x \in Callers : pc[x].d = i /\ startAt[x] < endAt[c]}) = desc[i].n

\* (L) every Check terminates
Termination == \A c \in Callers : (pc[c].st # "Idle") ~> Done(c)
=============================================================================
