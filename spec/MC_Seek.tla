------------------------------ MODULE MC_Seek ------------------------------
(* C13: two sibling subscriptions of one topic, two messages, snapshots of  *)
(* either, seeks to every time and to the snapshots, partial acks, ticks.   *)
EXTENDS BusModel
Cfg0 == [ttl |-> 50, mttl |-> 5, ord |-> FALSE, filt |-> NoFilter, minB |-> 2, maxB |-> 2,
         dlt |-> "", maxAtt |-> 0, push |-> "", labels |-> <<>>]
C1 == [name |-> "s1", topic |-> "t1", cfg |-> Cfg0]
C2 == [name |-> "s2", topic |-> "t1", cfg |-> Cfg0]
mcTopicNames == {"t1"}
mcSubNames == {"s1", "s2"}
mcSnapNames == {"n1"}
mcSubCfgs == {C1, C2}
mcSetup == << [op |-> "CreateTopic", name |-> "t1"], [op |-> "CreateSub", c |-> C1], [op |-> "CreateSub", c |-> C2] >>
mcMsgKinds == { [key |-> "", attrs |-> <<>>] }
mcPrefixPairs == {}
mcBatchMax == 1
mcTickDs == {1}
mcPullMaxes == {2}
mcJobAges == {0}
mcJobMaxes == {1}
mcProjOfName == <<>>
mcWeights == <<>>
mcOps == {"Publish", "Pull", "Ack", "SeekTime", "CreateSnap", "SeekSnap", "Tick"}
=============================================================================
