SPECIFICATION Spec
CONSTANTS
  Waiters = {"w2"}
  Writers = {"x1", "x2"}
  WSub <- wsub1
  WTargets <- tgt2
  NotifyMode <- modeL
  Subs = {"a", "b"}
  EarlyReturn = FALSE
  RegisterLate = FALSE
  EmitHist = TRUE
INVARIANTS EmitAtEnd
CHECK_DEADLOCK FALSE
