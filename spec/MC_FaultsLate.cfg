SPECIFICATION Spec
CONSTANTS
  Callers <- mcCallers
  CallChoices <- ltCallChoices
  InitChoices <- ltInitChoices
  LatePool <- ltLatePool
  FirstMatch = TRUE
  RT = FALSE
INVARIANTS
  TypeOK
  FiredLeN
  OnlyMatching
  NonMatchingNeverFails
  AtMostOne
  Accounting
  ListingOK
  QuiescentListing
  PassedOnlyWhenExhausted
  TermExact
  TermMaximal
CHECK_DEADLOCK FALSE
