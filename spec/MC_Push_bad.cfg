SPECIFICATION Spec
CONSTANTS
  Msgs = {1, 2, 3}
  WCap = 4
  Dec = 2
  Slack = 1
  MaxAtt = 3
  Classes = {"ok", "okslow", "fail", "err"}
  Scripts <- mcScripts
INVARIANT WindowOK
CHECK_DEADLOCK FALSE
