---------------------------- MODULE MC_Delivery ----------------------------
(* Exhaustive configuration for the delivery core (C01-C04, C06, C14):     *)
(* topic t1 with subscription s1 (dead-lettering after 2 attempts into t2) *)
(* and filtered subscription s2; topic t2 with subscription s3.            *)
EXTENDS BusModel

F_has_a == [op |-> "has", k |-> "a"]
Cfg0 == [ttl |-> 6, mttl |-> 5, ord |-> FALSE, filt |-> NoFilter, minB |-> 2, maxB |-> 3,
         dlt |-> "", maxAtt |-> 0, push |-> "", labels |-> <<>>]
mcTopicNames == {"t1", "t2"}
mcSubNames == {"s1", "s2", "s3"}
C1 == [name |-> "s1", topic |-> "t1", cfg |-> [Cfg0 EXCEPT !.dlt = "t2", !.maxAtt = 2]]
C2 == [name |-> "s2", topic |-> "t1", cfg |-> [Cfg0 EXCEPT !.filt = F_has_a]]
C3 == [name |-> "s3", topic |-> "t2", cfg |-> Cfg0]
mcSubCfgs == {C1, C2, C3}
mcSetup == << [op |-> "CreateTopic", name |-> "t1"], [op |-> "CreateTopic", name |-> "t2"],
              [op |-> "CreateSub", c |-> C1], [op |-> "CreateSub", c |-> C2],
              [op |-> "CreateSub", c |-> C3] >>
mcMsgKinds == { [key |-> "", attrs |-> <<>>], [key |-> "", attrs |-> [a |-> "x"]] }
mcPrefixPairs == {<<"x", "">>, <<"x", "x">>}
mcWeights == [op \in {} |-> 1]
mcProjOfName == <<>>
mcOps == {"Publish", "Pull", "Ack", "ModAck", "Nack", "DLSweep", "DeleteSub", "Tick"}
=============================================================================
