-------------------------------- MODULE Rpc --------------------------------
(***************************************************************************)
(* C16  "No request can crash the server; rejected requests change         *)
(* nothing".                                                               *)
(*                                                                         *)
(* A REQUEST VECTOR is [rpc |-> name, f |-> [field |-> class]]: for every  *)
(* RPC of the Publisher and Subscriber services, every request field gets  *)
(* one BOUNDARY CLASS (a string).  The request space of an RPC is the      *)
(* product of its per-field class sets (Classes[rpc]); Valid[rpc] is the   *)
(* all-valid request.  The harness (harness/cmd/rpcfuzz) turns a vector    *)
(* into a concrete protobuf request against a fixed pre-state (2 topics, 3 *)
(* subscriptions - dead-letter+retry / ordered+filtered / plain -, some    *)
(* messages, live / acknowledged / foreign ack ids, one snapshot; the      *)
(* deliverable backlog of the valid subscription holds messages of known   *)
(* tiny sizes: payloads `1`, `12`, `1` = 1, 2, 1 bytes, in that order),    *)
(* sends                                                                   *)
(* it to a CHILD PROCESS that runs the production gRPC service with its    *)
(* interceptor chain, and records an OBSERVATION                           *)
(*    [rpc, f, outcome \in {"status","crash","wedge"}, code, changed]      *)
(* where `changed` says whether the full dump of the five tables differs   *)
(* from the dump before the request.                                       *)
(*                                                                         *)
(* The contract is the two lines Answered / Contract below.  This module   *)
(* is used three ways:                                                     *)
(*   Rpc.cfg       TLC enumerates the vectors: one state per vector, each  *)
(*                 printed as one JSON line (TLC is the enumerator).       *)
(*                 Mode "oneoff": the table + every single-field           *)
(*                 deviation from the valid request (the pairwise rows of  *)
(*                 the quick tier are computed from the printed table).    *)
(*                 Mode "core": the full product over every core field set *)
(*                 of every RPC (all RPCs whose product is small have      *)
(*                 Core = all fields, i.e. their FULL product).            *)
(*   RpcCheck.cfg  TLC evaluates the contract on every observation that    *)
(*                 the harness recorded from the real code (TLC is the     *)
(*                 oracle), and checks that the vector is in the space.    *)
(***************************************************************************)
EXTENDS Integers, Sequences, FiniteSets, TLC, Json

(***************************************************************************)
(* Boundary domains (the quantifier of the property)                       *)
(***************************************************************************)
\* resource names: valid / wrong kind / empty / unknown
Name     == {"valid", "wrongkind", "empty", "unknown"}
\* names of resources to be created: a fresh name is the valid one
NewName  == {"fresh", "existing", "wrongkind", "empty"}
\* integers: minimum, -1, 0, 1, large
IntB     == {"min", "neg1", "zero", "one", "large"}
\* durations: absent, negative, zero, a valid one, huge (10000 years)
DurB     == {"absent", "negative", "zero", "valid", "huge"}
Bool     == {"false", "true"}
Labels   == {"absent", "present"}
PageTok  == {"empty", "valid", "garbage"}
\* ack ids: none, live, stale (acknowledged), foreign (other subscription),
\* garbage (not an id), mixed (live + garbage)
AckIds   == {"none", "live", "stale", "foreign", "garbage", "mixed", "blank"}   \* blank: an empty string among valid ids
\* payloads: JSON, non-JSON, empty
Payload  == {"json", "nonjson", "empty"}
\* nested messages: absent / empty / populated variants
PushCfg  == {"absent", "empty", "endpoint", "attributes", "badattributes", "auth"}
ExpPol   == {"absent", "empty", "negative", "zero", "valid", "huge"}
\* retry policy: the two bounds are optional independently ("minonly" / "maxonly"), and one of them
\* may be zero while the other is set
RetryPol == {"absent", "empty", "valid", "negative", "zero", "huge", "minonly", "maxonly", "minzero", "maxzero"}
DLPol    == {"absent", "empty", "valid", "topicless", "unknowntopic", "wrongkindtopic",
             "att_min", "att_neg1", "att_zero", "att_one", "att_large"}
Filt     == {"empty", "valid", "invalid"}
\* update masks: absent, empty, known, unknown, repeated, immutable, unsupported
TopicMask == {"absent", "empty", "known", "unknown", "repeated", "immutable", "unsupported"}
SubPaths == {"labels", "expiration_policy", "message_retention_duration",
             "enable_message_ordering", "retry_policy", "push_config", "filter",
             "dead_letter_policy"}
SubMask  == {"absent", "empty", "all", "unknown", "repeated", "immutable", "unsupported"}
            \cup SubPaths
\* time_min = 0001-01-01T00:00:00Z, time_intmin / time_intmax = extreme seconds fields
SeekTarget == {"absent", "time_absent", "time_min", "time_intmin", "time_intmax", "time_negative",
               "time_zero", "time_past", "time_huge", "snapshot_valid", "snapshot_wrongkind", "snapshot_empty",
               "snapshot_unknown"}

\* StreamingPull flow control: byte limits RELATIVE to the backlog of the valid
\* subscription (first deliverable message = 1 byte, the first two = 3 bytes):
\* one less than / equal to / one more than the first message, equal to the
\* first two; and how long the session is kept: first answer only / kept open
\* ~300 ms reading responses without acknowledging / acknowledging what arrives
ByteLimit == IntB \cup {"first_minus1", "eq_first", "first_plus1", "eq_first_two"}
Session == {"first", "open_noack", "open_ack"}

(***************************************************************************)
(* Per-RPC field classes.  Every RPC of both services is listed; the three *)
(* that the server does not implement must be answered too (Unimplemented).*)
(***************************************************************************)
Classes == [
  \* ------------------------------------------------------------ Publisher
  CreateTopic |-> [name |-> NewName, labels |-> Labels,
                   message_storage_policy |-> {"absent", "empty"},
                   kms_key_name |-> {"empty", "set"},
                   schema_settings |-> {"absent", "empty"},
                   message_retention_duration |-> DurB],
  UpdateTopic |-> [topic |-> {"absent"} \cup Name, update_mask |-> TopicMask, labels |-> Labels],
  Publish |-> [topic |-> Name, messages |-> {"none", "one", "emptymsg", "many", "lastbad"},   \* lastbad: valid messages followed by one the server rejects
               data |-> Payload, attributes |-> Labels, ordering_key |-> {"empty", "set"}],
  GetTopic |-> [topic |-> Name],
  ListTopics |-> [project |-> Name, page_size |-> IntB, page_token |-> PageTok],
  ListTopicSubscriptions |-> [topic |-> Name, page_size |-> IntB, page_token |-> PageTok],
  ListTopicSnapshots |-> [topic |-> Name, page_size |-> IntB],
  DeleteTopic |-> [topic |-> Name],
  DetachSubscription |-> [subscription |-> Name],
  \* ----------------------------------------------------------- Subscriber
  CreateSubscription |-> [name |-> NewName, topic |-> Name, push_config |-> PushCfg,
                          ack_deadline_seconds |-> IntB, retain_acked_messages |-> Bool,
                          message_retention_duration |-> DurB, labels |-> Labels,
                          enable_message_ordering |-> Bool, expiration_policy |-> ExpPol,
                          filter |-> Filt, dead_letter_policy |-> DLPol,
                          retry_policy |-> RetryPol, detached |-> Bool],
  GetSubscription |-> [subscription |-> Name],
  UpdateSubscription |-> [subscription |-> {"absent"} \cup Name, update_mask |-> SubMask,
                          message_retention_duration |-> DurB, labels |-> Labels,
                          enable_message_ordering |-> Bool, expiration_policy |-> ExpPol,
                          filter |-> Filt, dead_letter_policy |-> DLPol,
                          retry_policy |-> RetryPol, push_config |-> PushCfg],
  ListSubscriptions |-> [project |-> Name, page_size |-> IntB, page_token |-> PageTok],
  DeleteSubscription |-> [subscription |-> Name],
  ModifyAckDeadline |-> [subscription |-> Name, ack_ids |-> AckIds, ack_deadline_seconds |-> IntB],
  Acknowledge |-> [subscription |-> Name, ack_ids |-> AckIds],
  Pull |-> [subscription |-> Name, max_messages |-> IntB, return_immediately |-> Bool],
  StreamingPull |-> [subscription |-> Name, ack_ids |-> AckIds,
                     modify_deadline |-> {"none", "matched", "mismatched", "garbage", "blank", "mixed"},
                     stream_ack_deadline_seconds |-> IntB, client_id |-> {"empty", "set"},
                     max_outstanding_messages |-> IntB, max_outstanding_bytes |-> ByteLimit,
                     session |-> Session],
  ModifyPushConfig |-> [subscription |-> Name, push_config |-> PushCfg],
  GetSnapshot |-> [snapshot |-> Name],
  ListSnapshots |-> [project |-> Name, page_size |-> IntB, page_token |-> PageTok],
  CreateSnapshot |-> [name |-> NewName, subscription |-> Name, labels |-> Labels],
  UpdateSnapshot |-> [snapshot |-> {"absent", "empty", "valid"}, update_mask |-> {"absent", "known"}],
  DeleteSnapshot |-> [snapshot |-> Name],
  Seek |-> [subscription |-> Name, target |-> SeekTarget]
]

RPCs == DOMAIN Classes
Unimplemented == {"ListTopicSnapshots", "DetachSubscription", "UpdateSnapshot"}
\* RPCs that may legitimately hold a request while no message is available
LongPoll == {"Pull", "StreamingPull"}

(***************************************************************************)
(* The all-valid request of every RPC.                                     *)
(***************************************************************************)
Valid == [
  CreateTopic |-> [name |-> "fresh", labels |-> "present", message_storage_policy |-> "absent",
                   kms_key_name |-> "empty", schema_settings |-> "absent",
                   message_retention_duration |-> "absent"],
  UpdateTopic |-> [topic |-> "valid", update_mask |-> "known", labels |-> "present"],
  Publish |-> [topic |-> "valid", messages |-> "one", data |-> "json", attributes |-> "present",
               ordering_key |-> "empty"],
  GetTopic |-> [topic |-> "valid"],
  ListTopics |-> [project |-> "valid", page_size |-> "one", page_token |-> "empty"],
  ListTopicSubscriptions |-> [topic |-> "valid", page_size |-> "one", page_token |-> "empty"],
  ListTopicSnapshots |-> [topic |-> "valid", page_size |-> "one"],
  DeleteTopic |-> [topic |-> "valid"],
  DetachSubscription |-> [subscription |-> "valid"],
  CreateSubscription |-> [name |-> "fresh", topic |-> "valid", push_config |-> "absent",
                          ack_deadline_seconds |-> "one", retain_acked_messages |-> "false",
                          message_retention_duration |-> "valid", labels |-> "present",
                          enable_message_ordering |-> "false", expiration_policy |-> "valid",
                          filter |-> "empty", dead_letter_policy |-> "valid",
                          retry_policy |-> "valid", detached |-> "false"],
  GetSubscription |-> [subscription |-> "valid"],
  UpdateSubscription |-> [subscription |-> "valid", update_mask |-> "all",
                          message_retention_duration |-> "valid", labels |-> "present",
                          enable_message_ordering |-> "false", expiration_policy |-> "valid",
                          filter |-> "valid", dead_letter_policy |-> "valid",
                          retry_policy |-> "valid", push_config |-> "endpoint"],
  ListSubscriptions |-> [project |-> "valid", page_size |-> "one", page_token |-> "empty"],
  DeleteSubscription |-> [subscription |-> "valid"],
  ModifyAckDeadline |-> [subscription |-> "valid", ack_ids |-> "live", ack_deadline_seconds |-> "one"],
  Acknowledge |-> [subscription |-> "valid", ack_ids |-> "live"],
  Pull |-> [subscription |-> "valid", max_messages |-> "one", return_immediately |-> "false"],
  StreamingPull |-> [subscription |-> "valid", ack_ids |-> "none", modify_deadline |-> "none",
                     stream_ack_deadline_seconds |-> "one", client_id |-> "set",
                     max_outstanding_messages |-> "large", max_outstanding_bytes |-> "large",
                     session |-> "first"],
  ModifyPushConfig |-> [subscription |-> "valid", push_config |-> "endpoint"],
  GetSnapshot |-> [snapshot |-> "valid"],
  ListSnapshots |-> [project |-> "valid", page_size |-> "one", page_token |-> "empty"],
  CreateSnapshot |-> [name |-> "fresh", subscription |-> "valid", labels |-> "present"],
  UpdateSnapshot |-> [snapshot |-> "valid", update_mask |-> "known"],
  DeleteSnapshot |-> [snapshot |-> "valid"],
  Seek |-> [subscription |-> "valid", target |-> "time_past"]
]

(***************************************************************************)
(* Core field sets.  The thorough tier enumerates, for every set K in      *)
(* Core[rpc], the FULL product over the fields of K with the other fields  *)
(* valid.  For all RPCs but three K is the set of all fields, i.e. the     *)
(* full product of the RPC.  For the three wide requests the product of    *)
(* all fields has 10^5..10^7 elements (and a kept-open stream costs real   *)
(* time); there the core sets are the groups                               *)
(* of fields that meet in one code path (names x durations x policies;     *)
(* mask x the fields a path selects), and the remaining interactions are   *)
(* covered by the t-wise rows computed from this table.                    *)
(***************************************************************************)
AllFields(r) == DOMAIN Classes[r]
WideCore == [
  CreateSubscription |-> {{"name", "topic", "message_retention_duration", "expiration_policy",
                           "dead_letter_policy", "retry_policy", "push_config"},
                          {"name", "push_config", "filter", "detached", "enable_message_ordering",
                           "labels", "retain_acked_messages", "ack_deadline_seconds"}},
  UpdateSubscription |-> {{"subscription", "update_mask", "push_config", "filter"},
                          {"update_mask", "expiration_policy", "message_retention_duration",
                           "dead_letter_policy"},
                          {"update_mask", "dead_letter_policy", "retry_policy", "push_config"},
                          {"update_mask", "push_config", "filter", "labels",
                           "enable_message_ordering"}},
  StreamingPull |-> {{"subscription", "ack_ids", "modify_deadline", "max_outstanding_messages",
                      "max_outstanding_bytes"},
                     {"subscription", "max_outstanding_messages", "max_outstanding_bytes", "session"},
                     {"subscription", "ack_ids", "modify_deadline", "session"},
                     {"subscription", "stream_ack_deadline_seconds", "client_id", "session"}}
]
\* products that the quick tier enumerates too (other fields valid): flow
\* control against the backlog sizes x how long the session is kept
QuickCore == [StreamingPull |-> {{"max_outstanding_bytes", "session"}}]
Core(r) == IF r \in DOMAIN WideCore THEN WideCore[r] ELSE {AllFields(r)}

(***************************************************************************)
(* Vector spaces                                                           *)
(***************************************************************************)
InSpace(v) ==
  /\ v.rpc \in RPCs
  /\ DOMAIN v.f = AllFields(v.rpc)
  /\ \A x \in DOMAIN v.f : v.f[x] \in Classes[v.rpc][x]

\* product over the field set K of rpc r, the other fields valid
RECURSIVE Prod(_, _)
Prod(r, K) ==
  IF K = {} THEN {Valid[r]}
  ELSE LET x == CHOOSE y \in K : TRUE IN
       {[g EXCEPT ![x] = c] : g \in Prod(r, K \ {x}), c \in Classes[r][x]}

CoreVectors(r) == UNION {Prod(r, K) : K \in Core(r)}
OneOff(r) == {Valid[r]} \cup
             UNION {{[Valid[r] EXCEPT ![x] = c] : c \in Classes[r][x]} : x \in AllFields(r)}
Deviations(v) == {x \in DOMAIN v.f : v.f[x] # Valid[v.rpc][x]}

(***************************************************************************)
(* THE CONTRACT                                                            *)
(***************************************************************************)
\* the request was answered with a gRPC status within the deadline; the
\* server process neither terminated nor stopped answering
Answered(o) == o.outcome = "status"
\* all topics, subscriptions, messages, deliveries (and snapshots) unchanged
Rejected(o) == ~o.changed
Contract(o) == Answered(o) /\ (o.code # "OK" => Rejected(o))

Clause(o) == IF o.outcome = "crash" THEN "C16:crash"
             ELSE IF o.outcome = "wedge" THEN "C16:wedge"
             ELSE "C16:error-changed-state"

(***************************************************************************)
(* Enumeration (Rpc.cfg): one initial state per vector.                    *)
(***************************************************************************)
CONSTANT Mode      \* "quick" (single-field deviations + QuickCore products) | "core"
VARIABLE v

QuickVectors(r) == IF r \in DOMAIN QuickCore THEN UNION {Prod(r, K) : K \in QuickCore[r]} ELSE {}
Space(r) == IF Mode = "core" THEN CoreVectors(r) ELSE OneOff(r) \cup QuickVectors(r)

ASSUME \A r \in RPCs : /\ DOMAIN Valid[r] = AllFields(r)
                       /\ InSpace([rpc |-> r, f |-> Valid[r]])
                       /\ \A K \in Core(r) : K \subseteq AllFields(r)
                       /\ r \in DOMAIN QuickCore => \A K \in QuickCore[r] : K \subseteq AllFields(r)
ASSUME DOMAIN Valid = RPCs
ASSUME PrintT(<<"TABLE", ToJson([classes |-> Classes, valid |-> Valid,
                                  core |-> [r \in RPCs |-> Core(r)],
                                  unimplemented |-> Unimplemented, longpoll |-> LongPoll])>>)

Init == \E r \in RPCs : \E x \in Space(r) :
          /\ v = [rpc |-> r, f |-> x]
          /\ PrintT(<<"VEC", ToJson(v)>>)
Next == UNCHANGED v
Spec == Init /\ [][Next]_v
TypeOK == InSpace(v)
=============================================================================
