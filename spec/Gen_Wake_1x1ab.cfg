SPECIFICATION Spec
CONSTANTS
  Waiters = {"w2"}
  Writers = {"x1"}
  WSub <- wsub1
  WTargets <- tgtAB
  NotifyMode <- modeL
  Subs = {"a", "b"}
  EarlyReturn = FALSE
  RegisterLate = FALSE
  EmitHist = TRUE
INVARIANTS EmitAtEnd
CHECK_DEADLOCK FALSE
