---------------------------- MODULE BusTraceRun ----------------------------
EXTENDS BusTrace
TraceFileName == "trace.ndjson"
\* value vocabulary of the bus families: "", "x", "xy", "y" (and their images)
TracePrefixPairs == {<<"", "">>, <<"x", "">>, <<"xy", "">>, <<"y", "">>,
                     <<"x", "x">>, <<"xy", "x">>, <<"xy", "xy">>, <<"y", "y">>}
=============================================================================
