------------------------------ MODULE Gen_Wake_2x1 ------------------------------
(* Schedule generation for C10: every interleaving (BFS over histories) of  *)
(* the configurations below is printed as one SCHEDULE line.                *)
EXTENDS Wake
wsub1 == [w \in {"w2"} |-> "b"]
wsub2 == [w \in {"w1", "w2"} |-> IF w = "w1" THEN "a" ELSE "b"]
wsub2b == [w \in {"w2", "w3"} |-> "b"]
tgtB == [x \in {"x1"} |-> <<"b">>]
tgtAB == [x \in {"x1"} |-> <<"a", "b">>]
tgt2 == [x \in {"x1", "x2"} |-> IF x = "x1" THEN <<"a", "b">> ELSE <<"b">>]
modeL == [x \in {"x1", "x2"} |-> "list"]
=============================================================================
