----------------------------- MODULE Gen_StreamBytes -----------------------------
(* Pure byte-budget flow control: one message size, byte limits that are exact *)
(* multiples of it (a message whose size EQUALS the remaining budget fits), a   *)
(* message-count limit that never binds.                                        *)
EXTENDS Stream
=============================================================================
