SPECIFICATION Spec
CONSTANTS
  Callers <- mcCallers
  CallChoices <- rtCallChoices
  InitChoices <- rtInitChoices
  LatePool <- mcLatePool
  FirstMatch = FALSE
  RT = TRUE
INVARIANTS
  TypeOK
  FiredLeN
  OnlyMatching
  NonMatchingNeverFails
  AtMostOne
  Accounting
  ListingOK
  QuiescentListing
  PassedOnlyWhenExhausted
  TermExact
  TermMaximal
  TermSerial
  IntervalExact
CHECK_DEADLOCK FALSE
