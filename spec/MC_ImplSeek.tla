----------------------------- MODULE MC_ImplSeek -----------------------------
(* Mechanism vs contract: ordering chain x seek-to-time x retention x pruning *)
(* on one ordered subscription, up to three same-key messages, retention 3.   *)
EXTENDS BusImpl
Cfg0 == [ttl |-> 50, mttl |-> 3, ord |-> TRUE, filt |-> NoFilter, minB |-> 2, maxB |-> 2,
         dlt |-> "", maxAtt |-> 0, push |-> "", labels |-> <<>>]
mcTopics == <<"t1">>
mcSubs == << [name |-> "s1", topic |-> "t1", cfg |-> Cfg0] >>
mcMsgKinds == { [key |-> "K", attrs |-> <<>>] }
mcOps == {"Publish", "Pull", "Ack", "SeekTime", "PruneCompletedDeliveries", "PruneExpiredDeliveries", "Tick"}
=============================================================================
