------------------------------ MODULE Gen_Prune ------------------------------
(* Family "prune" (C15): the histories of family "mixed" with every prune / *)
(* expire / sweep job spliced in at every position, minimum ages 0, small,  *)
(* large and batch sizes 1, 2, 100.                                         *)
EXTENDS BusModel
F_has_a == [op |-> "has", k |-> "a"]
Cfg0 == [ttl |-> 40, mttl |-> 20, ord |-> FALSE, filt |-> NoFilter, minB |-> 2, maxB |-> 4,
         dlt |-> "", maxAtt |-> 0, push |-> "", labels |-> <<>>]
C1 == [name |-> "s1", topic |-> "t1", cfg |-> [Cfg0 EXCEPT !.dlt = "t2", !.maxAtt = 2]]
C2 == [name |-> "s2", topic |-> "t1", cfg |-> [Cfg0 EXCEPT !.filt = F_has_a, !.ord = TRUE]]
C3 == [name |-> "s3", topic |-> "t2", cfg |-> [Cfg0 EXCEPT !.mttl = 8]]
\* retention outlives the expiration TTL: an idle subscription is past its expiry while it still has a backlog
C5 == [name |-> "s4", topic |-> "t1", cfg |-> [Cfg0 EXCEPT !.ttl = 6, !.mttl = 60]]
C4 == [name |-> "s2", topic |-> "t2", cfg |-> Cfg0]
mcTopicNames == {"t1", "t2"}
mcSubNames == {"s1", "s2", "s3", "s4"}
mcSnapNames == {"n1"}
mcSubCfgs == {C1, C2, C3, C4, C5}
mcSetup == << [op |-> "CreateTopic", name |-> "t1"], [op |-> "CreateTopic", name |-> "t2"],
              [op |-> "CreateSub", c |-> C1], [op |-> "CreateSub", c |-> C2], [op |-> "CreateSub", c |-> C3],
              [op |-> "CreateSub", c |-> C5] >>
mcMsgKinds == { [key |-> "", attrs |-> <<>>], [key |-> "K", attrs |-> [a |-> "x"]], [key |-> "K", attrs |-> [a |-> "xy"]] }
mcPrefixPairs == {<<"x", "">>, <<"x", "x">>, <<"xy", "">>, <<"xy", "x">>, <<"xy", "xy">>}
mcTickDs == {1, 3, 7, 15}
mcProjOfName == <<>>
mcOps == {"CreateTopic", "DeleteTopic", "CreateSub", "DeleteSub", "Publish", "Pull", "Ack", "Nack", "SeekTime",
          "CreateSnap", "DLSweep", "ExpireSubs", "Tick"} \cup PruneJobs
W0 == [op \in mcOps |-> 3]
mcWeights == [W0 EXCEPT !["Publish"] = 8, !["Pull"] = 10, !["Ack"] = 8, !["Tick"] = 10, !["CreateTopic"] = 1,
                        !["CreateSnap"] = 1, !["SeekTime"] = 1, !["DeleteTopic"] = 1, !["DeleteSub"] = 2]
=============================================================================
