---------------------------- MODULE BFS_GetExpired ----------------------------
(* Bounded exhaustive histories around a subscription that is PAST its expiry   *)
(* time but not yet swept by the expiry job: it is still a live resource - Get   *)
(* succeeds, a pull is answered (and restarts its clock), creating the name      *)
(* again fails - until the job retires it; afterwards all of that flips.         *)
EXTENDS BusModel
Cfg0 == [ttl |-> 2, mttl |-> 80, ord |-> FALSE, filt |-> NoFilter, minB |-> 20, maxB |-> 30,
         dlt |-> "", maxAtt |-> 0, push |-> "", labels |-> <<>>]
C1 == [name |-> "s1", topic |-> "t1", cfg |-> Cfg0]
mcSubCfgs == {C1}
mcSetup == << [op |-> "CreateTopic", name |-> "t1"], [op |-> "CreateSub", c |-> C1] >>
mcMsgKinds == { [key |-> "", attrs |-> <<>>] }
mcProjOfName == <<>>
mcWeights == <<>>
mcOps == {"Tick", "Get", "Pull", "ExpireSubs", "CreateSub"}
Shape == TRUE
=============================================================================
