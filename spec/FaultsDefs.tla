----------------------------- MODULE FaultsDefs -----------------------------
(* The matching rule of property C18, shared by the step model (Faults),    *)
(* and the trace validators (FaultsTrace, FaultsAgg).                       *)
(*                                                                          *)
(* "a call matches only if the operation is equal and every injected        *)
(* parameter equals the call's parameter" (the call may have more).         *)
(* description.go:match additionally requires Count > 0 (Faults!Cand).      *)
EXTENDS Integers

ParamsMatch(dp, cp) == \A k \in DOMAIN dp : k \in DOMAIN cp /\ cp[k] = dp[k]
Matches(d, cl) == d.op = cl.op /\ ParamsMatch(d.params, cl.params)

Range(s) == {s[i] : i \in DOMAIN s}
Min(a, b) == IF a < b THEN a ELSE b
Max(a, b) == IF a > b THEN a ELSE b
=============================================================================
