------------------------- MODULE BFS_RecreateTopic -------------------------
(* Bounded exhaustive histories around re-creation of ONE topic name while a  *)
(* subscription of its deleted predecessor is still alive: delete / create    *)
(* the topic, create a second subscription on the new incarnation, publish,   *)
(* pull on both.  The re-created topic must inherit no subscription and the   *)
(* detached subscription must receive nothing new (C12, C02, C01).            *)
EXTENDS BusModel
Cfg0 == [ttl |-> 600, mttl |-> 80, ord |-> FALSE, filt |-> NoFilter, minB |-> 20, maxB |-> 30,
         dlt |-> "", maxAtt |-> 0, push |-> "", labels |-> <<>>]
C1 == [name |-> "s1", topic |-> "t1", cfg |-> Cfg0]
C2 == [name |-> "s2", topic |-> "t1", cfg |-> Cfg0]
mcSubCfgs == {C2}
mcSetup == << [op |-> "CreateTopic", name |-> "t1"], [op |-> "CreateSub", c |-> C1] >>
mcMsgKinds == { [key |-> "", attrs |-> <<>>] }
mcProjOfName == <<>>
mcPrefixPairs == {}
mcWeights == <<>>
mcOps == {"DeleteTopic", "CreateTopic", "CreateSub", "Publish", "Pull"}
=============================================================================
