SPECIFICATION FairSpec
CONSTANTS
  Waiters = {"w1", "w2"}
  Writers = {"x1", "x2"}
  WSub <- mcWSub
  WTargets <- mcTargets
  NotifyMode <- mcMode
  Subs = {"a", "b"}
  EarlyReturn = FALSE
  RegisterLate = FALSE
  EmitHist = FALSE
INVARIANTS TypeOK NoLostWake
CHECK_DEADLOCK FALSE
PROPERTIES Delivered
