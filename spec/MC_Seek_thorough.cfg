SPECIFICATION Spec
CONSTANTS
  TU = 1
  Jit = 0
  NeMissing = FALSE
  PrefixPairs <- mcPrefixPairs
  TopicNames <- mcTopicNames
  SubNames <- mcSubNames
  SnapNames <- mcSnapNames
  SubCfgs <- mcSubCfgs
  MsgKinds <- mcMsgKinds
  BatchMax <- mcBatchMax
  MaxMsgs = 1
  MaxTopics = 3
  MaxSubs = 4
  MaxDels = 4
  MaxTime = 5
  TickDs <- mcTickDs
  PullMaxes <- mcPullMaxes
  AckMax = 1
  ModSecs = {0, 3}
  JobAges <- mcJobAges
  JobMaxes <- mcJobMaxes
  Ops <- mcOps
  Setup <- mcSetup
  ProjOfName <- mcProjOfName
  Depth = 0
  AttBound = 2
  ViewKeep = {"pub", "done"}
  RealBackoff = FALSE
  GenBFS = FALSE
  AckAll = TRUE
  Weights <- mcWeights
INVARIANTS InvOK AckedStaysAcked AttemptsBounded OneLivePerName
PROPERTIES StepProp NoLoss OrderKept LeaseKept
VIEW View
CONSTRAINT Bounded
CHECK_DEADLOCK FALSE
