SPECIFICATION FairSpec
CONSTANTS
  TU = 1
  Jit = 0
  NeMissing = FALSE
  PrefixPairs <- mcPrefixPairs
  TopicNames <- mcTopicNames
  SubNames <- mcSubNames
  SnapNames <- mcSnapNames
  SubCfgs <- mcSubCfgs
  MsgKinds <- mcMsgKinds
  BatchMax <- mcBatchMax
  MaxMsgs = 1
  MaxTopics = 3
  MaxSubs = 4
  MaxDels = 1
  MaxTime = 4
  TickDs <- mcTickDs
  PullMaxes <- mcPullMaxes
  AckMax = 1
  ModSecs = {0, 3}
  JobAges <- mcJobAges
  JobMaxes <- mcJobMaxes
  Ops <- mcOps
  Setup <- mcSetup
  ProjOfName <- mcProjOfName
  Depth = 0
  AttBound = 9
  ViewKeep = {"done", "mpub", "subexp", "delAt"}
  RealBackoff = FALSE
  GenBFS = FALSE
  AckAll = TRUE
  Weights <- mcWeights

PROPERTIES Converges


CHECK_DEADLOCK FALSE
