\* FilterSim (C07): -simulate num=N -depth D -seed S -workers 1
SPECIFICATION Spec
CONSTANTS
  Mode = "sim"
  Depth2 = 2
  Shard = 0
  NShards = 1
  SampleNum = 0
  Seed = 1
  LawDepth = 1
  MinLeaves = 4
  MaxLeaves = 7
CHECK_DEADLOCK FALSE
