\* enumeration of the full product over every core field set (thorough tier)
SPECIFICATION Spec
CONSTANTS
  Mode = "core"
INVARIANT TypeOK
CHECK_DEADLOCK FALSE
