SPECIFICATION Spec
CONSTANTS
  TU = 10
  Jit = 0
  NeMissing = FALSE
  PrefixPairs <- mcPrefixPairs
  TopicNames <- mcTopicNames
  SubNames <- mcSubNames
  SnapNames <- mcSnapNames
  SubCfgs <- mcSubCfgs
  MsgKinds <- mcMsgKinds
  BatchMax = 2
  MaxMsgs = 6
  MaxTopics = 5
  MaxSubs = 8
  MaxDels = 40
  MaxTime = 20000000
  TickDs <- mcTickDs
  PullMaxes = {1, 10}
  AckMax = 3
  ModSecs = {0}
  JobAges = {0, 6}
  JobMaxes = {1, 100}
  Ops <- mcOps
  Setup <- mcSetup
  ProjOfName <- mcProjOfName
  Depth = 22
  AttBound = 100
  ViewKeep = {}
  RealBackoff = TRUE
  GenBFS = FALSE
  AckAll = FALSE
  Weights <- mcWeights
CHECK_DEADLOCK FALSE
