------------------------------ MODULE BusModel ------------------------------
(***************************************************************************)
(* Reference model for the contract of module Bus: one action per SQL      *)
(* transaction of the implementation (API operation, background-job run)   *)
(* plus clock advance.  Used three ways (DESIGN 2.1):                      *)
(*   - exhaustively model checked (MC_*.cfg): every transition satisfies   *)
(*     every contract clause (StepOK), the invariants hold, and the        *)
(*     history-level properties below hold in every reachable state;       *)
(*   - run with -simulate to generate scenarios (the history variable      *)
(*     `hist` holds the requests; it is printed as JSON at depth Depth);   *)
(*   - as the oracle for "model drift" in trace validation.                *)
(* Operations take no time in the model: t0 = t1 = now.                    *)
(***************************************************************************)
EXTENDS Bus, Json

CONSTANTS
  TopicNames, SubNames, SnapNames,  \* model names
  SubCfgs,        \* set of [name, topic, cfg] : what CreateSub may be called with
  MsgKinds,       \* set of [key, attrs]
  BatchMax,       \* largest publish batch
  MaxMsgs, MaxTopics, MaxSubs, MaxDels,
  MaxTime,        \* clock bound (state constraint is built into Tick)
  TickDs,         \* set of clock advances
  PullMaxes,      \* set of max_messages values
  AckMax,         \* largest number of ids in one Ack / ModAck / Nack
  ModSecs,        \* set of ModifyAckDeadline values
  JobAges, JobMaxes,
  Ops,            \* enabled operation names (action alphabet of the family)
  ProjOfName,     \* function: model resource name -> project id (names outside its domain: "p")
  Setup,          \* sequence of CreateTopic / CreateSub requests applied first, in order
  Depth,          \* behaviours are printed when this depth is reached (0 = never)
  AttBound,       \* state constraint: largest attempt count explored
  ViewKeep,       \* which timestamps the exhaustive VIEW keeps (see View)
  Weights,        \* generation only: operation name -> weight (see GenNext)
  RealBackoff,    \* TRUE: the model uses the documented curve min(max, min * 1.1^n) (lease family)
  GenBFS,         \* generation by exhaustive enumeration of all histories of length Depth (TLC BFS) instead of -simulate
  AckAll          \* TRUE: Ack/ModAck/Nack may name any delivery; FALSE: only delivered ones

VARIABLES S, ev, hist, cls
vars == <<S, ev, hist, cls>>

NoEv == [op |-> "Init"]

Init0 == [now |-> 0, topics |-> <<>>, subs |-> <<>>, msgs |-> <<>>, del |-> <<>>,
          snaps |-> <<>>, acked |-> {}, gsnap |-> <<>>, gord |-> <<>>,
          nt |-> 0, ns |-> 0, nm |-> 0, nd |-> 0, ph |-> 0]

Init == S = Init0 /\ ev = NoEv /\ hist = <<>> /\ cls = <<>>

\* complete a step: attach times, compute ghost state
Do(e0, C2) ==
  LET e == e0 @@ [t0 |-> S.now, t1 |-> S.now]
      S2 == [now |-> S.now, topics |-> C2.topics, subs |-> C2.subs, msgs |-> C2.msgs,
             del |-> C2.del, snaps |-> C2.snaps,
             acked |-> GhostAcked(S, e, C2), gsnap |-> GhostSnap(S, e, C2), gord |-> GhostOrd(S, e, C2),
             nt |-> C2.nt, ns |-> C2.ns, nm |-> C2.nm, nd |-> C2.nd,
             ph |-> IF S.ph < Len(Setup) THEN S.ph + 1 ELSE S.ph]
  IN /\ S' = S2 /\ ev' = e /\ hist' = IF Depth > 0 THEN Append(hist, e) ELSE hist

Fail(e0, code) == Do(e0 @@ [code |-> code], S)
OK(e0, C2) == Do(e0 @@ [code |-> "OK"], C2)

Pick(X) == CHOOSE x \in X : TRUE
Proj(nm) == IF nm \in DOMAIN ProjOfName THEN ProjOfName[nm] ELSE "p"
Projects == {"p"} \cup {ProjOfName[n] : n \in DOMAIN ProjOfName}
RECURSIVE TakeK(_, _)
TakeK(X, k) == IF k = 0 \/ X = {} THEN {} ELSE LET x == Pick(X) IN {x} \cup TakeK(X \ {x}, k - 1)
RECURSIVE SeqOfSet(_)
SeqOfSet(X) == IF X = {} THEN <<>> ELSE LET x == Pick(X) IN <<x>> \o SeqOfSet(X \ {x})
\* all k-subsets of a small set; one canonical k-subset of a large one
KSub(X, k) == IF Cardinality(X) <= k THEN {X}
              ELSE IF Cardinality(X) <= 7 THEN {c \in SUBSET X : Cardinality(c) = k}
              ELSE {TakeK(X, k)}
\* min(max, min * 1.1^n) in integer arithmetic (floor at every step; defaults 10 s / 10 min)
RECURSIVE Pow11(_, _, _)
Pow11(b, cap, n) == IF b >= cap THEN cap ELSE IF n = 0 THEN b ELSE Pow11((b * 11) \div 10, cap, n - 1)
RealBo(minB, maxB, n) ==
  Pow11(IF minB > 0 THEN minB ELSE 10 * TU, IF maxB > 0 THEN maxB ELSE 600 * TU, n)
MCBackoff(s, n) == IF RealBackoff THEN RealBo(S.subs[s].minB, S.subs[s].maxB, n)
                   ELSE Min2(S.subs[s].maxB, S.subs[s].minB + Max2(n, 1) - 1)

NewDelRec(s, n) == [n |-> n, done |-> -1, att |-> 0, at |-> S.now + S.subs[s].delay,
                    exp |-> S.now + S.subs[s].mttl, pub |-> S.now]
NextK(del, m, s) == 1 + SetMax({d[3] : d \in {x \in DOMAIN del : x[1] = m /\ x[2] = s}} \cup {0})

---------------------------------------------------------------------------
\* x: extra event fields (race |-> n: the request is issued n times concurrently)
NoX == [z \in {} |-> 0]
CreateTopicX(nm, x) ==
  LET e == [op |-> "CreateTopic", name |-> nm, labels |-> <<>>] @@ x IN
  IF TopicsNamed(S, nm) # {} THEN Fail(e, "AlreadyExists")
  ELSE /\ S.nt < MaxTopics
       /\ OK(e, [S EXCEPT !.nt = @ + 1,
                          !.topics = (S.nt + 1 :> [name |-> nm, live |-> TRUE, delAt |-> -1,
                                                   labels |-> <<>>, proj |-> Proj(nm)]) @@ @])

CreateTopic(nm) == CreateTopicX(nm, NoX)

DeleteTopic(nm) ==
  LET e == [op |-> "DeleteTopic", name |-> nm] T == TopicsNamed(S, nm) IN
  IF T = {} THEN Fail(e, "NotFound")
  ELSE OK(e, [S EXCEPT
         !.topics = [t \in DOMAIN @ |-> IF t \in T THEN [@[t] EXCEPT !.live = FALSE, !.delAt = S.now]
                                        ELSE @[t]],
         !.snaps = [n \in {x \in DOMAIN @ : @[x].topic \notin T} |-> @[n]]])

CreateSubX(c, x) ==
  LET e == [op |-> "CreateSub", name |-> c.name, topic |-> c.topic, cfg |-> c.cfg] @@ x
      T == TopicsNamed(S, c.topic)
      DT == IF c.cfg.dlt = "" THEN {0} ELSE TopicsNamed(S, c.cfg.dlt)
      cf == Dflt(c.cfg)
  IN
  IF SubsNamed(S, c.name) # {} THEN Fail(e, "AlreadyExists")
  ELSE IF T = {} \/ DT = {} THEN Fail(e, "NotFound")
  ELSE /\ S.ns < MaxSubs
       /\ OK(e, [S EXCEPT !.ns = @ + 1,
                 !.subs = (S.ns + 1 :>
                    [name |-> c.name, topic |-> Pick(T), live |-> TRUE, delAt |-> -1,
                     exp |-> S.now + cf.ttl, ttl |-> cf.ttl, mttl |-> cf.mttl, ord |-> cf.ord,
                     filt |-> cf.filt, minB |-> cf.minB, maxB |-> cf.maxB, dlt |-> Pick(DT),
                     maxAtt |-> cf.maxAtt, delay |-> 0, push |-> cf.push, labels |-> cf.labels,
                     proj |-> Proj(c.name)]) @@ @])

CreateSub(c) == CreateSubX(c, NoX)

DeleteSub(nm) ==
  LET e == [op |-> "DeleteSub", name |-> nm] X == SubsNamed(S, nm) IN
  IF X = {} THEN Fail(e, "NotFound")
  ELSE OK(e, [S EXCEPT !.subs = [s \in DOMAIN @ |->
                 IF s \in X THEN [@[s] EXCEPT !.live = FALSE, !.delAt = S.now] ELSE @[s]]])

\* UpdateSubscription with the configuration of entry c of SubCfgs as the new value and a mask
UpdMasks == {<<"filt">>, <<"retry">>, <<"labels">>, <<"ttl">>, <<"mttl">>, <<"dl">>, <<"filt", "retry">>, <<"ord", "labels">>}
UpdateSub(c, mask) ==
  LET X == SubsNamed(S, c.name)
      e == [op |-> "UpdateSub", name |-> c.name, mask |-> mask, cfg |-> c.cfg]
      DT == IF c.cfg.dlt = "" THEN {0} ELSE TopicsNamed(S, c.cfg.dlt)
      MF == MaskFields(mask)
      cf == Dflt(c.cfg)
  IN
  IF X = {} THEN Fail(e, "NotFound")
  ELSE IF "dl" \in RangeOf(mask) /\ DT = {} THEN Fail(e, "NotFound")
  ELSE OK(e, [S EXCEPT !.subs = [s \in DOMAIN @ |->
         IF s \notin X THEN @[s]
         ELSE [f \in DOMAIN @[s] |->
                 IF f = "dlt" /\ f \in MF THEN Pick(DT)
                 ELSE IF f = "exp" /\ "ttl" \in MF THEN S.now + cf.ttl
                 ELSE IF f \in MF /\ f # "dlt" THEN cf[f]
                 ELSE @[s][f]]]])

Delays == {0, 3}   \* injected delivery delays (seconds)
SetDelay(nm, d) ==
  LET e == [op |-> "SetDelay", name |-> nm, delay |-> d * TU] X == SubsNamed(S, nm) IN
  IF X = {} THEN Fail(e, "NotFound")
  ELSE OK(e, [S EXCEPT !.subs = [s \in DOMAIN @ |-> IF s \in X THEN [@[s] EXCEPT !.delay = d * TU] ELSE @[s]]])

Batches == UNION {[1..n -> MsgKinds] : n \in 1..BatchMax}

Publish(tnm, batch) ==
  LET e == [op |-> "Publish", topic |-> tnm, msgs |-> batch] T == TopicsNamed(S, tnm) IN
  IF T = {} THEN Fail(e, "NotFound")
  ELSE
    LET t == Pick(T) N == Len(batch)
        ids == [i \in 1..N |-> S.nm + i]
        newM == [m \in {ids[i] : i \in 1..N} |->
                   LET i == m - S.nm IN
                   [topic |-> t, pub |-> S.now, key |-> batch[i].key, attrs |-> batch[i].attrs]]
        pairs == {<<i, s>> \in (1..N) \X LiveSubsOn(S, t) : Match(S.subs[s].filt, batch[i].attrs)}
        newD == [d \in {<<ids[p[1]], p[2], 1>> : p \in pairs} |-> NewDelRec(d[2], S.nd + (d[1] - S.nm))]
    IN /\ S.nm + N <= MaxMsgs
       /\ Cardinality(DOMAIN S.del) + Cardinality(pairs) <= MaxDels
       /\ OK(e @@ [ids |-> ids],
             [S EXCEPT !.nm = @ + N, !.nd = @ + N, !.msgs = newM @@ @, !.del = newD @@ @])

\* dead-letter the set D of deliveries: complete them and forward copies
DeadLetter(del, D) ==
  LET fw == {<<d, x>> \in D \X DOMAIN S.subs : x \in FwdSubs(S, d)}
      rank(d) == Cardinality({d2 \in D : S.del[d2].n <= S.del[d].n})
      newD == [nd \in {<<p[1][1], p[2], NextK(del, p[1][1], p[2])>> : p \in fw} |->
                 NewDelRec(nd[2], S.nd + rank(CHOOSE d \in D : d[1] = nd[1] /\ nd[2] \in FwdSubs(S, d)))]
  IN newD @@ [d \in DOMAIN del |-> IF d \in D THEN [del[d] EXCEPT !.done = S.now] ELSE del[d]]

Elig(s) == {d \in DelsOf(S, s) : /\ ~IsDone(S, d) /\ S.del[d].at <= S.now /\ S.del[d].exp > S.now
                                 /\ ~Blocked(S, d, S.now)}

\* x: extra event fields (race |-> r, each |-> k: the pull is issued as r concurrent pulls of k
\* messages each; together they must behave like ONE pull of r*k - nothing handed out twice)
PullX(snm, max, x) ==
  LET e == [op |-> "Pull", sub |-> snm, max |-> max] @@ x X == SubsNamed(S, snm) IN
  IF X = {} THEN Fail(e, "NotFound")
  ELSE
    LET s == Pick(X) E == Elig(s) k == Min2(max, Cardinality(E)) IN
    \E C \in KSub(E, k) :
      LET D == {d \in C : DLable(S, d)}
          R == C \ D
          \* a sequence of the returned deliveries (order is irrelevant to the contract)
          Rs == SeqOfSet(R)
          got == [i \in DOMAIN Rs |->
                    [d |-> Rs[i], att |-> S.del[Rs[i]].att + 1, ok |-> TRUE,
                     bo |-> MCBackoff(s, S.del[Rs[i]].att + 1)]]
          del1 == [d \in DOMAIN S.del |->
                    IF d \in R THEN [S.del[d] EXCEPT !.att = @ + 1,
                                                     !.at = S.now + MCBackoff(s, S.del[d].att + 1)]
                    ELSE S.del[d]]
          del2 == DeadLetter(del1, D)
      IN /\ Cardinality(DOMAIN del2) <= MaxDels
         /\ OK(e @@ [got |-> got],
               [S EXCEPT !.del = del2, !.nd = @ + Cardinality(D),
                         !.subs = [@ EXCEPT ![s].exp = S.now + S.subs[s].ttl]])
Pull(snm, max) == PullX(snm, max, NoX)

Delivered == {d \in Dels(S) : S.del[d].att > 0}
AckPool == IF AckAll \/ Delivered = {} THEN Dels(S) ELSE Delivered
\* a blocking pull with a short client deadline: delivers like Pull when something is due,
\* otherwise ends with DeadlineExceeded having refreshed the subscription's expiry
PullWait(snm) ==
  LET X == SubsNamed(S, snm) e == [op |-> "PullTimeout", sub |-> snm, wait |-> TRUE] IN
  IF X = {} THEN Fail(e, "NotFound")
  ELSE IF Elig(Pick(X)) # {} THEN Pull(snm, 10)
  ELSE Do(e @@ [code |-> "DeadlineExceeded"],
          [S EXCEPT !.subs = [@ EXCEPT ![Pick(X)].exp = S.now + S.subs[Pick(X)].ttl]])

IdSeqs == {q \in UNION {[1..n -> AckPool] : n \in 1..AckMax} :
             \A i, j \in DOMAIN q : i < j => S.del[q[i]].n < S.del[q[j]].n \/
                                            (S.del[q[i]].n = S.del[q[j]].n /\ q[i][2] < q[j][2])}

Ack(snm, ids) ==
  LET e == [op |-> "Ack", sub |-> snm, ids |-> ids] I == RangeOf(ids) IN
  OK(e, [S EXCEPT !.del = [d \in DOMAIN @ |->
           IF d \in I /\ @[d].done = -1 THEN [@[d] EXCEPT !.done = S.now] ELSE @[d]]])

ModAck(snm, ids, secs) ==
  LET e == [op |-> "ModAck", sub |-> snm, ids |-> ids, secs |-> secs] I == RangeOf(ids) IN
  OK(e, [S EXCEPT !.del = [d \in DOMAIN @ |->
           IF d \in I /\ @[d].done = -1
           THEN IF secs > 0 THEN [@[d] EXCEPT !.at = Max2(@, S.now + secs * TU)]
                ELSE [@[d] EXCEPT !.at = S.now + secs * TU]
           ELSE @[d]]])

Nack(ids) ==
  LET I == RangeOf(ids)
      live == {d \in I : S.del[d].done = -1 /\ S.del[d].exp > S.now}
      D == {d \in live : DLable(S, d) /\ SubLive(S, d[2])}
      e == [op |-> "Nack", ids |-> ids,
            bo |-> [i \in DOMAIN ids |-> MCBackoff(ids[i][2], S.del[ids[i]].att)]]
      del1 == [d \in DOMAIN S.del |->
                IF d \in live \ D THEN [S.del[d] EXCEPT !.at = S.now + MCBackoff(d[2], S.del[d].att)]
                ELSE S.del[d]]
      del2 == DeadLetter(del1, D)
  IN /\ Cardinality(DOMAIN del2) <= MaxDels
     /\ OK(e, [S EXCEPT !.del = del2, !.nd = @ + Cardinality(D)])

RECURSIVE PickPos(_, _, _)
PickPos(q, P, i) == IF i > Len(q) THEN <<>> ELSE (IF i \in P THEN <<q[i]>> ELSE <<>>) \o PickPos(q, P, i + 1)
\* one StreamingPull request that acknowledges ids and sets a zero deadline on nids (the
\* deliveries the stream's sender hands out before and after it are Pull steps of their own)
\* one request with acknowledgements and nacks, one transaction (the HTTP pusher's shape)
AckNack(snm, ids, nids) ==
  LET X == SubsNamed(S, snm)
      A == RangeOf(ids)
      delA == [d \in DOMAIN S.del |->
                IF d \in A /\ S.del[d].done = -1 THEN [S.del[d] EXCEPT !.done = S.now] ELSE S.del[d]]
      I == RangeOf(nids)
      live == {d \in I : delA[d].done = -1 /\ delA[d].exp > S.now}
      D == {d \in live : DLable(S, d) /\ SubLive(S, d[2])}
      e == [op |-> "AckNack", sub |-> snm, ids |-> ids, nids |-> nids,
            bo |-> [i \in DOMAIN nids |-> MCBackoff(nids[i][2], S.del[nids[i]].att)]]
      del1 == [d \in DOMAIN S.del |->
                IF d \in live \ D THEN [delA[d] EXCEPT !.at = S.now + MCBackoff(d[2], S.del[d].att)]
                ELSE delA[d]]
      del2 == DeadLetter(del1, D)
  IN IF X = {} THEN Fail(e, "NotFound")
     ELSE /\ Cardinality(DOMAIN del2) <= MaxDels
          /\ OK(e, [S EXCEPT !.del = del2, !.nd = @ + Cardinality(D)])

\* fcb: the stream's max_outstanding_bytes (0 = practically unlimited); a small budget makes the
\* stream's fetches skip messages that do not fit
StreamAN(snm, ids, nids, fcb) ==
  LET X == SubsNamed(S, snm)
      A == RangeOf(ids)
      I == RangeOf(nids)
      e == [op |-> "StreamAN", sub |-> snm, ids |-> ids, nids |-> nids, fcb |-> fcb]
  IN IF X = {} THEN Fail(e, "NotFound")
     ELSE OK(e, [S EXCEPT !.del = [d \in DOMAIN @ |->
                   IF d \in A /\ @[d].done = -1 THEN [@[d] EXCEPT !.done = S.now]
                   ELSE IF d \in I /\ @[d].done = -1 THEN [@[d] EXCEPT !.at = S.now]
                   ELSE @[d]]])

SeekApply(s, wantOut(_)) ==
  [d \in DOMAIN S.del |->
     LET r == S.del[d] IN
     IF d[2] # s \/ r.exp < S.now THEN r
     ELSE IF wantOut(d)
          THEN IF r.done # -1
               THEN [r EXCEPT !.done = -1, !.at = S.now, !.exp = S.now + S.subs[s].mttl]
               ELSE r
          ELSE IF r.done = -1 THEN [r EXCEPT !.done = S.now] ELSE r]

SeekTimeM(snm, T, m) ==
  LET X == SubsNamed(S, snm)
      e == [op |-> "SeekTime", sub |-> snm, T |-> T, m |-> m,
            le |-> SeqOfSet({d \in Dels(S) : d[2] \in X /\ S.del[d].pub <= T})] IN
  IF X = {} THEN Fail(e, "NotFound")
  ELSE LET s == Pick(X) W(d) == S.del[d].pub > T IN
       OK(e, [S EXCEPT !.del = SeekApply(s, W)])

SeekTime(snm, T) == SeekTimeM(snm, T, 0)
\* seek to exactly the publish time of message m (boundary case: "at or before")
SeekTimeAt(snm, m) == SeekTimeM(snm, S.msgs[m].pub, m)

CreateSnapX(nm, snm, x) ==
  LET e == [op |-> "CreateSnap", name |-> nm, sub |-> snm] @@ x X == SubsNamed(S, snm) IN
  IF nm \in DOMAIN S.snaps THEN Fail(e, "AlreadyExists")
  ELSE IF X = {} THEN Fail(e, "NotFound")
  ELSE OK(e, [S EXCEPT !.snaps = (nm :> [topic |-> S.subs[Pick(X)].topic, proj |-> Proj(nm)]) @@ @])

CreateSnap(nm, snm) == CreateSnapX(nm, snm, NoX)

DeleteSnap(nm) ==
  LET e == [op |-> "DeleteSnap", name |-> nm] IN
  IF nm \notin DOMAIN S.snaps THEN Fail(e, "NotFound")
  ELSE OK(e, [S EXCEPT !.snaps = [n \in DOMAIN @ \ {nm} |-> @[n]]])

SeekSnap(snm, nm) ==
  LET e == [op |-> "SeekSnap", sub |-> snm, snap |-> nm] X == SubsNamed(S, snm) IN
  IF X = {} \/ nm \notin DOMAIN S.snaps THEN Fail(e, "NotFound")
  ELSE LET s == Pick(X) g == S.gsnap[nm]
           W(d) == d[1] \in g.unacked \/ S.del[d].pub > g.at2 \/
                   (d[1] \notin g.seen /\ S.del[d].done = -1) IN
       OK(e, [S EXCEPT !.del = SeekApply(s, W)])

DLSweep(max) ==
  LET e == [op |-> "DLSweep", max |-> max]
      due == {d \in Dels(S) : /\ ~IsDone(S, d) /\ DLable(S, d) /\ SubLive(S, d[2])
                              /\ S.del[d].at <= S.now /\ S.del[d].exp > S.now}
      k == Min2(max, Cardinality(due))
  IN \E D \in KSub(due, k) :
       LET del2 == DeadLetter(S.del, D) IN
       /\ Cardinality(DOMAIN del2) <= MaxDels
       /\ OK(e, [S EXCEPT !.del = del2, !.nd = @ + Cardinality(D)])

ExpireSubs(max) ==
  LET e == [op |-> "ExpireSubs", max |-> max]
      due == {s \in DOMAIN S.subs : S.subs[s].live /\ S.subs[s].exp < S.now}
      k == Min2(max, Cardinality(due))
  IN \E E \in KSub(due, k) :
       OK(e, [S EXCEPT !.subs = [s \in DOMAIN @ |->
                IF s \in E THEN [@[s] EXCEPT !.live = FALSE, !.delAt = S.now] ELSE @[s]]])

Restrict(f, D) == [x \in D |-> f[x]]
Prune(job, age, max) ==
  LET e == [op |-> job, minAge |-> age, max |-> max]
      lim == S.now - age
      Some(X) == KSub(X, Min2(max, Cardinality(X)))
  IN
  CASE job = "PruneCompletedDeliveries" ->
         \E X \in Some({d \in Dels(S) : IsDone(S, d) /\ S.del[d].done <= lim}) :
           OK(e, [S EXCEPT !.del = Restrict(@, DOMAIN @ \ X)])
    [] job = "PruneExpiredDeliveries" ->
         \E X \in Some({d \in Dels(S) : S.del[d].exp < S.now}) :
           OK(e, [S EXCEPT !.del = Restrict(@, DOMAIN @ \ X)])
    [] job = "PruneDeletedSubscriptionDeliveries" ->
         \E X \in Some({d \in Dels(S) : ~S.subs[d[2]].live /\ S.subs[d[2]].delAt <= lim}) :
           OK(e, [S EXCEPT !.del = Restrict(@, DOMAIN @ \ X)])
    [] job = "PruneCompletedMessages" ->
         \E X \in Some({m \in DOMAIN S.msgs : S.msgs[m].pub <= lim /\ \A d \in Dels(S) : d[1] # m}) :
           OK(e, [S EXCEPT !.msgs = Restrict(@, DOMAIN @ \ X)])
    [] job = "PruneDeletedSubscriptions" ->
         \E X \in Some({s \in DOMAIN S.subs : /\ ~S.subs[s].live /\ S.subs[s].delAt <= lim
                                               /\ DelsOf(S, s) = {}}) :
           OK(e, [S EXCEPT !.subs = Restrict(@, DOMAIN @ \ X)])
    [] job = "PruneDeletedTopics" ->
         \E X \in Some({t \in DOMAIN S.topics : /\ ~S.topics[t].live /\ S.topics[t].delAt <= lim
                                                 /\ \A s \in DOMAIN S.subs : S.subs[s].topic # t}) :
           \* messages and snapshots reference their topic: the delete fails as a whole
           IF \E t \in X : (\E m \in DOMAIN S.msgs : S.msgs[m].topic = t)
                           \/ (\E n \in DOMAIN S.snaps : S.snaps[n].topic = t)
           THEN Fail(e, "Error")
           ELSE OK(e, [S EXCEPT !.topics = Restrict(@, DOMAIN @ \ X),
                                !.subs = [s \in DOMAIN @ |->
                                   IF @[s].dlt \in X THEN [@[s] EXCEPT !.dlt = 0] ELSE @[s]]])

Tick(d) ==
  /\ S.now + d <= MaxTime
  /\ LET e == [op |-> "Tick", d |-> d, t0 |-> S.now, t1 |-> S.now + d] IN
     /\ S' = [S EXCEPT !.now = @ + d] /\ ev' = e /\ hist' = IF Depth > 0 THEN Append(hist, e) ELSE hist

\* advance the clock to just before / just after the earliest pending retry deadline
SetMin(X) == CHOOSE x \in X : \A y \in X : x <= y
NearOffsets == {0 - ((3 * TU) \div 2), (3 * TU) \div 2}
TickNear(off) ==
  LET F == {S.del[d].at : d \in {x \in Dels(S) : ~IsDone(S, x) /\ S.del[x].at > S.now /\ S.del[x].exp > S.now}} IN
  /\ F # {}
  /\ SetMin(F) + off > S.now
  /\ Tick(SetMin(F) + off - S.now)

Get(kind, nm) ==
  LET live == CASE kind = "topic" -> TopicsNamed(S, nm) # {}
                [] kind = "sub" -> SubsNamed(S, nm) # {}
                [] kind = "snap" -> nm \in DOMAIN S.snaps
      cfg == CASE kind = "topic" /\ live -> [labels |-> S.topics[Pick(TopicsNamed(S, nm))].labels]
               [] kind = "sub" /\ live ->
                    LET s == Pick(SubsNamed(S, nm)) IN
                    [f \in CfgFields |-> S.subs[s][f]] @@
                    [dlt |-> ShownTopic(S, S.subs[s].dlt), topic |-> ShownTopic(S, S.subs[s].topic)]
               [] kind = "snap" /\ live -> [topic |-> ShownTopic(S, S.snaps[nm].topic)]
               [] OTHER -> <<>>
      e == [op |-> "Get", kind |-> kind, name |-> nm, cfg |-> cfg]
  IN IF live THEN OK(e, S) ELSE Fail(e, "NotFound")

List(kind, pr, page) ==
  LET names == CASE kind = "topic" -> {S.topics[t].name : t \in {x \in DOMAIN S.topics : S.topics[x].live /\ S.topics[x].proj = pr}}
                 [] kind = "sub" -> {S.subs[s].name : s \in {x \in DOMAIN S.subs : S.subs[x].live /\ S.subs[x].proj = pr}}
                 [] kind = "snap" -> {n \in DOMAIN S.snaps : S.snaps[n].proj = pr}
  IN OK([op |-> "List", kind |-> kind, proj |-> pr, page |-> page, names |-> SeqOfSet(names)], S)

ListTopicSubs(nm, page) ==
  LET T == TopicsNamed(S, nm)
      e == [op |-> "List", kind |-> "topicsubs", name |-> nm, proj |-> "p", page |-> page] IN
  IF T = {} THEN Fail(e @@ [names |-> <<>>], "NotFound")
  ELSE OK(e @@ [names |-> SeqOfSet({S.subs[s].name : s \in {x \in DOMAIN S.subs : S.subs[x].live /\ S.subs[x].topic \in T}})], S)

---------------------------------------------------------------------------
SetupStep ==
  LET r == Setup[S.ph + 1] IN
  CASE r.op = "CreateTopic" -> CreateTopic(r.name)
    [] r.op = "CreateSub" -> CreateSub(r.c)
    [] r.op = "Publish" -> Publish(r.topic, r.msgs)
    [] r.op = "SetDelay" -> SetDelay(r.name, r.d)
    [] r.op = "Tick" ->
         LET e == [op |-> "Tick", d |-> r.d, t0 |-> S.now, t1 |-> S.now + r.d] IN
         /\ S' = [S EXCEPT !.now = @ + r.d, !.ph = @ + 1] /\ ev' = e
         /\ hist' = IF Depth > 0 THEN Append(hist, e) ELSE hist

SeekTargets == IF S.now <= 8 THEN 0..(S.now + 1)
               ELSE {0, S.now + 1} \cup {S.now - k : k \in {0, 1, 2, 4, 7}}

SeekAny ==
  \/ \E nm \in SubNames, T \in SeekTargets : SeekTime(nm, T)
  \/ \E nm \in SubNames, m \in DOMAIN S.msgs : SeekTimeAt(nm, m)

\* -simulate: when the history has Depth requests, print it once and stop
Emit == /\ PrintT(<<"SCENARIO", ToJson(hist)>>)
        /\ hist' = Append(hist, [op |-> "End"]) /\ UNCHANGED <<S, ev>>

GetAny ==
  \/ \E nm \in TopicNames : Get("topic", nm)
  \/ \E nm \in SubNames : Get("sub", nm)
  \/ \E nm \in SnapNames : Get("snap", nm)

OpNext(op) ==
  CASE op = "CreateTopic" -> \E nm \in TopicNames : CreateTopic(nm)
    [] op = "DeleteTopic" -> \E nm \in TopicNames : DeleteTopic(nm)
    [] op = "CreateSub" -> \E c \in SubCfgs : CreateSub(c)
    [] op = "DeleteSub" -> \E nm \in SubNames : DeleteSub(nm)
    [] op = "RaceCreate" -> \E r \in {2, 3} :
          LET x == [race |-> r] IN
          \/ \E nm \in TopicNames : CreateTopicX(nm, x)
          \/ \E c \in SubCfgs : CreateSubX(c, x)
          \/ \E n \in SnapNames, nm \in SubNames : CreateSnapX(n, nm, x)
    [] op = "UpdateSub" -> \E c \in SubCfgs, mk \in UpdMasks : UpdateSub(c, mk)
    [] op = "UpdateFilter" -> \E c \in SubCfgs : UpdateSub(c, <<"filt">>)
    [] op = "UpdateRetry" -> \E c \in SubCfgs : UpdateSub(c, <<"retry">>)
    [] op = "UpdateDL" -> \E c \in SubCfgs : UpdateSub(c, <<"dl">>)
    [] op = "UpdateTTL" -> \E c \in SubCfgs : UpdateSub(c, <<"ttl">>) \/ UpdateSub(c, <<"mttl">>)
    [] op = "SetDelay" -> \E nm \in SubNames, d \in Delays : SetDelay(nm, d)
    [] op = "Publish" -> \E nm \in TopicNames, b \in Batches : Publish(nm, b)
    [] op = "Pull" -> \E nm \in SubNames, k \in PullMaxes : Pull(nm, k)
    [] op = "RacePull" -> \E nm \in SubNames, k \in {1, 2}, r \in {2, 3} : PullX(nm, k * r, [race |-> r, each |-> k])
    [] op = "PullWait" -> \E nm \in SubNames : PullWait(nm)
    \* pull on the subscription of the history's latest pull (any, if none yet): lets one delivery
    \* climb its attempt ladder (family "ladder")
    [] op = "PullSame" ->
         LET P == {i \in DOMAIN hist : hist[i].op = "Pull"} IN
         IF P = {} THEN \E nm \in SubNames : Pull(nm, 10)
         ELSE Pull(hist[SetMax(P)].sub, 10)
    [] op = "Ack" -> \E nm \in SubNames, q \in IdSeqs : Ack(nm, q)
    [] op = "ModAck" -> \E nm \in SubNames, q \in IdSeqs, x \in ModSecs : ModAck(nm, q, x)
    [] op = "Nack" -> \E q \in IdSeqs : Nack(q)
    [] op = "AckNack" -> \E nm \in SubNames, q \in IdSeqs, P \in SUBSET (1..AckMax) :
                           AckNack(nm, PickPos(q, P, 1), PickPos(q, (1..AckMax) \ P, 1))
    [] op = "StreamAN" -> \E nm \in SubNames, q \in IdSeqs, P \in SUBSET (1..AckMax), b \in (IF Depth > 0 THEN {0, 40, 70, 100} ELSE {0}) :
                            StreamAN(nm, PickPos(q, P, 1), PickPos(q, (1..AckMax) \ P, 1), b)
    [] op = "SeekTime" -> SeekAny
    [] op = "CreateSnap" -> \E n \in SnapNames, nm \in SubNames : CreateSnap(n, nm)
    [] op = "DeleteSnap" -> \E n \in SnapNames : DeleteSnap(n)
    [] op = "SeekSnap" -> \E n \in SnapNames, nm \in SubNames : SeekSnap(nm, n)
    [] op = "DLSweep" -> \E k \in JobMaxes : DLSweep(k)
    [] op = "ExpireSubs" -> \E k \in JobMaxes : ExpireSubs(k)
    [] op \in PruneJobs -> \E a \in JobAges, k \in JobMaxes : Prune(op, a, k)
    [] op = "Get" -> GetAny
    [] op = "List" -> \/ \E k \in {"topic", "sub", "snap"}, pr \in Projects, pg \in {0, 1, 2, 3, 100} : List(k, pr, pg)
                      \/ \E nm \in TopicNames, pg \in {0, 1, 2, 100} : ListTopicSubs(nm, pg)
    [] op = "Tick" -> \E d \in TickDs : Tick(d)
    [] op = "TickNear" -> \E off \in NearOffsets : TickNear(off)

(* Generation (-simulate): TLC chooses uniformly among successor STATES,    *)
(* which starves operations with few parameter choices (clock advances).    *)
(* A generation step is therefore split in two: first an operation class is *)
(* drawn (one successor per unit of weight, kept in `cls`), then a          *)
(* successor of that class; a unit clock advance is always offered as well  *)
(* so that no behaviour dies before Depth.                                  *)
GenClasses == UNION {{<<op, i>> : i \in 1..Weights[op]} : op \in Ops}
GenNext ==
  IF cls = <<>>
  THEN \E c \in GenClasses : cls' = c /\ UNCHANGED <<S, ev, hist>>
  ELSE (OpNext(cls[1]) \/ Tick(1)) /\ cls' = <<>>

Next ==
  IF Depth > 0 /\ Len(hist) >= Depth THEN (Len(hist) = Depth /\ Emit /\ cls' = cls) ELSE
  IF S.ph < Len(Setup) THEN SetupStep /\ cls' = cls ELSE
  IF Depth > 0 /\ ~GenBFS THEN GenNext ELSE (\E op \in Ops : OpNext(op)) /\ cls' = cls

Spec == Init /\ [][Next]_vars

\* weak fairness of every background job (any parameters) and of the clock
JobStep == \/ \E j \in PruneJobs, a \in JobAges, k \in JobMaxes : Prune(j, a, k)
           \/ \E k \in JobMaxes : ExpireSubs(k)
mvars == <<S, ev, hist>>
FairJobs == /\ \A j \in PruneJobs : WF_mvars(\E a \in JobAges, k \in JobMaxes : Prune(j, a, k))
            /\ WF_mvars(\E d \in TickDs : Tick(d))
FairSpec == Spec /\ FairJobs

---------------------------------------------------------------------------
(* Properties checked by TLC on the model.                                 *)

\* every transition of the model satisfies every clause of the contract
StepOK == V(S, ev', S') \cup VGeneric(S, ev', S') = {}
StepProp == [][StepOK]_vars
InvOK == Inv(S) = {}

\* history-level statements, as invariants / action properties
\* C03: an acknowledged delivery is never outstanding again (until a seek)
AckedStaysAcked == \A d \in S.acked : d \in Dels(S) => IsDone(S, d)
\* C06: never delivered more than N times
AttemptsBounded == \A d \in Dels(S) : HasDL(S, d[2]) => S.del[d].att <= S.subs[d[2]].maxAtt
\* C12
OneLivePerName ==
  /\ \A a, b \in DOMAIN S.topics :
       (S.topics[a].live /\ S.topics[b].live /\ S.topics[a].name = S.topics[b].name) => a = b
  /\ \A a, b \in DOMAIN S.subs :
       (S.subs[a].live /\ S.subs[b].live /\ S.subs[a].name = S.subs[b].name) => a = b
\* C01: an outstanding delivery only disappears for one of the listed reasons
Out(X, t) == {d \in Dels(X) : OutDef(X, d, t)}
RetiredM(d) ==
  \/ ev'.op \in {"Ack", "StreamAN", "AckNack"} /\ d \in RangeOf(ev'.ids)
  \/ ev'.op = "AckNack" /\ d \in RangeOf(ev'.nids) /\ DLable(S, d)
  \/ ev'.op \in {"Pull", "Nack", "DLSweep"} /\ DLable(S, d)
  \/ ev'.op \in {"DeleteSub", "ExpireSubs"} /\ ~SubLive(S', d[2])
  \/ ev'.op \in {"SeekTime", "SeekSnap"} /\ SubsNamed(S, ev'.sub) = {d[2]}
  \/ ev'.op = "Tick" /\ S.del[d].exp <= S'.now
NoLoss == [][\A d \in Out(S, S.now) : d \in Out(S', S'.now) \/ RetiredM(d)]_vars
\* C05: no pull returns a keyed message while an earlier same-key message of
\* that ordered subscription is outstanding
OrderKept ==
  [][ev'.op = "Pull" /\ ev'.code = "OK" =>
       \A i \in DOMAIN ev'.got : ~Blocked(S, ev'.got[i].d, S.now)]_vars
\* C04: a delivered message is not handed out again before its deadline
LeaseKept ==
  [][ev'.op = "Pull" /\ ev'.code = "OK" =>
       \A i \in DOMAIN ev'.got : S.del[ev'.got[i].d].at <= S.now]_vars

---------------------------------------------------------------------------

(* C15, second half (design level): once no live topic, no live subscription *)
(* and no snapshot is left, fair runs of the jobs - in any order, any batch   *)
(* size - empty every table; a job that fails on a foreign key (a topic that  *)
(* still has messages) must not stay stuck.                                   *)
AllDeleted == /\ \A t \in DOMAIN S.topics : ~S.topics[t].live
              /\ \A s \in DOMAIN S.subs : ~S.subs[s].live
              /\ DOMAIN S.snaps = {}
AllEmpty == DOMAIN S.topics = {} /\ DOMAIN S.subs = {} /\ DOMAIN S.msgs = {} /\ DOMAIN S.del = {}
Converges == [](AllDeleted => <>AllEmpty)

(* State constraint and VIEW for exhaustive runs.  The view forgets stamps  *)
(* that cannot influence any later step of the configuration at hand:      *)
(*   "done"   completion times (only prune ages read them)                 *)
(*   "pub"    delivery publish times and the fields of completed           *)
(*            deliveries (only seeks read them / can revive them)          *)
(*   "mpub"   message publish times (only PruneCompletedMessages)          *)
(*   "subexp" subscription expiry (only ExpireSubs)                        *)
(*   "delAt"  deletion times (only the prune-deleted jobs)                 *)
(* and it clamps the deadline of an outstanding delivery that is already   *)
(* due to `now` (all due deadlines are equivalent).                        *)
Bounded == \A d \in Dels(S) : S.del[d].att <= AttBound
K(f) == f \in ViewKeep
View ==
  <<[S EXCEPT
     !.del = [d \in DOMAIN @ |->
        LET r == @[d] IN
        IF r.done # -1
        THEN [r EXCEPT !.done = IF K("done") THEN @ ELSE 0, !.at = 0,
                       !.exp = IF K("pub") THEN @ ELSE 0, !.pub = IF K("pub") THEN @ ELSE 0,
                       !.att = IF K("pub") THEN @ ELSE 0]
        ELSE [r EXCEPT !.pub = IF K("pub") THEN @ ELSE 0, !.at = Max2(@, S.now),
                       !.exp = Max2(@, S.now - 1)]],
     !.msgs = [m \in DOMAIN @ |-> [@[m] EXCEPT !.pub = IF K("mpub") THEN @ ELSE 0]],
     !.subs = [s \in DOMAIN @ |-> [@[s] EXCEPT !.exp = IF K("subexp") THEN @ ELSE 0,
                                              !.delAt = IF K("delAt") THEN @ ELSE 0]],
     !.topics = [t \in DOMAIN @ |-> [@[t] EXCEPT !.delAt = IF K("delAt") THEN @ ELSE 0]]]>>
FullView == <<S>>
=============================================================================
