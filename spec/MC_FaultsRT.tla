---------------------------- MODULE MC_FaultsRT ----------------------------
(* Real-time stamps on: 3 callers invoked and returning at arbitrary times. *)
(* Checks linearizability of the complete history w.r.t. real-time order    *)
(* (TermSerial) and the black-box interval form of exactness used by the    *)
(* trace validators (IntervalExact).  Any-choice Match.                     *)
EXTENDS MC_Faults
rtKinds == <<KSuper, KOtherV, KOtherOp>>
rtCallChoices == {[c \in mcCallers |-> rtKinds[f[c]]] :
                    f \in {g \in [mcCallers -> DOMAIN rtKinds] : \A c \in mcCallers : c > 1 => g[c - 1] <= g[c]}}
rtInitChoices == UNION {{<<DT(a), DA(b), DO(1)>>, <<DA(b), DT(a), DO(1)>>} : a \in 1..2, b \in 1..2}
=============================================================================
