--------------------------- MODULE Gen_StreamLease ---------------------------
(* Family "streamlease" (C04 on streams with a binding byte budget): one       *)
(* subscription with a long backoff (20 s -> 60 s, so that consecutive attempt *)
(* numbers differ by 2 s and more), messages of 30 / 60 / 90 bytes, unary      *)
(* pulls and zero deadlines to spread the attempt numbers, and StreamingPull   *)
(* sessions with max_outstanding_bytes 100 / 70: the stream's fetch skips the  *)
(* messages that do not fit, and every message it does hand out must still be  *)
(* leased by the backoff of ITS attempt number.                                *)
EXTENDS BusModel
Cfg0 == [ttl |-> 6000, mttl |-> 4000, ord |-> FALSE, filt |-> NoFilter, minB |-> 20, maxB |-> 60,
         dlt |-> "", maxAtt |-> 0, push |-> "", labels |-> <<>>]
C1 == [name |-> "s1", topic |-> "t1", cfg |-> Cfg0]
C2 == [name |-> "s2", topic |-> "t1", cfg |-> [Cfg0 EXCEPT !.ord = TRUE]]
mcSubCfgs == {C1, C2}
mcTopicNames == {"t1"}
mcSubNames == {"s1", "s2"}
mcSnapNames == {}
mcSetup == << [op |-> "CreateTopic", name |-> "t1"], [op |-> "CreateSub", c |-> C1], [op |-> "CreateSub", c |-> C2] >>
mcMsgKinds == { [key |-> "", attrs |-> <<>>, pad |-> 30], [key |-> "", attrs |-> <<>>, pad |-> 60],
                [key |-> "", attrs |-> <<>>, pad |-> 90], [key |-> "K", attrs |-> <<>>, pad |-> 30] }
mcPrefixPairs == {}
mcTickDs == {10}
mcProjOfName == <<>>
mcOps == {"Publish", "Pull", "ModAck", "StreamAN", "Tick"}
W0 == [op \in mcOps |-> 1]
mcWeights == [W0 EXCEPT !["Publish"] = 4, !["Pull"] = 3, !["ModAck"] = 4, !["StreamAN"] = 5]
=============================================================================
