----------------------------- MODULE BFS_Ordered2 -----------------------------
(* Bounded exhaustive histories on ONE ordered subscription that already holds  *)
(* two same-key messages: every sequence of pulls, single-id acks, zero         *)
(* deadlines and full rewinds of length 6.  Reaches the histories in which a    *)
(* seek RE-OPENS a completed predecessor while its successor is a redelivery    *)
(* (pull A, ack A, pull B, [ack B], rewind, [zero deadline on B], pull).        *)
EXTENDS BusModel
Cfg0 == [ttl |-> 600, mttl |-> 80, ord |-> TRUE, filt |-> NoFilter, minB |-> 20, maxB |-> 30,
         dlt |-> "", maxAtt |-> 0, push |-> "", labels |-> <<>>]
C1 == [name |-> "s1", topic |-> "t1", cfg |-> Cfg0]
mcSubCfgs == {C1}
\* (the clock moves before the publishes, so that a seek to time 0 is a rewind to BEFORE them)
mcSetup == << [op |-> "CreateTopic", name |-> "t1"], [op |-> "CreateSub", c |-> C1], [op |-> "Tick", d |-> 1],
              [op |-> "Publish", topic |-> "t1", msgs |-> << [key |-> "K", attrs |-> <<>>] >>],
              [op |-> "Publish", topic |-> "t1", msgs |-> << [key |-> "K", attrs |-> <<>>] >>] >>
mcMsgKinds == { [key |-> "K", attrs |-> <<>>] }
mcProjOfName == <<>>
mcWeights == <<>>
mcOps == {"Pull", "Ack", "SeekTime"}
Shape == ev'.op = "SeekTime" => (ev'.T = 0 /\ ev'.m = 0)
=============================================================================
