SPECIFICATION Spec
CONSTANTS
  MaxMsgsSet = {1, 2, 3}
  MaxBytesSet = {15, 30, 45, 1000}
  Sizes = {10, 30}
  MaxPub = 8
  Depth = 14
INVARIANT ModelBound
CHECK_DEADLOCK FALSE
