SPECIFICATION TraceSpec
CONSTANTS
  TU = 10
  Jit = 11
  NeMissing = FALSE
  PrefixPairs <- TracePrefixPairs
  TraceFile <- TraceFileName
INVARIANT Consumed
CHECK_DEADLOCK FALSE
