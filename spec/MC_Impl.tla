------------------------------ MODULE MC_Impl ------------------------------
(* Mechanism vs contract: ordered subscription s1 and a dead-lettering       *)
(* sibling s2 on t1; s3 ordered on the dead-letter topic t2.                 *)
EXTENDS BusImpl
Cfg0 == [ttl |-> 50, mttl |-> 6, ord |-> FALSE, filt |-> NoFilter, minB |-> 2, maxB |-> 2,
         dlt |-> "", maxAtt |-> 0, push |-> "", labels |-> <<>>]
mcTopics == <<"t1", "t2">>
mcSubs == << [name |-> "s1", topic |-> "t1", cfg |-> [Cfg0 EXCEPT !.ord = TRUE]],
             [name |-> "s2", topic |-> "t1", cfg |-> [Cfg0 EXCEPT !.dlt = "t2", !.maxAtt = 1]],
             [name |-> "s3", topic |-> "t2", cfg |-> [Cfg0 EXCEPT !.ord = TRUE, !.mttl = 12]] >>
mcMsgKinds == { [key |-> "", attrs |-> <<>>], [key |-> "K", attrs |-> <<>>] }
mcOps == {"Publish", "Pull", "Ack", "Nack", "SeekTime", "CreateSnap", "SeekSnap", "PruneCompletedDeliveries", "PruneExpiredDeliveries", "Tick"}
=============================================================================
