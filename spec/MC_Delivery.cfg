SPECIFICATION Spec
CONSTANTS
  TU = 1
  Jit = 0
  NeMissing = FALSE
  PrefixPairs <- mcPrefixPairs
  TopicNames <- mcTopicNames
  SubNames <- mcSubNames
  SnapNames = {}
  SubCfgs <- mcSubCfgs
  MsgKinds <- mcMsgKinds
  BatchMax = 1
  MaxMsgs = 2
  MaxTopics = 2
  MaxSubs = 3
  MaxDels = 5
  MaxTime = 6
  TickDs = {1, 3}
  PullMaxes = {1, 2}
  AckMax = 1
  ModSecs = {0, 3}
  JobAges = {0}
  JobMaxes = {1}
  Ops <- mcOps
  Setup <- mcSetup
  ProjOfName <- mcProjOfName
  Depth = 0
  AttBound = 3
  ViewKeep = {}
  RealBackoff = FALSE
  GenBFS = FALSE
  AckAll = TRUE
  Weights <- mcWeights
INVARIANTS InvOK AckedStaysAcked AttemptsBounded OneLivePerName
PROPERTIES StepProp NoLoss OrderKept LeaseKept
VIEW View
CONSTRAINT Bounded
CHECK_DEADLOCK FALSE
