SPECIFICATION GenSpec
CONSTANTS
  Callers <- g4Callers
  CallChoices <- g4CallChoices
  InitChoices <- g4InitChoices
  LatePool <- g4LatePool
  FirstMatch = TRUE
  RT = FALSE
  Reduce = FALSE
CHECK_DEADLOCK FALSE
