----------------------------- MODULE MC_Ordered -----------------------------
(* C05: one ordered subscription, messages over keys K, L and none, every  *)
(* order of publish (single and batched) / pull of size 1..3 / ack / nack  *)
(* / zero-deadline / lease and retention expiry / pruning.                 *)
EXTENDS BusModel
Cfg0 == [ttl |-> 50, mttl |-> 6, ord |-> TRUE, filt |-> NoFilter, minB |-> 2, maxB |-> 2,
         dlt |-> "", maxAtt |-> 0, push |-> "", labels |-> <<>>]
C1 == [name |-> "s1", topic |-> "t1", cfg |-> Cfg0]
mcTopicNames == {"t1"}
mcSubNames == {"s1"}
mcSnapNames == {}
mcSubCfgs == {C1}
mcSetup == << [op |-> "CreateTopic", name |-> "t1"], [op |-> "CreateSub", c |-> C1] >>
mcMsgKinds == { [key |-> "", attrs |-> <<>>], [key |-> "K", attrs |-> <<>>] }
mcPrefixPairs == {}
mcBatchMax == 2
mcTickDs == {2}
mcPullMaxes == {1, 3}
mcJobAges == {0}
mcJobMaxes == {10}
mcProjOfName == <<>>
mcWeights == <<>>
mcOps == {"Publish", "Pull", "Ack", "Nack", "Tick"}
=============================================================================
