----------------------------- MODULE FilterEnum -----------------------------
(***************************************************************************)
(* C07: TLC as enumerator and reference oracle for filter evaluation.      *)
(*                                                                         *)
(* The reference is EvalG of Filter.tla.  This module defines the bounded  *)
(* domain, checks the boolean laws on the reference itself, and prints one *)
(* JSON line per case                                                      *)
(*    {"f": AST, "r0": [64 x 0/1], "r1": [..], "b0": [..], "b1": [..]}      *)
(* where r0[i] / r1[i] is the reference result on attribute map number     *)
(* i-1 with NeMissing = FALSE / TRUE (b0 / b1: the same under the second   *)
(* prefix structure, see PrefixPairs).  The Go harness (cmd/filtercheck)   *)
(* renders the AST to concrete syntax, runs the real parser and evaluator  *)
(* on all 64 maps and compares.                                            *)
(*                                                                         *)
(* Vocabulary (ids; the harness maps them to several concrete              *)
(* vocabularies): names n1 n2 n3; values v0 v1 v2 where v0 is the EMPTY    *)
(* string and v1 is a proper, non-empty prefix of v2 (structure A) or a    *)
(* proper substring that is not a prefix (structure B).  TLC strings are   *)
(* atomic, hence the prefix relation is the explicit set PrefixPairs(B).   *)
(*                                                                         *)
(* Attribute map number m (0..63): name j (1..3) has code (m \div 4^(j-1)) *)
(* % 4; code 0 = attribute absent, code c > 0 = value ValSeq[c].           *)
(*                                                                         *)
(* Leaf number l (0..29): 0..2 = has(n1..n3); 3 + 9*o + 3*n + v with       *)
(* o = 0 eq, 1 ne, 2 pre; n = name index 0..2; v = value index 0..2.       *)
(*                                                                         *)
(* Domain (see FilterShapes): all grammar-shaped ASTs with                 *)
(*   1 leaf : every parenthesisation up to depth 3      (14 shapes x 30)   *)
(*   2 leaves: every parenthesisation up to depth Depth2 (88 / 568 x 900)  *)
(*   3 leaves: Shapes3 (288 shapes, depth <= 3)         x 27000 triples,   *)
(*             all of them (SampleNum = 1000) or a seeded sample.          *)
(* Deeper random ASTs (4..7 leaves): FilterSim.tla.                        *)
(*                                                                         *)
(* Modes (constant Mode): "small", "three", "laws", "sim" (nothing here).  *)
(* Every mode is cut into NShards shards on leaf indices; the check runs   *)
(* one TLC process per shard.                                              *)
(***************************************************************************)
EXTENDS Filter, FilterShapes, TLC, Json, SequencesExt

CONSTANTS Mode, Depth2, Shard, NShards, SampleNum, Seed, LawDepth

NameSeq == <<"n1", "n2", "n3">>
ValSeq  == <<"v0", "v1", "v2">>
Names   == {"n1", "n2", "n3"}
Values  == {"v0", "v1", "v2"}

\* <<v, p>> : p is a prefix of v.  Two prefix structures on the same ids:
\*   A:  v0 = "",  v1 a proper non-empty prefix of v2            (e.g. "a", "ab")
\*   B:  v0 = "",  v1 a proper substring but NOT a prefix of v2  (e.g. "b", "ab")
\* so that hasPrefix is told apart from "contains" / "has suffix".  They differ
\* only in the pair <<v2, v1>>, hence only for ASTs with a leaf pre(k, v1).
PrefixPairsB == {<<v, v>> : v \in Values} \cup {<<v, "v0">> : v \in Values}
PrefixPairs  == PrefixPairsB \cup {<<"v2", "v1">>}
IsPre(v, p)  == <<v, p>> \in PrefixPairs
IsPreB(v, p) == <<v, p>> \in PrefixPairsB

NLeaf == 30
LeafAt(l) ==
  IF l < 3 THEN [op |-> "has", k |-> NameSeq[l + 1]]
  ELSE LET j == l - 3 IN
       [op |-> <<"eq", "ne", "pre">>[(j \div 9) + 1],
        k  |-> NameSeq[((j % 9) \div 3) + 1],
        v  |-> ValSeq[(j % 3) + 1]]

NameIdx == [n \in Names |-> CHOOSE j \in 1..3 : NameSeq[j] = n]
Pow4 == <<1, 4, 16>>
MapAt(m) ==
  LET c == [j \in 1..3 |-> (m \div Pow4[j]) % 4] IN
  [n \in {NameSeq[j] : j \in {jj \in 1..3 : c[jj] # 0}} |-> ValSeq[c[NameIdx[n]]]]
NMaps == 64
Maps == [i \in 1..NMaps |-> MapAt(i - 1)]

B(e) == IF e THEN 1 ELSE 0
E(f, i, nm) == EvalG(f, Maps[i], IsPre, nm)
R(f, P(_, _), nm) == [i \in 1..NMaps |-> B(EvalG(f, Maps[i], P, nm))]

RECURSIVE NeSens(_), PreSens(_)
NeSens(f) ==      \* has a leaf  attributes.k != v
  CASE f.op \in {"not", "par"} -> NeSens(f.x)
    [] f.op \in {"and", "or"} -> \E i \in DOMAIN f.xs : NeSens(f.xs[i])
    [] OTHER -> f.op = "ne"
PreSens(f) ==     \* has a leaf  hasPrefix(attributes.k, v1)
  CASE f.op \in {"not", "par"} -> PreSens(f.x)
    [] f.op \in {"and", "or"} -> \E i \in DOMAIN f.xs : PreSens(f.xs[i])
    [] OTHER -> f.op = "pre" /\ f.v = "v1"

\* r0 / r1: prefix structure A, NeMissing FALSE / TRUE;  b0 / b1: structure B.
\* A field is printed only when it can differ: r1 when the AST has a "ne"
\* leaf (else r1 = r0), b0 when it has a leaf pre(k, v1) (else b0 = r0),
\* b1 when both (else b1 = b0 resp. r1).
None == [x \in {} |-> 0]
Case(f) ==
  [f |-> f, r0 |-> R(f, IsPre, FALSE)]
  @@ (IF NeSens(f) THEN [r1 |-> R(f, IsPre, TRUE)] ELSE None)
  @@ (IF PreSens(f) THEN [b0 |-> R(f, IsPreB, FALSE)] ELSE None)
  @@ (IF PreSens(f) /\ NeSens(f) THEN [b1 |-> R(f, IsPreB, TRUE)] ELSE None)
Emit(f) == PrintT(ToJson(Case(f)))

---------------------------------------------------------------------------
\* The boolean laws, on the reference itself (both NeMissing variants, all maps)
Permute(f, p) == [f EXCEPT !.xs = [j \in DOMAIN f.xs |-> f.xs[p[j]]]]
Dual(o) == IF o = "and" THEN "or" ELSE "and"
DeMorgan(f) == [op |-> Dual(f.op), xs |-> [j \in DOMAIN f.xs |-> Not(Par(f.xs[j]))]]

LawsHold(f) ==
  \A nm \in BOOLEAN : \A i \in 1..NMaps :
    /\ E(f, i, nm) \in BOOLEAN                                   \* total
    /\ E(f, i, nm) = E(f, i, nm)                                 \* deterministic
    /\ E(Not(Not(f)), i, nm) = E(f, i, nm)                       \* double negation
    /\ E(Not(Par(Not(Par(f)))), i, nm) = E(f, i, nm)             \* ... in concrete syntax
    /\ E(Par(f), i, nm) = E(f, i, nm)                            \* parenthesisation
    /\ f.op \in {"and", "or"} =>
         /\ E(Not(Par(f)), i, nm) = E(DeMorgan(f), i, nm)        \* De Morgan
         /\ \A p \in Permutations(DOMAIN f.xs) :                 \* commutativity
              E(Permute(f, p), i, nm) = E(f, i, nm)

---------------------------------------------------------------------------
S1 == CondS(TRUE, 3, 1, 0)
S2 == CondS(TRUE, Depth2, 2, 0)
Shape3Seq == SetToSeq(Shapes3)

Mine(x) == x % NShards = Shard
Keep(si, t) == ((t * 7919 + si * 104729 + (Seed % 1000) * 7907) % 100003) % 1000 < SampleNum

ASSUME Mode \in {"small", "three", "laws", "sim"}

ASSUME Mode = "small" =>
  /\ \A a \in 0..(NLeaf - 1) : Mine(a) => \A s \in S1 : Emit(Fill(s, <<LeafAt(a)>>))
  /\ \A a \in 0..(NLeaf - 1), b \in 0..(NLeaf - 1) : Mine(a * NLeaf + b) =>
       \A s \in S2 : Emit(Fill(s, <<LeafAt(a), LeafAt(b)>>))

ASSUME Mode = "three" =>
  \A a \in 0..(NLeaf - 1), b \in 0..(NLeaf - 1) : Mine(a * NLeaf + b) =>
    \A c \in 0..(NLeaf - 1) : \A si \in 1..Len(Shape3Seq) :
      Keep(si, (a * NLeaf + b) * NLeaf + c) =>
        Emit(Fill(Shape3Seq[si], <<LeafAt(a), LeafAt(b), LeafAt(c)>>))

L1 == CondS(TRUE, LawDepth, 1, 0)
L2 == CondS(TRUE, LawDepth, 2, 0)
L3 == SetToSeq(AndOrS(FALSE, 1, 3, 0))

ASSUME Mode = "laws" =>
  /\ \A a \in 0..(NLeaf - 1) : Mine(a) => \A s \in L1 : LawsHold(Fill(s, <<LeafAt(a)>>))
  /\ \A a \in 0..(NLeaf - 1), b \in 0..(NLeaf - 1) : Mine(a * NLeaf + b) =>
       \A s \in L2 : LawsHold(Fill(s, <<LeafAt(a), LeafAt(b)>>))
  /\ \A a \in 0..(NLeaf - 1), b \in 0..(NLeaf - 1) : Mine(a * NLeaf + b) =>
       \A c \in 0..(NLeaf - 1) : \A si \in 1..Len(L3) :
         Keep(si, (a * NLeaf + b) * NLeaf + c) =>
           LawsHold(Fill(L3[si], <<LeafAt(a), LeafAt(b), LeafAt(c)>>))
  /\ PrintT(<<"LAWS-OK", Shard>>)
=============================================================================
