---------------------------- MODULE Gen_FaultsE ----------------------------
(* EVERY schedule of two racing callers over the "empty value" corner of the  *)
(* matching rule: a description whose injected parameter has the value ""     *)
(* matches a call that CARRIES that parameter with the value "" - not a call  *)
(* that lacks the parameter, and not one with another value.                  *)
EXTENDS FaultsGen
geCallers == 1..2
geKinds == <<KNoParam, KEmptyV, KExact>>
geCallChoices == {[c \in geCallers |-> geKinds[f[c]]] :
                    f \in {g \in [geCallers -> DOMAIN geKinds] : g[1] <= g[2]}}
geInitChoices == {<<DE(1)>>, <<DE(2)>>, <<DE(1), DA(1)>>, <<DA(1), DE(1)>>}
=============================================================================
