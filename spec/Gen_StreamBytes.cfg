SPECIFICATION Spec
CONSTANTS
  MaxMsgsSet = {100}
  MaxBytesSet = {10, 20, 30}
  Sizes = {10}
  MaxPub = 8
  Depth = 14
INVARIANT ModelBound
CHECK_DEADLOCK FALSE
