\* default configuration: every update-mask subset (512) x every request of
\* Reqs (7) applied once to two created subscriptions; checks/config.py
\* writes the other configurations (create product, depth 2, -simulate)
SPECIFICATION Spec
CONSTANTS
  Mode = "seq"
  Picks = {}
  Stride = 1
  Offset = 0
  Depth = 1
  MaskPaths = {"labels", "expiration_policy", "message_retention_duration", "enable_message_ordering", "retry_policy", "push_config", "filter", "dead_letter_policy", "topic.labels"}
  NewIds = {1, 2, 3, 4, 5, 6, 7}
  CreateIds = {1, 2}
  DelTopics = {}
INVARIANTS DefaultsOK LocalityOK
CHECK_DEADLOCK FALSE
