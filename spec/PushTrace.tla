----------------------------- MODULE PushTrace -----------------------------
(* Validation of recorded HTTP-push sessions (C19) against module Push.     *)
(* Events (times in ms):                                                    *)
(*   Reset(tr) ; Publish(m)                                                 *)
(*   Req(m, attempt, inflight, envOK, t)   a POST arrived at the endpoint   *)
(*   Resp(m, code, slow, t)                the endpoint answered; code < 0  *)
(*                                         is a transport failure           *)
(*   Final(acked, pending, t)              end of session: which messages   *)
(*                                         the database shows completed     *)
EXTENDS Integers, Sequences, FiniteSets, TLC, Json
CONSTANT TraceFile
Trace == ndJsonDeserialize(TraceFile)
VARIABLES l, last, natt, fast, lastFail
\* last[m] : "none" | "flight" | "ok" | "fail" ; natt[m] attempts seen ; fast = fast successes so far
tvars == <<l, last, natt, fast, lastFail>>
Set(q) == {q[i] : i \in DOMAIN q}
SuccessCodes == {200, 201, 202, 204}
Viol(e, c, d) == PrintT(ToJson(<<"VIOL", e.tr, e.i, e.op, c, {}, d>>))
Get(f, m, dflt) == IF m \in DOMAIN f THEN f[m] ELSE dflt
Put(f, m, v) == [x \in DOMAIN f \cup {m} |-> IF x = m THEN v ELSE f[x]]
Min2(a, b) == IF a < b THEN a ELSE b

TraceInit == l = 1 /\ last = <<>> /\ natt = <<>> /\ fast = 0 /\ lastFail = <<>>

TraceNext ==
  /\ l <= Len(Trace) /\ l' = l + 1
  /\ LET e == Trace[l] IN
     CASE e.op = "Reset" ->
            /\ last' = <<>> /\ natt' = <<>> /\ fast' = 0 /\ lastFail' = <<>>
            /\ PrintT(ToJson(<<"TRACE", e.tr>>))
       [] e.op = "Req" ->
            /\ (Get(last, e.m, "none") = "ok") => Viol(e, "C19:pushed-after-success", "")
            /\ (Get(last, e.m, "none") = "flight") => Viol(e, "C19:pushed-while-in-flight", "")
            /\ (e.attempt # Get(natt, e.m, 0) + 1) =>
                 Viol(e, "C19:delivery-attempt-number", ToJson(<<e.attempt, Get(natt, e.m, 0) + 1>>))
            /\ (~e.envOK) => Viol(e, "C19:envelope", e.why)
            \* the window is 1 + (fast successes so far) at most, and never above 1000
            /\ (e.inflight > Min2(1000, 1 + fast)) =>
                 Viol(e, "C19:over-window", ToJson(<<e.inflight, 1 + fast>>))
            \* pushed again only after the backoff of the failed attempt
            /\ (Get(last, e.m, "none") = "fail" /\ e.t < lastFail[e.m] + e.minBackoff) =>
                 Viol(e, "C19:retry-before-backoff", ToJson(<<e.t - lastFail[e.m], e.minBackoff>>))
            /\ last' = Put(last, e.m, "flight") /\ natt' = Put(natt, e.m, e.attempt)
            /\ UNCHANGED <<fast, lastFail>>
       [] e.op = "Resp" ->
            LET ok == e.code \in SuccessCodes IN
            /\ last' = Put(last, e.m, IF ok THEN "ok" ELSE "fail")
            /\ fast' = IF ok /\ ~e.slow THEN fast + 1 ELSE fast
            /\ lastFail' = IF ok THEN lastFail ELSE Put(lastFail, e.m, e.t)
            /\ UNCHANGED natt
       [] e.op = "Final" ->
            /\ \A m \in DOMAIN last :
                 /\ (last[m] = "ok" /\ m \notin Set(e.acked)) => Viol(e, "C19:success-not-acknowledged", ToJson(m))
                 /\ (last[m] = "fail" /\ m \in Set(e.acked)) => Viol(e, "C19:failure-acknowledged", ToJson(m))
                 /\ (last[m] = "fail" /\ e.t > lastFail[m] + e.grace) => Viol(e, "C19:failed-push-not-retried", ToJson(m))
            /\ \A m \in Set(e.published) : (m \notin DOMAIN last) => Viol(e, "C19:never-pushed", ToJson(m))
            /\ UNCHANGED <<last, natt, fast, lastFail>>
       [] OTHER -> UNCHANGED <<last, natt, fast, lastFail>>

TraceSpec == TraceInit /\ [][TraceNext]_tvars
Consumed == (l = Len(Trace) + 1) => PrintT(ToJson(<<"CONSUMED", Len(Trace)>>))
=============================================================================
