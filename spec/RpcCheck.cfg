SPECIFICATION CheckSpec
CONSTANTS
  Mode = "check"
CHECK_DEADLOCK FALSE
