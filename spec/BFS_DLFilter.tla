---------------------------- MODULE BFS_DLFilter ----------------------------
(* Bounded exhaustive histories, dead-letter forwarding onto FILTERED        *)
(* subscriptions of the dead-letter topic, both polarities: s2 (NOT has a)   *)
(* must not get the forwarded copy of a message that carries a, s3 (has a)   *)
(* must get it and only it; the filters have to be evaluated on the ORIGINAL *)
(* attributes of the forwarded message (C02:forward-ignores-filter).  Two    *)
(* messages (with / without the attribute), every sequence of pulls, sweeps  *)
(* and clock steps past the backoff.                                         *)
EXTENDS BusModel
F_has_a == [op |-> "has", k |-> "a"]
F_not_a == [op |-> "not", x |-> F_has_a]
F_eq_ax == [op |-> "eq", k |-> "a", v |-> "x"]
Cfg0 == [ttl |-> 600, mttl |-> 400, ord |-> FALSE, filt |-> NoFilter, minB |-> 2, maxB |-> 3,
         dlt |-> "", maxAtt |-> 0, push |-> "", labels |-> <<>>]
C1 == [name |-> "s1", topic |-> "t1", cfg |-> [Cfg0 EXCEPT !.dlt = "t2", !.maxAtt = 1]]
C2 == [name |-> "s2", topic |-> "t2", cfg |-> [Cfg0 EXCEPT !.filt = F_not_a]]
C3 == [name |-> "s3", topic |-> "t2", cfg |-> [Cfg0 EXCEPT !.filt = F_has_a]]
mcSubCfgs == {C1, C2, C3}
mcSetup == << [op |-> "CreateTopic", name |-> "t1"], [op |-> "CreateTopic", name |-> "t2"],
              [op |-> "CreateSub", c |-> C1], [op |-> "CreateSub", c |-> C2],
              [op |-> "CreateSub", c |-> C3],
              [op |-> "Publish", topic |-> "t1", msgs |-> << [key |-> "", attrs |-> [a |-> "x"]] >>],
              [op |-> "Publish", topic |-> "t1", msgs |-> << [key |-> "", attrs |-> <<>>] >>] >>
mcMsgKinds == { [key |-> "", attrs |-> <<>>], [key |-> "", attrs |-> [a |-> "x"]] }
mcProjOfName == <<>>
mcWeights == <<>>
mcOps == {"Pull", "DLSweep", "Tick"}
Shape == TRUE
=============================================================================
