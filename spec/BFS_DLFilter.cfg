SPECIFICATION Spec
CONSTANTS
  TU = 1
  Jit = 0
  NeMissing = FALSE
  PrefixPairs = {}
  TopicNames = {"t1", "t2"}
  SubNames = {"s1", "s2", "s3"}
  SnapNames = {}
  SubCfgs <- mcSubCfgs
  MsgKinds <- mcMsgKinds
  BatchMax = 1
  MaxMsgs = 2
  MaxTopics = 2
  MaxSubs = 3
  MaxDels = 12
  MaxTime = 200
  TickDs = {40}
  PullMaxes = {10}
  AckMax = 1
  ModSecs = {0}
  JobAges = {0}
  JobMaxes = {100}
  Ops <- mcOps
  Setup <- mcSetup
  ProjOfName <- mcProjOfName
  Depth = 12
  AttBound = 100
  ViewKeep = {}
  RealBackoff = FALSE
  GenBFS = TRUE
  AckAll = FALSE
  Weights <- mcWeights
ACTION_CONSTRAINT Shape
CHECK_DEADLOCK FALSE
