------------------------------ MODULE MC_Wake_early ------------------------------
EXTENDS Wake
mcWSub == [w \in {"w1", "w2", "w3"} |-> CASE w = "w1" -> "a" [] w = "w2" -> "b" [] OTHER -> "b"]
mcTargets == [x \in {"x1", "x2", "x3"} |-> CASE x = "x1" -> <<"a", "b">> [] x = "x2" -> <<"b">> [] OTHER -> <<"a", "b">>]
mcMode == [x \in {"x1", "x2", "x3"} |-> CASE x = "x1" -> "list" [] x = "x2" -> "each" [] OTHER -> "each"]
\* one waiter on b, one list writer over [a, b]: the shape of the 511b2d6 defect
oneWSub == [w \in {"w2"} |-> "b"]
oneTargets == [x \in {"x1"} |-> <<"a", "b">>]
oneMode == [x \in {"x1"} |-> "list"]
=============================================================================
