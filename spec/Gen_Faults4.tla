---------------------------- MODULE Gen_Faults4 ----------------------------
(* Random schedules (-simulate) of four racing callers, counts 1..3.         *)
EXTENDS FaultsGen
g4Callers == 1..4
g4CallChoices == [g4Callers -> Range(Kinds)]
g4InitChoices == UNION {{<<DT(a), DA(b), DO(1)>>, <<DA(b), DT(a), DO(1)>>, <<DT(a)>>} : a \in 1..3, b \in 1..3}
g4LatePool == {[tag |-> "dL1", op |-> "Publish", params |-> <<>>, n |-> 1]}
=============================================================================
