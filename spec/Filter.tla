------------------------------- MODULE Filter -------------------------------
(***************************************************************************)
(* Reference semantics of the Pub/Sub subscription filter language (C07).  *)
(*                                                                         *)
(* A filter is an abstract syntax tree built from records:                 *)
(*   [op |-> "true"]                      no filter configured             *)
(*   [op |-> "has", k |-> name]           attributes:name                  *)
(*   [op |-> "eq",  k |-> name, v |-> val] attributes.name = "val"          *)
(*   [op |-> "ne",  k |-> name, v |-> val] attributes.name != "val"         *)
(*   [op |-> "pre", k |-> name, v |-> val] hasPrefix(attributes.name,"val") *)
(*   [op |-> "not", x |-> f]              NOT f   /  -f                    *)
(*   [op |-> "and", xs |-> <<f1,...,fn>>] f1 AND ... AND fn   (n >= 2)     *)
(*   [op |-> "or",  xs |-> <<f1,...,fn>>] f1 OR  ... OR  fn   (n >= 2)     *)
(*   [op |-> "par", x |-> f]              ( f )                            *)
(*                                                                         *)
(* An attribute map is a function from a finite set of names to values.    *)
(* Values are opaque to TLC (strings cannot be decomposed), so the prefix  *)
(* relation on the vocabulary is a parameter: IsPre(v, p) <=> p is a       *)
(* prefix of v.                                                            *)
(*                                                                         *)
(* The documented semantics leave one point open: attributes.k != "v" on a *)
(* message WITHOUT attribute k.  Google's table reads "messages without    *)
(* the attribute, or with another value" (NeMissing = TRUE); the           *)
(* implementation treats every value comparison on a missing attribute as  *)
(* false (NeMissing = FALSE).  Both are total and deterministic; the       *)
(* checks accept an implementation that agrees with ONE of the two over a  *)
(* whole run (DESIGN 2.3).                                                 *)
(***************************************************************************)
EXTENDS Integers, Sequences, FiniteSets

RECURSIVE EvalG(_, _, _, _)
EvalG(f, attrs, IsPre(_, _), neMissing) ==
  CASE f.op = "true" -> TRUE
    [] f.op = "has"  -> f.k \in DOMAIN attrs
    [] f.op = "eq"   -> f.k \in DOMAIN attrs /\ attrs[f.k] = f.v
    [] f.op = "ne"   -> IF f.k \in DOMAIN attrs THEN attrs[f.k] # f.v ELSE neMissing
    [] f.op = "pre"  -> f.k \in DOMAIN attrs /\ IsPre(attrs[f.k], f.v)
    [] f.op = "not"  -> ~EvalG(f.x, attrs, IsPre, neMissing)
    [] f.op = "par"  -> EvalG(f.x, attrs, IsPre, neMissing)
    [] f.op = "and"  -> \A i \in DOMAIN f.xs : EvalG(f.xs[i], attrs, IsPre, neMissing)
    [] f.op = "or"   -> \E i \in DOMAIN f.xs : EvalG(f.xs[i], attrs, IsPre, neMissing)

NoFilter == [op |-> "true"]

=============================================================================
