-------------------------------- MODULE Wake --------------------------------
(***************************************************************************)
(* C10 - no lost wake-up.                                                  *)
(*                                                                         *)
(* A blocking pull (actions.GetSubscriptionMessages.execute, also the      *)
(* sender loop of a streaming pull) is the loop                            *)
(*     touch tx ; LOOP { cancel old awaiter ; register new awaiter ;       *)
(*                       query tx (deliver if anything is due, else        *)
(*                       remember the next retry time) ; wait for          *)
(*                       awaiter / retry timer / timeout }                 *)
(* A writer is one transaction that makes a message deliverable on a set   *)
(* of subscriptions, followed - after the commit - by waking the awaiters  *)
(* registered for those subscriptions (actions/notify.go).  On SQLite a    *)
(* transaction is atomic with respect to other transactions (BEGIN         *)
(* IMMEDIATE), so the interleaving points are transaction boundaries and   *)
(* the in-memory steps between them; that is exactly the grain of the      *)
(* actions below.                                                          *)
(*                                                                         *)
(* Notification of a LIST of subscriptions comes in two shapes in the      *)
(* code: one critical section for the whole list (notifyPublish with       *)
(* several ids: zero-deadline ModifyAckDeadline, seek) and one critical    *)
(* section per subscription (publish: one commit hook per subscription;    *)
(* ack: a loop).  NotifyMode selects per writer.  EarlyReturn = TRUE       *)
(* models the defect fixed in /repo commit 511b2d6 (stop at the first      *)
(* listed subscription that has no waiter) and is used to show that the    *)
(* property is not vacuous: TLC finds the lost wake-up.                    *)
(***************************************************************************)
EXTENDS Integers, Sequences, FiniteSets, TLC, Json

CONSTANTS
  Waiters,      \* set of waiter ids
  WSub,         \* function waiter -> subscription it pulls
  Writers,      \* set of writer ids
  WTargets,     \* function writer -> sequence of subscriptions it makes deliverable and notifies
  NotifyMode,   \* function writer -> "list" | "each"
  Subs,
  EarlyReturn,  \* BOOLEAN, see above
  RegisterLate, \* BOOLEAN: model of a broken waiter that registers after its query (non-vacuity)
  EmitHist      \* BOOLEAN: keep and print the schedule (generation mode)

VARIABLES
  avail,   \* subscription -> is a message deliverable on it
  reg,     \* subscription -> set of registered open channels
  closed,  \* set of channels that have been closed
  wpc,     \* waiter -> "start" | "ready" | "queried" | "waiting" | "returned"
  wch,     \* waiter -> its current channel (<<w, n>>) or <<>>
  wn,      \* waiter -> number of channels it has created
  xpc,     \* writer -> "idle" | "committed" | "done"
  xi,      \* writer -> index of the next subscription to notify ("each" mode)
  hist
vars == <<avail, reg, closed, wpc, wch, wn, xpc, xi, hist>>

Log(e) == hist' = IF EmitHist THEN Append(hist, e) ELSE hist

Init ==
  /\ avail = [s \in Subs |-> FALSE]
  /\ reg = [s \in Subs |-> {}]
  /\ closed = {}
  /\ wpc = [w \in Waiters |-> "start"]
  /\ wch = [w \in Waiters |-> <<>>]
  /\ wn = [w \in Waiters |-> 0]
  /\ xpc = [x \in Writers |-> "idle"]
  /\ xi = [x \in Writers |-> 1]
  /\ hist = <<>>

\* cancel the old awaiter and register a fresh one (under the registry lock)
Registered(w) ==
  LET s == WSub[w] c == <<w, wn[w] + 1>> IN
  /\ reg' = [reg EXCEPT ![s] = (@ \ {wch[w]}) \cup {c}]
  /\ wch' = [wch EXCEPT ![w] = c]
  /\ wn' = [wn EXCEPT ![w] = @ + 1]

\* first transaction (verify + touch), then straight on to register
Touch(w) ==
  /\ wpc[w] = "start"
  /\ IF RegisterLate THEN UNCHANGED <<reg, wch, wn>> ELSE Registered(w)
  /\ wpc' = [wpc EXCEPT ![w] = "ready"]
  /\ UNCHANGED <<avail, closed, xpc, xi>>
  /\ Log([a |-> "w", id |-> w, step |-> "touch"])

\* query transaction: deliver if anything is deliverable
Query(w) ==
  LET s == WSub[w] IN
  /\ wpc[w] = "ready"
  /\ IF avail[s]
     THEN /\ wpc' = [wpc EXCEPT ![w] = "returned"]
          /\ avail' = [avail EXCEPT ![s] = FALSE]
          /\ UNCHANGED <<reg, wch, wn>>
     ELSE /\ wpc' = [wpc EXCEPT ![w] = "queried"]
          /\ UNCHANGED <<reg, wch, wn, avail>>
  /\ UNCHANGED <<closed, xpc, xi>>
  /\ Log([a |-> "w", id |-> w, step |-> "query"])

EnterWait(w) ==
  /\ wpc[w] = "queried"
  /\ wpc' = [wpc EXCEPT ![w] = "waiting"]
  /\ IF RegisterLate THEN Registered(w) ELSE UNCHANGED <<reg, wch, wn>>
  /\ UNCHANGED <<avail, closed, xpc, xi>>
  /\ Log([a |-> "w", id |-> w, step |-> "wait"])

\* the awaiter fired: loop, i.e. cancel + register again, ready for the next query
Woken(w) ==
  /\ wpc[w] = "waiting" /\ wch[w] \in closed
  /\ IF RegisterLate THEN UNCHANGED <<reg, wch, wn>> ELSE Registered(w)
  /\ wpc' = [wpc EXCEPT ![w] = "ready"]
  /\ UNCHANGED <<avail, closed, xpc, xi>>
  /\ Log([a |-> "w", id |-> w, step |-> "woken"])

Commit(x) ==
  /\ xpc[x] = "idle"
  /\ xpc' = [xpc EXCEPT ![x] = "committed"]
  /\ avail' = [s \in Subs |-> avail[s] \/ \E i \in DOMAIN WTargets[x] : WTargets[x][i] = s]
  /\ UNCHANGED <<reg, closed, wpc, wch, wn, xi>>
  /\ Log([a |-> "x", id |-> x, step |-> "commit"])

\* the subscriptions of a list that get woken: all, or (defect) those before the
\* first one without any registered waiter
RECURSIVE WokenPrefix(_, _)
WokenPrefix(seq, i) ==
  IF i > Len(seq) THEN {}
  ELSE IF EarlyReturn /\ reg[seq[i]] = {} THEN {}
  ELSE {seq[i]} \cup WokenPrefix(seq, i + 1)

NotifyList(x) ==
  /\ xpc[x] = "committed" /\ NotifyMode[x] = "list"
  /\ LET W == WokenPrefix(WTargets[x], 1) IN
     /\ closed' = closed \cup UNION {reg[s] : s \in W}
     /\ reg' = [s \in Subs |-> IF s \in W THEN {} ELSE reg[s]]
  /\ xpc' = [xpc EXCEPT ![x] = "done"]
  /\ UNCHANGED <<avail, wpc, wch, wn, xi>>
  /\ Log([a |-> "x", id |-> x, step |-> "notify"])

NotifyEach(x) ==
  /\ xpc[x] = "committed" /\ NotifyMode[x] = "each"
  /\ LET s == WTargets[x][xi[x]] IN
     /\ closed' = closed \cup reg[s]
     /\ reg' = [reg EXCEPT ![s] = {}]
  /\ IF xi[x] = Len(WTargets[x])
     THEN xpc' = [xpc EXCEPT ![x] = "done"] /\ UNCHANGED xi
     ELSE xi' = [xi EXCEPT ![x] = @ + 1] /\ UNCHANGED xpc
  /\ UNCHANGED <<avail, wpc, wch, wn>>
  /\ Log([a |-> "x", id |-> x, step |-> "notify"])

Next ==
  \/ \E w \in Waiters : Touch(w) \/ Query(w) \/ EnterWait(w) \/ Woken(w)
  \/ \E x \in Writers : Commit(x) \/ NotifyList(x) \/ NotifyEach(x)

Spec == Init /\ [][Next]_vars
FairSpec == Spec /\ \A w \in Waiters : WF_vars(Touch(w) \/ Query(w) \/ EnterWait(w) \/ Woken(w))
                 /\ \A x \in Writers : WF_vars(Commit(x) \/ NotifyList(x) \/ NotifyEach(x))

---------------------------------------------------------------------------
\* subscriptions that writer x will still notify
Pending(x) ==
  CASE xpc[x] = "idle" -> {}     \* nothing committed yet
    [] xpc[x] = "done" -> {}
    [] OTHER -> IF NotifyMode[x] = "list" THEN {WTargets[x][i] : i \in DOMAIN WTargets[x]}
                ELSE {WTargets[x][i] : i \in xi[x]..Len(WTargets[x])}

(* C10 safety: a waiter is never parked on an open channel while a message *)
(* is deliverable on its subscription and nobody is left to wake it.       *)
NoLostWake ==
  \A w \in Waiters :
    (wpc[w] = "waiting" /\ wch[w] \notin closed /\ avail[WSub[w]])
      => \E x \in Writers : WSub[w] \in Pending(x)

TypeOK ==
  /\ \A w \in Waiters : wpc[w] \in {"start", "ready", "queried", "waiting", "returned"}
  /\ \A x \in Writers : xpc[x] \in {"idle", "committed", "done"}

(* C10 liveness: once every writer is done, a deliverable message on a     *)
(* subscription with a pulling waiter is eventually delivered.             *)
AllDone == \A x \in Writers : xpc[x] = "done"
Delivered ==
  \A w \in Waiters :
     []((AllDone /\ avail[WSub[w]] /\ wpc[w] # "returned")
          => <>(wpc[w] = "returned" \/ ~avail[WSub[w]]))

Terminal == ~ENABLED Next
EmitAtEnd == (EmitHist /\ Terminal) =>
  PrintT(<<"SCHEDULE", ToJson([steps |-> hist,
                               returned |-> [w \in Waiters |-> wpc[w] = "returned"],
                               wsub |-> [w \in Waiters |-> WSub[w]],
                               targets |-> [x \in Writers |-> WTargets[x]],
                               mode |-> [x \in Writers |-> NotifyMode[x]]])>>)
=============================================================================
