SPECIFICATION Spec
CONSTANTS
  Waiters = {"w2"}
  Writers = {"x1"}
  WSub <- oneWSub
  WTargets <- oneTargets
  NotifyMode <- oneMode
  Subs = {"a", "b"}
  EarlyReturn = FALSE
  RegisterLate = TRUE
  EmitHist = FALSE
INVARIANTS TypeOK NoLostWake
CHECK_DEADLOCK FALSE
