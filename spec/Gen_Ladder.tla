------------------------------ MODULE Gen_Ladder ------------------------------
(* Family "ladder" (C04): ONE delivery climbs its attempt ladder up to and     *)
(* beyond saturation of the retry curve min(max, min*1.1^n): policies whose    *)
(* curve saturates after 2-3 attempts with a gap of 0.9-1.8 s between the last *)
(* unsaturated value and the bound, and a policy whose maximum is BELOW the    *)
(* (default) minimum.  The clock goes to 1.5 s before / after every deadline.  *)
EXTENDS BusModel
Cfg0 == [ttl |-> 6000000, mttl |-> 4000000, ord |-> FALSE, filt |-> NoFilter, minB |-> 0, maxB |-> 0,
         dlt |-> "", maxAtt |-> 0, push |-> "", labels |-> <<>>]
P(n, a, b) == [name |-> n, topic |-> "t1", cfg |-> [Cfg0 EXCEPT !.minB = a, !.maxB = b]]
mcSubCfgs == {P("s1", 0, 130), P("s2", 200, 260), P("s3", 0, 50), P("s4", 20, 45)}
mcTopicNames == {"t1"}
mcSubNames == {"s1", "s2", "s3", "s4"}
mcSnapNames == {}
mcSetup == << [op |-> "CreateTopic", name |-> "t1"] >> \o
           [i \in 1..4 |-> [op |-> "CreateSub", c |-> CHOOSE c \in mcSubCfgs : c.name = <<"s1", "s2", "s3", "s4">>[i]]] \o
           << [op |-> "Publish", topic |-> "t1", msgs |-> << [key |-> "", attrs |-> <<>>] >>] >>
mcMsgKinds == { [key |-> "", attrs |-> <<>>] }
mcPrefixPairs == {}
mcTickDs == {10}
mcProjOfName == <<>>
mcOps == {"PullSame", "TickNear"}
mcWeights == [op \in mcOps |-> 1]
=============================================================================
