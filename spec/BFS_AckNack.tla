----------------------------- MODULE BFS_AckNack -----------------------------
(* Bounded exhaustive histories of the one-request ack + nack operation: a    *)
(* dead-lettering subscription holding two messages; every sequence of pulls  *)
(* and ack + nack requests (every split of up to two delivered ids into       *)
(* acknowledged / nacked) of the given length.  Under fault injection every   *)
(* statement and the commit of the single transaction is hit (C09); without   *)
(* faults the composite clause VAckNack judges it (C03, C04, C06).            *)
EXTENDS BusModel
Cfg0 == [ttl |-> 600, mttl |-> 400, ord |-> FALSE, filt |-> NoFilter, minB |-> 2, maxB |-> 3,
         dlt |-> "", maxAtt |-> 0, push |-> "", labels |-> <<>>]
C1 == [name |-> "s1", topic |-> "t1", cfg |-> [Cfg0 EXCEPT !.dlt = "t2", !.maxAtt = 1]]
C2 == [name |-> "s2", topic |-> "t2", cfg |-> Cfg0]
mcSubCfgs == {C1, C2}
mcSetup == << [op |-> "CreateTopic", name |-> "t1"], [op |-> "CreateTopic", name |-> "t2"],
              [op |-> "CreateSub", c |-> C1], [op |-> "CreateSub", c |-> C2],
              [op |-> "Publish", topic |-> "t1", msgs |-> << [key |-> "", attrs |-> <<>>], [key |-> "", attrs |-> <<>>] >>] >>
mcMsgKinds == { [key |-> "", attrs |-> <<>>] }
mcProjOfName == <<>>
mcWeights == <<>>
mcOps == {"Pull", "AckNack"}
Shape == ev'.op = "AckNack" => ev'.sub = "s1"
=============================================================================
