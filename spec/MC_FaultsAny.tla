---------------------------- MODULE MC_FaultsAny ----------------------------
(* Same system as MC_Faults but Match may return ANY matching description   *)
(* ("which runs is undefined"): the contract-level properties do not depend *)
(* on the choice rule.                                                      *)
EXTENDS MC_Faults
=============================================================================
