---------------------------- MODULE MC_FaultsAny ----------------------------
(* Same system as MC_Faults but Match may return ANY matching description   *)
(* ("which runs is undefined"): the contract-level properties do not depend *)
(* on the choice rule.                                                      *)
EXTENDS MC_Faults
anyInitChoices == UNION {{<<DT(a), DA(b), DO(1)>>, <<DA(b), DT(a), DO(1)>>} : a \in 1..2, b \in 1..2}
=============================================================================
