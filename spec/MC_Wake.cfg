SPECIFICATION Spec
CONSTANTS
  Waiters = {"w1", "w2", "w3"}
  Writers = {"x1", "x2", "x3"}
  WSub <- mcWSub
  WTargets <- mcTargets
  NotifyMode <- mcMode
  Subs = {"a", "b"}
  EarlyReturn = FALSE
  RegisterLate = FALSE
  EmitHist = FALSE
INVARIANTS TypeOK NoLostWake
CHECK_DEADLOCK FALSE
