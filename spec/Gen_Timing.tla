----------------------------- MODULE Gen_Timing -----------------------------
(* Family "timing" (C14): short retention and expiration TTLs, injected     *)
(* delivery delay, pulls (also empty ones) placed around subscription       *)
(* expiry, expiry sweeps spliced everywhere, seeks that refresh retention.  *)
(* Clock advances are whole seconds and every deadline in the model is at   *)
(* least one second away from every operation.                              *)
EXTENDS BusModel
Cfg0 == [ttl |-> 12, mttl |-> 9, ord |-> FALSE, filt |-> NoFilter, minB |-> 2, maxB |-> 3,
         dlt |-> "", maxAtt |-> 0, push |-> "", labels |-> <<>>]
C1 == [name |-> "s1", topic |-> "t1", cfg |-> Cfg0]
C2 == [name |-> "s2", topic |-> "t1", cfg |-> [Cfg0 EXCEPT !.ttl = 30, !.mttl = 5]]
C3 == [name |-> "s3", topic |-> "t1", cfg |-> [Cfg0 EXCEPT !.ttl = 7, !.mttl = 40, !.ord = TRUE]]
C4 == [name |-> "s1", topic |-> "t1", cfg |-> [Cfg0 EXCEPT !.ttl = 20, !.mttl = 20]]
mcTopicNames == {"t1"}
mcSubNames == {"s1", "s2", "s3"}
mcSnapNames == {}
mcSubCfgs == {C1, C2, C3, C4}
mcSetup == << [op |-> "CreateTopic", name |-> "t1"],
              [op |-> "CreateSub", c |-> C1], [op |-> "CreateSub", c |-> C2], [op |-> "CreateSub", c |-> C3] >>
mcMsgKinds == { [key |-> "", attrs |-> <<>>], [key |-> "K", attrs |-> <<>>] }
mcPrefixPairs == {}
mcTickDs == {1, 2, 3, 4, 6, 10}
mcProjOfName == <<>>
mcOps == {"Publish", "Pull", "PullWait", "UpdateSub", "Ack", "ModAck", "SeekTime", "ExpireSubs", "Tick", "SetDelay", "CreateSub",
          "PruneExpiredDeliveries", "Get"}
W0 == [op \in mcOps |-> 1]
mcWeights == [W0 EXCEPT !["Publish"] = 6, !["Pull"] = 8, !["PullWait"] = 5, !["Ack"] = 3, !["ExpireSubs"] = 5, !["Tick"] = 10,
                        !["SetDelay"] = 2, !["UpdateSub"] = 4, !["SeekTime"] = 2, !["CreateSub"] = 2]
=============================================================================
