------------------------------ MODULE Gen_Lease ------------------------------
(* Family "lease" (C04): retry policies absent / min only / max only / both, *)
(* from sub-second to hours, on the documented curve min(max, min*1.1^n);    *)
(* the clock is advanced to 1.5 s before and 1.5 s after every retry         *)
(* deadline (TickNear) so that each deadline is probed from both sides, and  *)
(* pulls, nacks and modify-deadlines are interleaved.  Time unit 0.1 s.      *)
EXTENDS BusModel
Cfg0 == [ttl |-> 6000000, mttl |-> 4000000, ord |-> FALSE, filt |-> NoFilter, minB |-> 0, maxB |-> 0,
         dlt |-> "", maxAtt |-> 0, push |-> "", labels |-> <<>>]
P(n, a, b) == [name |-> n, topic |-> "t1", cfg |-> [Cfg0 EXCEPT !.minB = a, !.maxB = b]]
mcSubCfgs == {P("s1", 0, 0), P("s2", 30, 0), P("s3", 0, 150), P("s4", 20, 45), P("s5", 36000, 72000), P("s6", 4, 9)}
mcTopicNames == {"t1"}
mcSubNames == {"s1", "s2", "s3", "s4", "s5", "s6"}
mcSnapNames == {}
mcSetup == << [op |-> "CreateTopic", name |-> "t1"] >> \o
           [i \in 1..6 |-> [op |-> "CreateSub", c |-> CHOOSE c \in mcSubCfgs : c.name = <<"s1", "s2", "s3", "s4", "s5", "s6">>[i]]]
mcMsgKinds == { [key |-> "", attrs |-> <<>>] }
mcPrefixPairs == {}
mcTickDs == {10, 50}
mcProjOfName == <<>>
mcOps == {"Publish", "Pull", "RacePull", "TickNear", "Tick", "Nack", "ModAck", "Ack"}
W0 == [op \in mcOps |-> 1]
mcWeights == [W0 EXCEPT !["Publish"] = 2, !["Pull"] = 10, !["RacePull"] = 4, !["TickNear"] = 12, !["Nack"] = 2, !["ModAck"] = 2]
=============================================================================
