SPECIFICATION Spec
CONSTANTS
  TU = 1
  Jit = 0
  NeMissing = FALSE
  PrefixPairs = {}
  ImplSubs <- mcSubs
  ImplTopics <- mcTopics
  MsgKinds <- mcMsgKinds
  BatchMax = 1
  MaxMsgs = 3
  MaxTime = 4
  TickDs = {1, 2}
  PullMaxes = {3}
  Ops <- mcOps
  AttBound = 2
  ChainAnyKey = FALSE
ACTION_CONSTRAINT ReportCex
CONSTRAINT Bounded
VIEW View
CHECK_DEADLOCK FALSE
