------------------------------- MODULE Config -------------------------------
(***************************************************************************)
(* C17  "Configuration round-trips: what was set is what Get returns".     *)
(*                                                                         *)
(* Reference definition of the configuration of a subscription and of its  *)
(* topic as a client sees it through Create / Update / Get / List:         *)
(*                                                                         *)
(*    Get(Create(c))            = WithDefaults(c)                          *)
(*    Get(Update(S, mask, new)) = [f \in Paths |-> IF f \in mask           *)
(*                                   THEN WithDefaults(new)[f]             *)
(*                                   ELSE Get(S)[f]]     (mask locality)   *)
(*                                                                         *)
(* consistent with Bus!Dflt / Bus!VCreateSub / Bus!VUpdateSub / Bus!VGet   *)
(* (defaults: expiration TTL 30 d, retention 7 d, 5 delivery attempts; a   *)
(* deleted topic is shown as "_deleted-topic_").                           *)
(*                                                                         *)
(* Values are abstract.  A REQUEST assigns every field a value CLASS       *)
(* (absent / zero / small / huge / ...).  What Get must show is a VALUE    *)
(* TOKEN [c |-> class, k |-> step]: "exactly the concrete value of class c *)
(* that was sent at step k" - the harness (harness/cmd/cfgcheck) picks the *)
(* concrete value (durations from 1 ns to 68 years and sums, label maps    *)
(* incl. unicode and many keys, ...) and must get back exactly that one -  *)
(* or a fixed token: [c |-> "default"], "empty", "absent", "zero", "none". *)
(*                                                                         *)
(* One point is genuinely ambiguous: a retry-policy bound that is PRESENT  *)
(* with value zero.  Reading B keeps it ("what was set is what Get         *)
(* returns"), reading A treats it like an absent bound.  Both references   *)
(* are computed (want[1] = B, want[2] = A); the check accepts an           *)
(* implementation that follows ONE of them on every case of a run.         *)
(*                                                                         *)
(* TLC is enumerator and oracle (DESIGN 4.3):                              *)
(*   Mode "create"  one state per create-then-get case; the case space is  *)
(*                  the full product of the per-field classes, indexed by  *)
(*                  0..NCreate-1 (Picks selects the cases to emit);        *)
(*   Mode "sim"     like "seq", for -simulate: the mask of an update is    *)
(*                  composed path by path (in or out), so that every       *)
(*                  subset is equally likely and a state has few           *)
(*                  successors;                                            *)
(*   Mode "seq"     create, then up to Depth steps, each an Update with    *)
(*                  ANY subset of the mask paths (MaskPaths) and a new     *)
(*                  request from NewReqs, or the deletion of a topic;      *)
(*                  exhaustively (BFS) or sampled (-simulate).  Every      *)
(*                  step carries the reference configuration after it.     *)
(***************************************************************************)
EXTENDS Integers, Sequences, FiniteSets, TLC, Json

CONSTANTS Mode,       \* "create" | "seq"
          Picks,      \* create: set of case indices to emit (PicksAll, PicksStride or an explicit set)
          Stride, Offset, \* create: PicksStride = every Stride-th case starting at Offset
          Depth,      \* seq: number of steps after the create
          MaskPaths,  \* seq: the universe of mask paths (subset of AllPaths)
          NewIds,     \* seq: ids of the requests used by updates
          CreateIds,  \* seq: ids of the requests used by the initial create
          DelTopics   \* seq: topics that may be deleted ({} = no deletions)

SubPaths == {"labels", "expiration_policy", "message_retention_duration", "enable_message_ordering",
             "retry_policy", "push_config", "filter", "dead_letter_policy"}
AllPaths == SubPaths \cup {"topic.labels"}

(***************************************************************************)
(* Value classes of a request                                              *)
(***************************************************************************)
LabelC == <<"absent", "empty", "small", "unicode", "many">>
ExpC   == <<"absent", "empty", "zero", "small", "huge">>   \* policy absent / present without ttl / ttl = ...
RetC   == <<"absent", "zero", "small", "huge">>
BoundC == <<"absent", "zero", "small", "huge">>
PushC  == <<"absent", "empty", "endpoint">>
FiltC  == <<"none", "set">>
OrdC   == <<FALSE, TRUE>>
\* retry policy: block absent, or present with each bound in BoundC
RetryC == <<[present |-> FALSE, min |-> "absent", max |-> "absent"]>> \o
          [i \in 1..16 |-> [present |-> TRUE, min |-> BoundC[((i - 1) \div 4) + 1], max |-> BoundC[((i - 1) % 4) + 1]]]
\* dead-letter policy: block absent, or topic t2 with max_delivery_attempts 0 (default), 1, 5, 100
DLC == <<[present |-> FALSE, topic |-> "", max |-> 0]>> \o
       [i \in 1..4 |-> [present |-> TRUE, topic |-> "t2", max |-> <<0, 1, 5, 100>>[i]]]

Val(c, k) == [c |-> c, k |-> k]
Fixed(c) == Val(c, 0)

(***************************************************************************)
(* WithDefaults: what Get shows for a request sent at step k.  za: reading *)
(* A (a zero retry bound is an absent bound).                              *)
(***************************************************************************)
ShowLabels(c, k) == IF c \in {"absent", "empty"} THEN Fixed("empty") ELSE Val(c, k)
ShowExp(c, k)    == IF c \in {"absent", "empty", "zero"} THEN Fixed("default") ELSE Val(c, k)
ShowRet(c, k)    == IF c \in {"absent", "zero"} THEN Fixed("default") ELSE Val(c, k)
ShowBound(c, k, za) == IF c = "absent" \/ (c = "zero" /\ za) THEN Fixed("absent")
                       ELSE IF c = "zero" THEN Fixed("zero") ELSE Val(c, k)
\* a policy whose two bounds are absent is shown as absent (no block)
ShowRetry(r, k, za) == [min |-> ShowBound(r.min, k, za), max |-> ShowBound(r.max, k, za)]
ShowPush(c, k)   == IF c = "endpoint" THEN Val(c, k) ELSE Fixed("none")
ShowFilt(c, k)   == IF c = "set" THEN Val(c, k) ELSE Fixed("none")
DefaultMaxAttempts == 5
\* stored dead-letter policy: topic "" = none
ShowDL(d) == IF d.present /\ d.topic # ""
             THEN [topic |-> d.topic, max |-> IF d.max = 0 THEN DefaultMaxAttempts ELSE d.max]
             ELSE [topic |-> "", max |-> 0]

WithDefaults(req, k, za) ==
  [labels |-> ShowLabels(req.labels, k),
   expiration_policy |-> ShowExp(req.exp, k),
   message_retention_duration |-> ShowRet(req.ret, k),
   enable_message_ordering |-> req.ord,
   retry_policy |-> ShowRetry(req.retry, k, za),
   push_config |-> ShowPush(req.push, k),
   filter |-> ShowFilt(req.filt, k),
   dead_letter_policy |-> ShowDL(req.dl)]

\* mask locality: exactly the named paths take the new (normalised) value
Update(cfg, mask, req, k, za) ==
  LET n == WithDefaults(req, k, za) IN
  [p \in SubPaths |-> IF p \in mask THEN n[p] ELSE cfg[p]]

DeletedTopicName == "_deleted-topic_"
ShownTopic(t, dead) == IF t = "" THEN "" ELSE IF t \in dead THEN DeletedTopicName ELSE t
\* what Get / List present, given the set of deleted topics
Shown(cfg, dead) ==
  [p \in SubPaths \cup {"topic"} |->
     IF p = "topic" THEN ShownTopic("t1", dead)
     ELSE IF p = "dead_letter_policy"
          THEN [topic |-> ShownTopic(cfg[p].topic, dead), max |-> cfg[p].max]
          ELSE cfg[p]]

(***************************************************************************)
(* (a) create-then-get: the full product, indexed                          *)
(***************************************************************************)
Radix == <<Len(LabelC), Len(ExpC), Len(RetC), Len(OrdC), Len(RetryC), Len(PushC), Len(FiltC), Len(DLC)>>
RECURSIVE ProdTo(_)
ProdTo(n) == IF n = 0 THEN 1 ELSE Radix[n] * ProdTo(n - 1)
NCreate == ProdTo(Len(Radix))
Digit(i, n) == ((i \div ProdTo(n - 1)) % Radix[n]) + 1
PicksAll == 0..(NCreate - 1)
PicksStride == {i \in PicksAll : i % Stride = Offset}
Decode(i) ==
  [labels |-> LabelC[Digit(i, 1)], exp |-> ExpC[Digit(i, 2)], ret |-> RetC[Digit(i, 3)],
   ord |-> OrdC[Digit(i, 4)], retry |-> RetryC[Digit(i, 5)], push |-> PushC[Digit(i, 6)],
   filt |-> FiltC[Digit(i, 7)], dl |-> DLC[Digit(i, 8)], tlabels |-> LabelC[Digit(i, 1)]]

(***************************************************************************)
(* (b) the requests used by update sequences                               *)
(***************************************************************************)
R(l, e, rt, o, rp, rmin, rmax, pu, fi, dp, dt, dm, tl) ==
  [labels |-> l, exp |-> e, ret |-> rt, ord |-> o,
   retry |-> [present |-> rp, min |-> rmin, max |-> rmax], push |-> pu, filt |-> fi,
   dl |-> [present |-> dp, topic |-> dt, max |-> dm], tlabels |-> tl]
Reqs == <<
  R("small",   "small",  "small",  TRUE,  TRUE,  "small",  "small",  "endpoint", "set",  TRUE,  "t2", 5,   "small"),
  R("absent",  "absent", "absent", FALSE, FALSE, "absent", "absent", "absent",   "none", FALSE, "",   0,   "absent"),
  R("empty",   "zero",   "zero",   FALSE, TRUE,  "zero",   "zero",   "empty",    "none", TRUE,  "t3", 0,   "empty"),
  R("many",    "huge",   "huge",   TRUE,  TRUE,  "huge",   "huge",   "endpoint", "set",  TRUE,  "t3", 100, "many"),
  R("unicode", "empty",  "small",  TRUE,  TRUE,  "small",  "absent", "endpoint", "set",  TRUE,  "t2", 1,   "unicode"),
  R("small",   "huge",   "zero",   FALSE, TRUE,  "absent", "huge",   "empty",    "none", TRUE,  "t2", 0,   "small"),
  R("unicode", "small",  "huge",   FALSE, TRUE,  "absent", "absent", "empty",    "set",  TRUE,  "",   5,   "many")
>>

VARIABLES S, hist,
          pend   \* Mode "sim" only: the update being composed (request id, mask so far)
vars == <<S, hist, pend>>
PendOff == [on |-> FALSE, id |-> 0, i |-> 0, mask |-> {}]
PathOrder == <<"labels", "expiration_policy", "message_retention_duration", "enable_message_ordering",
               "retry_policy", "push_config", "filter", "dead_letter_policy", "topic.labels">>

Masks == SUBSET MaskPaths

\* reference state: both readings of the subscription configuration, the
\* topic labels, the deleted topics
StateOf(cfgB, cfgA, tl, dead) == [b |-> cfgB, a |-> cfgA, tl |-> tl, dead |-> dead]

Want(st) == [sub |-> <<Shown(st.b, st.dead), Shown(st.a, st.dead)>>,
             topic |-> [live |-> "t1" \notin st.dead, labels |-> st.tl]]

CreateStep(req) ==
  LET st == StateOf(WithDefaults(req, 0, FALSE), WithDefaults(req, 0, TRUE), ShowLabels(req.tlabels, 0), {}) IN
  /\ S' = st
  /\ hist' = <<[op |-> "create", k |-> 0, req |-> req, want |-> Want(st)]>>

UpdateStep(mask, id) ==
  LET k == Len(hist)
      req == Reqs[id]
      sm == mask \cap SubPaths
      tl == IF "topic.labels" \in mask THEN ShowLabels(req.tlabels, k) ELSE S.tl
      st == StateOf(Update(S.b, sm, req, k, FALSE), Update(S.a, sm, req, k, TRUE), tl, S.dead) IN
  \* values the server must reject are not part of C17
  /\ ("dead_letter_policy" \in mask /\ req.dl.present) => req.dl.topic \notin S.dead
  /\ "topic.labels" \in mask => "t1" \notin S.dead
  /\ S' = st
  /\ hist' = Append(hist, [op |-> "update", k |-> k, mask |-> mask, req |-> req, want |-> Want(st)])

DeleteStep(t) ==
  LET st == [S EXCEPT !.dead = @ \cup {t}] IN
  /\ t \notin S.dead
  /\ S' = st
  /\ hist' = Append(hist, [op |-> "deltopic", k |-> Len(hist), topic |-> t, want |-> Want(st)])

None == [b |-> <<>>, a |-> <<>>, tl |-> <<>>, dead |-> {}]

Init ==
  IF Mode = "create"
  THEN \E i \in Picks :
         /\ i \in 0..(NCreate - 1)
         /\ LET req == Decode(i)
                st == StateOf(WithDefaults(req, 0, FALSE), WithDefaults(req, 0, TRUE),
                              ShowLabels(req.tlabels, 0), {}) IN
            /\ S = st
            /\ hist = <<[op |-> "create", k |-> 0, req |-> req, want |-> Want(st)]>>
            /\ pend = PendOff
            /\ PrintT(<<"CASE", ToJson([id |-> i, steps |-> hist])>>)
  ELSE S = None /\ hist = <<>> /\ pend = PendOff

Emit == /\ PrintT(<<"SCENARIO", ToJson(hist)>>)
        /\ hist' = Append(hist, [op |-> "end"]) /\ UNCHANGED <<S, pend>>

UpdateOK(mask, id) ==
  /\ ("dead_letter_policy" \in mask /\ Reqs[id].dl.present) => Reqs[id].dl.topic \notin S.dead
  /\ "topic.labels" \in mask => "t1" \notin S.dead

\* -simulate: compose the mask of the next update path by path
SimStep ==
  IF ~pend.on
  THEN \/ \E id \in NewIds : pend' = [on |-> TRUE, id |-> id, i |-> 1, mask |-> {}] /\ UNCHANGED <<S, hist>>
       \/ \E t \in DelTopics : DeleteStep(t) /\ UNCHANGED pend
  ELSE IF pend.i <= Len(PathOrder)
  THEN \E b \in BOOLEAN :
         /\ pend' = [pend EXCEPT !.i = @ + 1,
                                  !.mask = IF b /\ PathOrder[pend.i] \in MaskPaths
                                           THEN @ \cup {PathOrder[pend.i]} ELSE @]
         /\ UNCHANGED <<S, hist>>
  ELSE /\ pend' = PendOff
       /\ IF UpdateOK(pend.mask, pend.id) THEN UpdateStep(pend.mask, pend.id)
          ELSE UNCHANGED <<S, hist>>

Next ==
  IF Mode = "create" THEN UNCHANGED vars
  ELSE IF hist = <<>> THEN (\E id \in CreateIds : CreateStep(Reqs[id])) /\ UNCHANGED pend
  ELSE IF hist[Len(hist)].op = "end" THEN UNCHANGED vars
  ELSE IF Len(hist) = Depth + 1 THEN Emit
  ELSE IF Mode = "sim" THEN SimStep
  ELSE /\ UNCHANGED pend
       /\ \/ \E mask \in Masks : \E id \in NewIds : UpdateStep(mask, id)
          \/ \E t \in DelTopics : DeleteStep(t)

Spec == Init /\ [][Next]_vars

(***************************************************************************)
(* Theorems of the reference itself (checked by TLC on every state)        *)
(***************************************************************************)
\* mask locality of the reference: an update leaves every path outside the
\* mask as it was and gives every path inside the mask the normalised new value
LocalityOK ==
  (Mode \in {"seq", "sim"} /\ Len(hist) >= 2 /\ hist[Len(hist)].op = "update") =>
     LET e == hist[Len(hist)]
         before == hist[Len(hist) - 1].want.sub[1]
         after == e.want.sub[1] IN
     /\ \A p \in SubPaths \ e.mask : after[p] = before[p]
     /\ \A p \in (SubPaths \cap e.mask) \ {"dead_letter_policy"} :
          after[p] = WithDefaults(e.req, e.k, FALSE)[p]
\* defaults are never "absent": TTL and retention are always shown
DefaultsOK ==
  (hist # <<>> /\ hist[Len(hist)].op # "end") =>
     LET w == hist[Len(hist)].want.sub[1] IN
     /\ w.expiration_policy.c # "absent" /\ w.message_retention_duration.c # "absent"
     /\ (w.dead_letter_policy.topic # "" => w.dead_letter_policy.max >= 1)
=============================================================================
