----------------------------- MODULE MC_Faults -----------------------------
(* Exhaustive check of Faults.tla: 3 racing callers, every mix of five call  *)
(* kinds, two OVERLAPPING descriptions for one operation (in both list       *)
(* orders, every count 0..2) plus a description for a different operation,   *)
(* Match = first in list order (what the code does).                         *)
EXTENDS Faults
\* descriptions
DT(n) == [tag |-> "dT", op |-> "Publish", params |-> [topic |-> "t1"], n |-> n]   \* Publish{topic=t1}
DA(n) == [tag |-> "dA", op |-> "Publish", params |-> <<>>, n |-> n]               \* any Publish (overlaps dT)
DO(n) == [tag |-> "dO", op |-> "Pull", params |-> [topic |-> "t1"], n |-> n]      \* other operation, same parameter
DE(n) == [tag |-> "dE", op |-> "Publish", params |-> [topic |-> ""], n |-> n]     \* Publish{topic=""}: an EMPTY value is a value
\* call kinds
KExact == [op |-> "Publish", params |-> [topic |-> "t1"]]                  \* matches dT and dA
KSuper == [op |-> "Publish", params |-> [topic |-> "t1", key |-> "k"]]     \* superset: matches dT and dA
KOtherV == [op |-> "Publish", params |-> [topic |-> "t2"]]                 \* other value: matches dA only
KNoParam == [op |-> "Publish", params |-> <<>>]                            \* no parameters: matches dA only
KOtherOp == [op |-> "Pull", params |-> [topic |-> "t1"]]                   \* other operation: matches dO only
KEmptyV == [op |-> "Publish", params |-> [topic |-> ""]]                    \* the empty value: matches dE and dA
Kinds == <<KExact, KSuper, KOtherV, KNoParam, KOtherOp>>

mcCallers == 1..3
\* every multiset of call kinds (callers are interchangeable)
mcCallChoices == {[c \in mcCallers |-> Kinds[f[c]]] :
                    f \in {g \in [mcCallers -> DOMAIN Kinds] : \A c \in mcCallers : c > 1 => g[c - 1] <= g[c]}}
mcInitChoices == UNION {{<<DT(a), DA(b), DO(1)>>, <<DA(b), DT(a), DO(1)>>} : a \in 0..2, b \in 0..2}
mcLatePool == {}
=============================================================================
