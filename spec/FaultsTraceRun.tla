--------------------------- MODULE FaultsTraceRun ---------------------------
EXTENDS FaultsTrace
TraceFileName == "trace.ndjson"
trCallers == 1..12
trNone == {}
=============================================================================
