SPECIFICATION Spec
CONSTANTS
  TU = 1
  Jit = 0
  NeMissing = FALSE
  PrefixPairs = {}
  TopicNames = {"t1"}
  SubNames = {"s1"}
  SnapNames = {}
  SubCfgs <- mcSubCfgs
  MsgKinds <- mcMsgKinds
  BatchMax = 1
  MaxMsgs = 3
  MaxTopics = 1
  MaxSubs = 1
  MaxDels = 3
  MaxTime = 100
  TickDs = {1}
  PullMaxes = {10}
  AckMax = 1
  ModSecs = {0}
  JobAges = {0}
  JobMaxes = {1}
  Ops <- mcOps
  Setup <- mcSetup
  ProjOfName <- mcProjOfName
  Depth = 11
  AttBound = 100
  ViewKeep = {}
  RealBackoff = FALSE
  GenBFS = TRUE
  AckAll = FALSE
  Weights <- mcWeights
ACTION_CONSTRAINT Shape
CHECK_DEADLOCK FALSE
