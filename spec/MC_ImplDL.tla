------------------------------ MODULE MC_ImplDL ------------------------------
(* Mechanism vs contract, dead-lettering: s1 on t1 dead-letters after one     *)
(* attempt into t2; on t2 an ordered subscription s2 (which itself dead-      *)
(* letters back into t1 after one attempt: a cycle) and a filtered one s3.    *)
EXTENDS BusImpl
F_has_a == [op |-> "has", k |-> "a"]
Cfg0 == [ttl |-> 50, mttl |-> 8, ord |-> FALSE, filt |-> NoFilter, minB |-> 2, maxB |-> 2,
         dlt |-> "", maxAtt |-> 0, push |-> "", labels |-> <<>>]
mcTopics == <<"t1", "t2">>
mcSubs == << [name |-> "s1", topic |-> "t1", cfg |-> [Cfg0 EXCEPT !.dlt = "t2", !.maxAtt = 1]],
             [name |-> "s2", topic |-> "t2", cfg |-> [Cfg0 EXCEPT !.ord = TRUE, !.dlt = "t1", !.maxAtt = 1]],
             [name |-> "s3", topic |-> "t2", cfg |-> [Cfg0 EXCEPT !.filt = F_has_a]] >>
mcMsgKinds == { [key |-> "K", attrs |-> <<>>], [key |-> "K", attrs |-> [a |-> "x"]] }
mcPrefixPairs == {<<"x", "">>, <<"x", "x">>}
mcOps == {"Publish", "Pull", "Ack", "Nack", "Tick"}
=============================================================================
