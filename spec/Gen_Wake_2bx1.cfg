SPECIFICATION Spec
CONSTANTS
  Waiters = {"w2", "w3"}
  Writers = {"x1"}
  WSub <- wsub2b
  WTargets <- tgtB
  NotifyMode <- modeL
  Subs = {"a", "b"}
  EarlyReturn = FALSE
  RegisterLate = FALSE
  EmitHist = TRUE
INVARIANTS EmitAtEnd
CHECK_DEADLOCK FALSE
