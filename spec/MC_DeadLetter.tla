--------------------------- MODULE MC_DeadLetter ---------------------------
(* C06: s1 on t1 dead-letters after N = 2 attempts into t2, which has a    *)
(* plain subscription s2 that itself dead-letters after 1 attempt back     *)
(* into t1 (a cycle), and a filtered subscription s3; the dead-letter      *)
(* topic can be deleted mid-way.  pull / nack / modack / ack / sweep /     *)
(* tick in every order.                                                    *)
EXTENDS BusModel
F_has_a == [op |-> "has", k |-> "a"]
Cfg0 == [ttl |-> 50, mttl |-> 20, ord |-> FALSE, filt |-> NoFilter, minB |-> 2, maxB |-> 2,
         dlt |-> "", maxAtt |-> 0, push |-> "", labels |-> <<>>]
C1 == [name |-> "s1", topic |-> "t1", cfg |-> [Cfg0 EXCEPT !.dlt = "t2", !.maxAtt = 2]]
C2 == [name |-> "s2", topic |-> "t2", cfg |-> [Cfg0 EXCEPT !.dlt = "t1", !.maxAtt = 1]]
C3 == [name |-> "s3", topic |-> "t2", cfg |-> [Cfg0 EXCEPT !.filt = F_has_a]]
mcTopicNames == {"t1", "t2"}
mcSubNames == {"s1", "s2", "s3"}
mcSnapNames == {}
mcSubCfgs == {C1, C2, C3}
mcSetup == << [op |-> "CreateTopic", name |-> "t1"], [op |-> "CreateTopic", name |-> "t2"],
              [op |-> "CreateSub", c |-> C1], [op |-> "CreateSub", c |-> C2], [op |-> "CreateSub", c |-> C3] >>
mcMsgKinds == { [key |-> "", attrs |-> [a |-> "x"]] }
mcPrefixPairs == {<<"x", "">>, <<"x", "x">>}
mcBatchMax == 1
mcTickDs == {2}
mcPullMaxes == {2}
mcJobAges == {0}
mcJobMaxes == {1}
mcProjOfName == <<>>
mcWeights == <<>>
mcOps == {"Publish", "Pull", "Ack", "Nack", "StreamAN", "AckNack", "DLSweep", "Tick"}
=============================================================================
