SPECIFICATION Spec
CONSTANTS
  Waiters = {"w1", "w2"}
  Writers = {"x1"}
  WSub <- wsub2
  WTargets <- tgtAB
  NotifyMode <- modeL
  Subs = {"a", "b"}
  EarlyReturn = FALSE
  RegisterLate = FALSE
  EmitHist = TRUE
INVARIANTS EmitAtEnd
CHECK_DEADLOCK FALSE
