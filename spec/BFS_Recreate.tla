---------------------------- MODULE BFS_Recreate ----------------------------
(* Bounded exhaustive histories around re-creation and filter update of ONE  *)
(* subscription name: create with filter F1 / F2, delete, update the filter, *)
(* publish a message that F1 and F2 disagree on or agree on, pull.           *)
EXTENDS BusModel
F1 == [op |-> "has", k |-> "a"]
F2 == [op |-> "not", x |-> F1]
Cfg0 == [ttl |-> 600, mttl |-> 80, ord |-> FALSE, filt |-> NoFilter, minB |-> 20, maxB |-> 30,
         dlt |-> "", maxAtt |-> 0, push |-> "", labels |-> <<>>]
C1 == [name |-> "s1", topic |-> "t1", cfg |-> [Cfg0 EXCEPT !.filt = F1]]
C2 == [name |-> "s1", topic |-> "t1", cfg |-> [Cfg0 EXCEPT !.filt = F2, !.ord = TRUE, !.labels = [x |-> "y"]]]
mcSubCfgs == {C1, C2}
mcSetup == << [op |-> "CreateTopic", name |-> "t1"], [op |-> "CreateSub", c |-> C1] >>
mcMsgKinds == { [key |-> "", attrs |-> <<>>], [key |-> "", attrs |-> [a |-> "x"]] }
mcProjOfName == <<>>
mcPrefixPairs == {<<"x", "">>, <<"x", "x">>}
mcWeights == <<>>
mcOps == {"CreateSub", "DeleteSub", "UpdateFilter", "Publish", "Pull"}
=============================================================================
