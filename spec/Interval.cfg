\* default configuration: every 31st PostgreSQL interval record; checks/config.py
\* writes the full enumeration and the Go duration family
SPECIFICATION Spec
CONSTANTS
  Mode = "pg"
  Picks <- PicksStride
  Stride = 31
  Offset = 0
INVARIANT SignOK
CHECK_DEADLOCK FALSE
