----------------------------- MODULE FaultsAgg -----------------------------
(***************************************************************************)
(* Black-box validation of LARGE traces of the real faults.Set (un-gated   *)
(* stress with up to 64 goroutines and thousands of calls, and the gRPC    *)
(* end-to-end runs), where inferring the internal steps of every call      *)
(* (FaultsTrace.tla) is not feasible.  TLC reads the ndjson trace and      *)
(* evaluates, line by line and on the aggregates of each trace, the        *)
(* counting clauses of property C18.  Every clause is the black-box image  *)
(* of a property that TLC proves on the step model (spec/Faults.tla):      *)
(*                                                                         *)
(*   only-matching        Faults!OnlyMatching, NonMatchingNeverFails       *)
(*   at-most-count        Faults!FiredLeN                                  *)
(*   exactly-count        Faults!IntervalExact (= TermMaximal in real      *)
(*                        time): a call passed => every description it     *)
(*                        matches (added before the call started) has      *)
(*                        failed exactly N calls, all of them invoked      *)
(*                        before this call returned                        *)
(*   single-exact         Faults!TermExact: a description that shares no   *)
(*                        call with another one failed exactly             *)
(*                        Min(N, matching calls) calls                     *)
(*   listing              Faults!ListingOK / QuiescentListing: Current()   *)
(*                        lists no count <= 0, not more than the budget    *)
(*                        left by the calls that had returned, not less    *)
(*                        than the budget left by the calls that had been  *)
(*                        invoked; exhausted => not listed                 *)
(*                                                                         *)
(* Lines: Reset{tr,nl,kinds} Add{d,desc,t0,t1} End{c,k,s,t,out}            *)
(*        Current{cur,t0,t1,q}   (Start lines are ignored).  s,t,t0,t1 are *)
(* stamps of one atomic counter in the harness.                            *)
(* The specification does not block on a false clause: it reports it       *)
(* (VIOL record) and carries on.                                           *)
(***************************************************************************)
EXTENDS FaultsDefs, Integers, Sequences, FiniteSets, TLC, Json

CONSTANT TraceFile
Trace == ndJsonDeserialize(TraceFile)

VARIABLES l, A, bad
avars == <<l, A, bad>>

MaxOf(S) == IF S = {} THEN 0 ELSE CHOOSE x \in S : \A y \in S : y <= x

\* aggregates of the trace whose Reset line is at index r
Agg(r) ==
  LET e0 == Trace[r]
      R == (r + 1)..(r + e0.nl)
      Adds == {i \in R : Trace[i].op = "Add"}
      Ends == {i \in R : Trace[i].op = "End"}
      D == {Trace[i].d : i \in Adds}
      add == [d \in D |-> Trace[CHOOSE i \in Adds : Trace[i].d = d]]
      K == DOMAIN e0.kinds
      M == [d \in D |-> {k \in K : Matches(add[d].desc, e0.kinds[k])}]
      used == {Trace[i].k : i \in Ends}
      F == [d \in D |-> {i \in Ends : Trace[i].out = d}]
  IN [r |-> r, tr |-> e0.tr, kinds |-> e0.kinds, D |-> D, add |-> add, M |-> M, F |-> F,
      n |-> [d \in D |-> add[d].desc.n],
      fired |-> [d \in D |-> Cardinality(F[d])],
      maxS |-> [d \in D |-> MaxOf({Trace[i].s : i \in F[d]})],
      matchAll |-> [d \in D |-> Cardinality({i \in Ends : Trace[i].k \in M[d]})],
      matchAfter |-> [d \in D |-> Cardinality({i \in Ends : Trace[i].k \in M[d] /\ Trace[i].s > add[d].t1})],
      isolated |-> [d \in D |-> \A k \in M[d] \cap used : \A d2 \in D \ {d} : k \notin M[d2]]]

Tag(a, d) == a.add[d].desc.tag

\* violations of a whole trace (evaluated at its Reset line)
VTrace(a) ==
  {<<"C18.at-most-count", [d |-> Tag(a, d)]>> : d \in {x \in a.D : a.fired[x] > a.n[x]}}
  \cup
  {<<"C18.single-exact", [d |-> Tag(a, d)]>> :
      d \in {x \in a.D : a.isolated[x] /\ a.fired[x] <= a.n[x] /\ a.fired[x] < Min(a.n[x], a.matchAfter[x])}}

VEnd(a, e) ==
  IF e.out = 0
  THEN {<<"C18.exactly-count", [d |-> Tag(a, d)]>> :
          d \in {x \in a.D : /\ e.k \in a.M[x]
                             /\ a.add[x].t1 < e.s
                             /\ ~(a.fired[x] >= a.n[x] /\ (a.n[x] = 0 \/ a.maxS[x] < e.t))}}
  ELSE IF e.out \notin a.D THEN {<<"C18.only-matching", [d |-> "unknown"]>>}
  ELSE IF e.k \notin a.M[e.out]
       THEN IF \A d \in a.D : e.k \notin a.M[d]
            THEN {<<"C18.non-matching-failed", [d |-> Tag(a, e.out)]>>}
            ELSE {<<"C18.only-matching", [d |-> Tag(a, e.out)]>>}
  ELSE IF a.add[e.out].t0 > e.t THEN {<<"C18.only-matching", [d |-> Tag(a, e.out), why |-> "before-add"]>>}
  ELSE {}

VCurrent(a, e) ==
  LET cur == e.cur
      listed(d) == \E j \in DOMAIN cur : cur[j].d = d
      k(d) == IF listed(d) THEN cur[CHOOSE j \in DOMAIN cur : cur[j].d = d].k ELSE 0
      ended(d) == Cardinality({i \in a.F[d] : Trace[i].t < e.t0})
      started(d) == Cardinality({i \in a.F[d] : Trace[i].s < e.t1})
  IN {<<"C18.listing", [why |-> "nonpositive-count-listed"]>> : j \in {x \in DOMAIN cur : cur[x].k <= 0}}
     \cup {<<"C18.listing", [why |-> "listed-twice"]>> : j \in {x \in DOMAIN cur : \E y \in DOMAIN cur : y # x /\ cur[y].d = cur[x].d}}
     \cup {<<"C18.listing", [why |-> "unknown-description"]>> :
              j \in {x \in DOMAIN cur : cur[x].d \notin {d \in a.D : a.add[d].t0 < e.t1}}}
     \cup {<<"C18.listing", [why |-> "exhausted-still-listed", d |-> Tag(a, d)]>> :
              d \in {x \in a.D : a.add[x].t1 < e.t0 /\ k(x) > a.n[x] - ended(x) /\ k(x) > 0}}
     \cup {<<"C18.listing", [why |-> "live-missing-or-low", d |-> Tag(a, d)]>> :
              d \in {x \in a.D : a.add[x].t1 < e.t0 /\ k(x) < a.n[x] - started(x)}}

NoAgg == [r |-> 0, tr |-> "", D |-> {}]

AggInit == l = 1 /\ A = NoAgg /\ bad = {}

Report(tr, i, op, vs) ==
  \A v \in vs : PrintT(ToJson(<<"VIOL", tr, i, op, v[1], {}, v[2]>>))

AggNext ==
  /\ l <= Len(Trace)
  /\ l' = l + 1
  /\ LET e == Trace[l] IN
     IF e.op = "Reset"
     THEN LET a == Agg(l) IN
          /\ A' = a /\ bad' = {}
          /\ PrintT(ToJson(<<"TRACE", e.tr>>))
          /\ Report(e.tr, 0, "Reset", VTrace(a))
     ELSE LET vs == CASE e.op = "End" -> VEnd(A, e)
                      [] e.op = "Current" -> VCurrent(A, e)
                      [] OTHER -> {}
              new == vs \ bad
          IN /\ A' = A /\ bad' = bad \cup vs
             /\ Report(A.tr, l - A.r, e.op, new)

AggSpec == AggInit /\ [][AggNext]_avars

Consumed == (l = Len(Trace) + 1) => PrintT(ToJson(<<"CONSUMED", Len(Trace)>>))
=============================================================================
