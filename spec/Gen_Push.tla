------------------------------ MODULE Gen_Push ------------------------------
(* Scenario generation for C19: for each of N messages a response script    *)
(* (the endpoint's answer classes to attempt 1, 2, ...; after the script    *)
(* the endpoint answers a fast success).  One random choice per step.       *)
EXTENDS Integers, Sequences, TLC, Json
CONSTANT N
Scripts == {<<>>, <<>>, <<"fail4">>, <<"fail5">>, <<"fail3">>, <<"fail2">>, <<"fail1">>, <<"reset">>, <<"timeout">>,
            <<"okslow">>, <<"failslow">>, <<"failtrunc">>, <<"failtrunc", "fail5">>, <<"failslow", "fail4">>, <<"fail5", "fail4">>, <<"reset", "fail2">>, <<"fail4", "okslow">>,
            <<"fail5", "fail5", "fail3">>}
VARIABLE sc
Init == sc = <<>>
Next == IF Len(sc) < N THEN \E s \in Scripts : sc' = Append(sc, s)
        ELSE /\ Len(sc) = N /\ PrintT(<<"SCENARIO", ToJson(sc)>>) /\ sc' = Append(sc, <<"end">>)
Spec == Init /\ [][Next]_sc
=============================================================================
