SPECIFICATION Spec
CONSTANTS
  TU = 1
  Jit = 0
  NeMissing = FALSE
  PrefixPairs = {}
  ImplSubs <- mcSubs
  ImplTopics <- mcTopics
  MsgKinds <- mcMsgKinds
  BatchMax = 2
  MaxMsgs = 3
  MaxTime = 0
  TickDs = {2, 5}
  PullMaxes = {3}
  Ops <- mcOps
  AttBound = 1
  ChainAnyKey = FALSE
ACTION_CONSTRAINT ReportCex
CONSTRAINT Bounded
VIEW View
CHECK_DEADLOCK FALSE
