SPECIFICATION GenSpec
CONSTANTS
  Callers <- x3Callers
  CallChoices <- x3CallChoices
  InitChoices <- x3InitChoices
  LatePool <- mcLatePool
  FirstMatch = TRUE
  RT = FALSE
  Reduce = TRUE
CHECK_DEADLOCK FALSE
