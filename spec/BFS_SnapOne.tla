----------------------------- MODULE BFS_SnapOne -----------------------------
(* Bounded exhaustive histories on ONE subscription holding two messages:     *)
(* every sequence of pulls, single-id acks (in and out of order), snapshots   *)
(* and seeks to the snapshot of the given length.  Small enough to put every  *)
(* step under fault injection at every database interaction (C09): a seek to  *)
(* a snapshot with a non-empty acknowledged list is the operation with the    *)
(* most statements.                                                           *)
EXTENDS BusModel
Cfg0 == [ttl |-> 600, mttl |-> 400, ord |-> FALSE, filt |-> NoFilter, minB |-> 20, maxB |-> 30,
         dlt |-> "", maxAtt |-> 0, push |-> "", labels |-> <<>>]
C1 == [name |-> "s1", topic |-> "t1", cfg |-> Cfg0]
mcSubCfgs == {C1}
mcSetup == << [op |-> "CreateTopic", name |-> "t1"], [op |-> "CreateSub", c |-> C1],
              [op |-> "Publish", topic |-> "t1", msgs |-> << [key |-> "", attrs |-> <<>>], [key |-> "", attrs |-> <<>>] >>] >>
mcMsgKinds == { [key |-> "", attrs |-> <<>>] }
mcProjOfName == <<>>
mcWeights == <<>>
mcOps == {"Pull", "Ack", "CreateSnap", "SeekSnap"}
Shape == ev'.op = "Ack" => \A i \in DOMAIN ev'.ids : ev'.ids[i][2] \in SubsNamed(S, ev'.sub)
=============================================================================
