------------------------------ MODULE RpcCheck ------------------------------
(***************************************************************************)
(* C16: the contract of Rpc.tla evaluated by TLC on every observation that *)
(* harness/cmd/rpcfuzz recorded from the real server process.  One JSON    *)
(* line per request: [i, rpc, f, outcome, code, changed].  A false         *)
(* contract is reported (VIOL line) and evaluation carries on.             *)
(***************************************************************************)
EXTENDS Rpc

Obs == ndJsonDeserialize("results.ndjson")

Verdict(o) ==
  IF ~InSpace([rpc |-> o.rpc, f |-> o.f]) THEN "C00:not-in-space"
  ELSE IF Contract(o) THEN "ok" ELSE Clause(o)

ASSUME \A i \in DOMAIN Obs :
         LET c == Verdict(Obs[i]) IN
         c = "ok" \/ PrintT(<<"VIOL", ToJson([i |-> Obs[i].i, clause |-> c])>>)
ASSUME PrintT(<<"CONSUMED", Len(Obs)>>)
ASSUME PrintT(<<"NONTRIVIAL",
         Cardinality({i \in DOMAIN Obs : Deviations([rpc |-> Obs[i].rpc, f |-> Obs[i].f]) # {}})>>)

CheckSpec == v = 0 /\ [][UNCHANGED v]_v
=============================================================================
