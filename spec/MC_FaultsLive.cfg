SPECIFICATION FairSpec
CONSTANTS
  Callers <- mcCallers
  CallChoices <- lvCallChoices
  InitChoices <- lvInitChoices
  LatePool <- lvLatePool
  FirstMatch = TRUE
  RT = FALSE
INVARIANTS
  TypeOK
PROPERTY Termination
CHECK_DEADLOCK FALSE
