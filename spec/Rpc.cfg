\* enumeration of the table, of every single-field deviation and of the
\* QuickCore products (quick tier;
\* the pairwise rows are computed from the printed table by checks/rpc.py)
SPECIFICATION Spec
CONSTANTS
  Mode = "quick"
INVARIANT TypeOK
CHECK_DEADLOCK FALSE
