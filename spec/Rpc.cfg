\* enumeration of the table and of every single-field deviation (quick tier;
\* the pairwise rows are computed from the printed table by checks/rpc.py)
SPECIFICATION Spec
CONSTANTS
  Mode = "oneoff"
INVARIANT TypeOK
CHECK_DEADLOCK FALSE
