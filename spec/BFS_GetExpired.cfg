SPECIFICATION Spec
CONSTANTS
  TU = 1
  Jit = 0
  NeMissing = FALSE
  PrefixPairs = {}
  TopicNames = {"t1"}
  SubNames = {"s1"}
  SnapNames = {}
  SubCfgs <- mcSubCfgs
  MsgKinds <- mcMsgKinds
  BatchMax = 1
  MaxMsgs = 1
  MaxTopics = 2
  MaxSubs = 2
  MaxDels = 4
  MaxTime = 200
  TickDs = {3}
  PullMaxes = {10}
  AckMax = 1
  ModSecs = {0}
  JobAges = {0}
  JobMaxes = {100}
  Ops <- mcOps
  Setup <- mcSetup
  ProjOfName <- mcProjOfName
  Depth = 6
  AttBound = 100
  ViewKeep = {}
  RealBackoff = FALSE
  GenBFS = TRUE
  AckAll = FALSE
  Weights <- mcWeights
ACTION_CONSTRAINT Shape
CHECK_DEADLOCK FALSE
