------------------------------ MODULE BusTrace ------------------------------
(***************************************************************************)
(* Trace validation: every step recorded from the REAL code (one JSON line *)
(* per operation: arguments, reply, virtual time interval, and the         *)
(* projection of the five tables after the step) is checked against every  *)
(* clause of the contract Bus!V and every invariant Bus!Inv.               *)
(*                                                                         *)
(* The specification does not block on a false clause: it reports it       *)
(* (PrintT of a VIOL record), adopts the observed post-state and carries   *)
(* on, so the rest of the trace is still examined.  `bad` remembers which  *)
(* properties were already violated in the current trace (taint).          *)
(* Many traces are concatenated; a "Reset" event starts the next one.      *)
(***************************************************************************)
EXTENDS Bus, Json

CONSTANT TraceFile
Trace == ndJsonDeserialize(TraceFile)

VARIABLES l, S, bad
tvars == <<l, S, bad>>

Idx(seq, key(_), k) == CHOOSE i \in DOMAIN seq : key(seq[i]) = k

TopicsOf(ts) ==
  LET id(r) == r.id IN
  [k \in {ts[i].id : i \in DOMAIN ts} |->
     LET r == ts[Idx(ts, id, k)] IN
     [name |-> r.name, live |-> r.live, delAt |-> r.delAt, labels |-> r.labels, proj |-> r.proj]]
SubsOf(ss) ==
  LET id(r) == r.id IN
  [k \in {ss[i].id : i \in DOMAIN ss} |->
     LET r == ss[Idx(ss, id, k)] IN
     [name |-> r.name, topic |-> r.topic, live |-> r.live, delAt |-> r.delAt, exp |-> r.exp,
      ttl |-> r.ttl, mttl |-> r.mttl, ord |-> r.ord, filt |-> r.filt, minB |-> r.minB,
      maxB |-> r.maxB, dlt |-> r.dlt, maxAtt |-> r.maxAtt, delay |-> r.delay, push |-> r.push,
      labels |-> r.labels, proj |-> r.proj]]
MsgsOf(ms) ==
  LET id(r) == r.id IN
  [k \in {ms[i].id : i \in DOMAIN ms} |->
     LET r == ms[Idx(ms, id, k)] IN
     [topic |-> r.topic, pub |-> r.pub, key |-> r.key, attrs |-> r.attrs]]
DelOf(ds) ==
  LET id(r) == r.d IN
  [k \in {ds[i].d : i \in DOMAIN ds} |->
     LET r == ds[Idx(ds, id, k)] IN
     [n |-> r.n, done |-> r.done, att |-> r.att, at |-> r.at, exp |-> r.exp, pub |-> r.pub]]
SnapsOf(ns) ==
  LET id(r) == r.name IN
  [k \in {ns[i].name : i \in DOMAIN ns} |->
     LET r == ns[Idx(ns, id, k)] IN [topic |-> r.topic, proj |-> r.proj]]

Empty == [now |-> 0, topics |-> <<>>, subs |-> <<>>, msgs |-> <<>>, del |-> <<>>,
          snaps |-> <<>>, acked |-> {}, gsnap |-> <<>>, gord |-> <<>>]

Adopt(pre, e) ==
  LET p == e.post
      C2 == [topics |-> TopicsOf(p.topics), subs |-> SubsOf(p.subs), msgs |-> MsgsOf(p.msgs),
             del |-> DelOf(p.del), snaps |-> SnapsOf(p.snaps)]
  IN [now |-> e.t1, topics |-> C2.topics, subs |-> C2.subs, msgs |-> C2.msgs, del |-> C2.del,
      snaps |-> C2.snaps, acked |-> GhostAcked(pre, e, C2), gsnap |-> GhostSnap(pre, e, C2),
      gord |-> GhostOrd(pre, e, C2)]

Prop(c) == SubSeq(c, 1, 3)

\* a short structural classification of a violation, used in finding signatures
ProjOfListed(pre, kind, nm) ==
  CASE kind = "topic" -> {pre.topics[t].proj : t \in {x \in DOMAIN pre.topics : pre.topics[x].name = nm}}
    [] kind = "sub" -> {pre.subs[t].proj : t \in {x \in DOMAIN pre.subs : pre.subs[x].name = nm}}
    [] kind = "snap" -> IF nm \in DOMAIN pre.snaps THEN {pre.snaps[nm].proj} ELSE {}
Detail(pre, e, c) ==
  CASE e.op = "List" /\ c = "C12:list-extra" ->
         ToJson(<<e.kind, e.proj, UNION {ProjOfListed(pre, e.kind, e.names[i]) : i \in DOMAIN e.names} \ {e.proj}>>)
    [] c = "C05:pull-overtakes-same-key" ->
         \* structural class: is the IMMEDIATE same-key predecessor of every overtaking delivery already
         \* completed / expired (the chain was cut behind an earlier outstanding one), or still outstanding?
         LET O == {e.got[i].d : i \in {j \in DOMAIN e.got : e.got[j].d \in Dels(pre) /\ Blocked(pre, e.got[j].d, e.t1)}}
             SK(d) == {x \in Preds(pre, d) : KeyOf(pre, x) = KeyOf(pre, d)}
             Imm(d) == CHOOSE x \in SK(d) : \A y \in SK(d) : pre.del[y].n <= pre.del[x].n
         IN IF \A d \in O : ~OutDef(pre, Imm(d), e.t1) THEN "immediate-predecessor-completed"
            ELSE "immediate-predecessor-outstanding"
    [] e.op = "Converged" -> ToJson(<<e.left.topics > 0, e.left.subs > 0, e.left.msgs > 0, e.left.del > 0, e.left.snaps > 0>>)
    [] e.op \in {"List", "Get"} -> e.kind
    [] e.op = "Failed" -> ToJson(<<e.of, e.kind, e.mode>>)
    [] OTHER -> ""

TraceInit == l = 1 /\ S = Empty /\ bad = {}

TraceNext ==
  /\ l <= Len(Trace)
  /\ l' = l + 1
  /\ LET e == Trace[l] IN
     IF e.op = "Reset"
     THEN /\ S' = [Empty EXCEPT !.now = e.t1] /\ bad' = {}
          /\ PrintT(ToJson(<<"TRACE", e.tr>>))
     ELSE LET S2 == Adopt(S, e)
              vs0 == V(S, e, S2) \cup VGeneric(S, e, S2) \cup Inv(S2)
              \* a request that was cancelled mid-way and still answered OK must be the complete,
              \* correct effect: whatever clause it breaks is (also) a breach of all-or-nothing
              vs == IF "afterCancel" \in DOMAIN e /\ vs0 # {}
                    THEN vs0 \cup {"C09:answered-ok-after-cancel-but-inconsistent"} ELSE vs0
          IN /\ S' = S2
             /\ bad' = bad \cup {Prop(c) : c \in vs}
             /\ \A c \in vs : PrintT(ToJson(<<"VIOL", e.tr, e.i, e.op, c, bad, Detail(S, e, c)>>))

TraceSpec == TraceInit /\ [][TraceNext]_tvars

\* acceptance: every line was consumed (deterministic successor per line)
Consumed == (l = Len(Trace) + 1) => PrintT(ToJson(<<"CONSUMED", Len(Trace)>>))
=============================================================================
