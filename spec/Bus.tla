-------------------------------- MODULE Bus --------------------------------
(***************************************************************************)
(* Contract specification of mmmbbb (a SQL-backed re-implementation of the *)
(* Google Pub/Sub gRPC API).                                               *)
(*                                                                         *)
(* The module has two layers.                                              *)
(*                                                                         *)
(*  1. PURE OPERATORS over explicit state records.  A state S is a record  *)
(*     [now, topics, subs, msgs, del, snaps, acked, gsnap, nt, ns, nm, nd] *)
(*     and an event e is a record describing ONE API operation / one       *)
(*     background-job run / one clock advance, with its arguments, its     *)
(*     reply and the virtual time interval [t0, t1] during which it ran.   *)
(*                                                                         *)
(*       V(S, e, S2)  is the set of violated contract clauses when the     *)
(*                    system moves from S to S2 by event e.  Clause names  *)
(*                    are "Cxx:what" where Cxx is the property.            *)
(*       Ghost(S, e, S2) computes the history (ghost) part of the next     *)
(*                    state: which deliveries were finally acknowledged,   *)
(*                    what each snapshot denotes.                          *)
(*       Inv(S)       state invariants.                                    *)
(*                                                                         *)
(*     These operators are what the IMPLEMENTATION is held to: BusTrace    *)
(*     evaluates V on every step recorded from the real code.              *)
(*                                                                         *)
(*  2. A REFERENCE MODEL  (Init, Next) that produces, constructively, the  *)
(*     transitions the contract intends (one action per SQL transaction of *)
(*     the code).  TLC checks exhaustively, for small constants, that      *)
(*     every transition of the model satisfies V = {} and Inv, and checks  *)
(*     the history-level properties (acknowledged messages never come      *)
(*     back, at most N deliveries, ordered keys never overtaken, ...) as   *)
(*     invariants over the ghost variables.  The same model, run with      *)
(*     -simulate, generates the scenarios that are replayed on the code.   *)
(*                                                                         *)
(* Time: integers, TU units per second.  Model checking uses TU = 1 and    *)
(* operations that take no time (t0 = t1 = now).  Traces use TU = 10       *)
(* (deciseconds, floor of the virtual clock) and real [t0, t1].  All       *)
(* comparisons below are written so that they are sound under flooring:    *)
(* "must" clauses use strict, "may" clauses non-strict comparisons.        *)
(***************************************************************************)
EXTENDS Integers, Sequences, FiniteSets, TLC, Filter

CONSTANTS
  TU,           \* time units per second
  Jit,          \* largest jitter (in TU) that a backoff deadline may carry
  PrefixPairs,  \* {<<v, p>> : p is a prefix of v} over the value vocabulary
  NeMissing     \* semantics of != on a missing attribute (see Filter)

IsPre(v, p) == <<v, p>> \in PrefixPairs
Match(f, attrs) == EvalG(f, attrs, IsPre, NeMissing)

Max2(a, b) == IF a > b THEN a ELSE b
Min2(a, b) == IF a < b THEN a ELSE b
RangeOf(f) == {f[x] : x \in DOMAIN f}
In(x, lo, hi) == x >= lo /\ x <= hi
SetMax(S) == CHOOSE x \in S : \A y \in S : y <= x
Chk(id, p) == IF p THEN {} ELSE {id}

(***************************************************************************)
(* State access                                                            *)
(***************************************************************************)
Core(S) == [topics |-> S.topics, subs |-> S.subs, msgs |-> S.msgs,
            del |-> S.del, snaps |-> S.snaps]

Dels(S) == DOMAIN S.del
TopicLive(S, t) == t \in DOMAIN S.topics /\ S.topics[t].live
SubLive(S, s) == s \in DOMAIN S.subs /\ S.subs[s].live
TopicsNamed(S, nm) == {t \in DOMAIN S.topics : S.topics[t].live /\ S.topics[t].name = nm}
SubsNamed(S, nm) == {s \in DOMAIN S.subs : S.subs[s].live /\ S.subs[s].name = nm}
LiveSubsOn(S, t) == {s \in DOMAIN S.subs : S.subs[s].live /\ S.subs[s].topic = t}
DelsOf(S, s) == {d \in Dels(S) : d[2] = s}

IsDone(S, d) == S.del[d].done # -1
KeyOf(S, d) == S.msgs[d[1]].key
HasDL(S, s) == S.subs[s].maxAtt > 0 /\ S.subs[s].dlt # 0
DLable(S, d) == HasDL(S, d[2]) /\ S.del[d].att >= S.subs[d[2]].maxAtt

\* outstanding for certain during the whole interval ending at t
OutDef(S, d, t) == ~IsDone(S, d) /\ S.del[d].exp > t /\ SubLive(S, d[2])
\* possibly outstanding at some instant at or after t
OutMay(S, d, t) == ~IsDone(S, d) /\ S.del[d].exp >= t /\ SubLive(S, d[2])

(* C05.  d is blocked by the contract if an earlier-created delivery of the *)
(* same subscription with the same non-empty ordering key is certainly     *)
(* still outstanding.                                                      *)
Preds(S, d) == {x \in DelsOf(S, d[2]) : x # d /\ S.del[x].n < S.del[d].n}
\* Ordering switched on by UpdateSubscription ("Google does not support changing this on the
\* fly, even though we (sort of) do"): the guarantee is only claimed between deliveries created
\* while ordering was enabled; ghost gord[s] is the delivery number watermark at the switch.
OrdSince(S, s) == IF "gord" \in DOMAIN S /\ s \in DOMAIN S.gord THEN S.gord[s] ELSE 0
\* X: predecessors that the step under judgement itself retires (a pull dead-letters a
\* predecessor that is over its attempt budget and hands out the successor in the same step)
BlockedX(S, d, t, X) ==
  /\ S.subs[d[2]].ord /\ KeyOf(S, d) # ""
  /\ \E x \in Preds(S, d) \ X : KeyOf(S, x) = KeyOf(S, d) /\ OutDef(S, x, t) /\ S.del[x].n > OrdSince(S, d[2])
Blocked(S, d, t) == BlockedX(S, d, t, {})
(* The implementation serialises a keyed message of an ordered             *)
(* subscription behind EVERY earlier message of the subscription (named    *)
(* deviation, stricter than the contract).  The progress clauses therefore *)
(* only demand delivery when no earlier delivery can still be outstanding. *)
MechBlocked(S, d, t) ==
  /\ S.subs[d[2]].ord /\ KeyOf(S, d) # ""
  /\ \E x \in Preds(S, d) : OutMay(S, x, t)

MayElig(S, d, t0, t1) ==
  /\ ~IsDone(S, d) /\ S.del[d].at <= t1 /\ S.del[d].exp >= t0
  /\ SubLive(S, d[2]) /\ ~Blocked(S, d, t1)
MustElig(S, d, t0, t1) ==
  /\ ~IsDone(S, d) /\ S.del[d].at < t0 /\ S.del[d].exp > t1
  /\ SubLive(S, d[2]) /\ ~MechBlocked(S, d, t0)

FwdSubs(S, d) ==
  LET dlt == S.subs[d[2]].dlt IN
  IF TopicLive(S, dlt)
  THEN {x \in LiveSubsOn(S, dlt) : Match(S.subs[x].filt, S.msgs[d[1]].attrs)}
  ELSE {}

NewDels(S, S2) == Dels(S2) \ Dels(S)
GoneDels(S, S2) == Dels(S) \ Dels(S2)
SameDel(S, S2, d) == d \in Dels(S2) /\ S2.del[d] = S.del[d]
\* d is present in both states and differs at most in the listed fields
OnlyAt(S, S2, d) == d \in Dels(S2) /\ S2.del[d] = [S.del[d] EXCEPT !.at = S2.del[d].at]
OnlyDone(S, S2, d) == d \in Dels(S2) /\ S2.del[d] = [S.del[d] EXCEPT !.done = S2.del[d].done]

FreshDel(S, S2, nd, t0, t1) ==
  LET x == nd[2] r == S2.del[nd] IN
  /\ x \in DOMAIN S.subs
  /\ r.done = -1 /\ r.att = 0
  /\ In(r.at, t0 + S.subs[x].delay, t1 + S.subs[x].delay)
  /\ In(r.exp, t0 + S.subs[x].mttl, t1 + S.subs[x].mttl)
  /\ In(r.pub, t0, t1)

(* Dead-letter forwarding of the set D of source deliveries happened       *)
(* exactly once per (message, dead-letter subscription), nothing else was  *)
(* created, and every forwarded copy starts a fresh delivery.              *)
FwdExact(S, S2, D) ==
  LET ND == NewDels(S, S2) IN
  /\ \A nd \in ND : \E d \in D : nd[1] = d[1] /\ nd[2] \in FwdSubs(S, d)
  /\ \A d \in D : \A x \in FwdSubs(S, d) :
       Cardinality({nd \in ND : nd[1] = d[1] /\ nd[2] = x})
         = Cardinality({d2 \in D : d2[1] = d[1] /\ x \in FwdSubs(S, d2)})
FwdFresh(S, S2, t0, t1) == \A nd \in NewDels(S, S2) : FreshDel(S, S2, nd, t0, t1)
\* C14: the forwarded copy is retained for the DEAD-LETTER subscription's retention counted from
\* the forwarding, and honours that subscription's delivery delay
FwdRetention(S, S2, t0, t1) ==
  Chk("C14:forward-retention",
      \A nd \in NewDels(S, S2) : nd[2] \in DOMAIN S.subs =>
         In(S2.del[nd].exp, t0 + S.subs[nd[2]].mttl, t1 + S.subs[nd[2]].mttl))
  \* C02: a dead-letter subscription only gets forwarded messages that satisfy ITS filter
  \cup Chk("C02:forward-ignores-filter",
      \A nd \in NewDels(S, S2) : (nd[2] \in DOMAIN S.subs /\ nd[1] \in DOMAIN S.msgs) =>
         Match(S.subs[nd[2]].filt, S.msgs[nd[1]].attrs))
  \cup Chk("C14:forward-delay",
      \A nd \in NewDels(S, S2) : nd[2] \in DOMAIN S.subs =>
         In(S2.del[nd].at, t0 + S.subs[nd[2]].delay, t1 + S.subs[nd[2]].delay))
  \* C01: a forwarded copy that is born (nearly) expired is a lost message - the source delivery
  \* has been retired and nothing will ever offer the copy
  \cup Chk("C01:forwarded-copy-not-retained",
      \A nd \in NewDels(S, S2) : nd[2] \in DOMAIN S.subs =>
         S2.del[nd].exp >= t0 + S.subs[nd[2]].mttl)

RestSame(S, S2, fields) == \A f \in fields : S2[f] = S[f]
AllFields == {"topics", "subs", "msgs", "del", "snaps"}
SubsSameExcept(S, S2, X) ==
  /\ DOMAIN S2.subs = DOMAIN S.subs
  /\ \A s \in DOMAIN S.subs \ X : S2.subs[s] = S.subs[s]

(***************************************************************************)
(* Contract clauses, one operator per operation.  Each returns the set of  *)
(* violated clause names.                                                  *)
(***************************************************************************)

\* an operation that answered with an error changed nothing (C16, C09)
VErr(S, e, S2) == Chk("C16:error-changed-state", Core(S2) = Core(S))

VTick(S, e, S2) == Chk("C00:clock-changed-state", Core(S2) = Core(S))

VCreateTopic(S, e, S2) ==
  LET ex == TopicsNamed(S, e.name) # {} IN
  IF e.code # "OK"
  THEN VErr(S, e, S2) \cup Chk("C12:create-topic-code", ex /\ e.code = "AlreadyExists")
  ELSE LET new == DOMAIN S2.topics \ DOMAIN S.topics IN
    Chk("C12:create-existing-topic-ok", ~ex)
    \cup Chk("C12:create-topic-post",
         /\ Cardinality(new) = 1
         /\ \A t \in new : S2.topics[t].name = e.name /\ S2.topics[t].live
         /\ \A t \in DOMAIN S.topics : t \in DOMAIN S2.topics /\ S2.topics[t] = S.topics[t])
    \cup Chk("C17:create-topic-labels", \A t \in new : S2.topics[t].labels = e.labels)
    \cup Chk("C12:create-topic-frame", RestSame(S, S2, {"subs", "msgs", "del", "snaps"}))

VDeleteTopic(S, e, S2) ==
  LET T == TopicsNamed(S, e.name) IN
  IF e.code # "OK"
  THEN VErr(S, e, S2) \cup Chk("C12:delete-topic-code", T = {} /\ e.code = "NotFound")
  ELSE
    Chk("C12:delete-dead-topic-ok", T # {})
    \cup Chk("C12:delete-topic-post",
         /\ DOMAIN S2.topics = DOMAIN S.topics
         /\ \A t \in DOMAIN S.topics :
              IF t \in T
              THEN /\ ~S2.topics[t].live /\ In(S2.topics[t].delAt, e.t0, e.t1)
                   /\ S2.topics[t].name = S.topics[t].name
              ELSE S2.topics[t] = S.topics[t])
    \* deleting a topic drops that topic's snapshots, nothing else
    \cup Chk("C12:delete-topic-frame",
         /\ RestSame(S, S2, {"subs", "msgs", "del"})
         /\ DOMAIN S2.snaps \subseteq DOMAIN S.snaps
         /\ \A n \in DOMAIN S.snaps :
              IF n \in DOMAIN S2.snaps THEN S2.snaps[n] = S.snaps[n]
              ELSE S.snaps[n].topic \in T)
    \* a snapshot belongs to its topic (actions/delete-topic.go, the reference model's DeleteTopic):
    \* it is not a live resource once the topic is deleted - Get / List must not show it and its
    \* name is reusable
    \cup Chk("C12:delete-topic-keeps-snapshot",
         \A n \in DOMAIN S.snaps : S.snaps[n].topic \in T => n \notin DOMAIN S2.snaps)

CfgFields == {"ttl", "mttl", "ord", "filt", "minB", "maxB", "maxAtt", "push", "labels"}

(* Documented defaults (C17): expiration TTL 30 days, retention 7 days, 5  *)
(* delivery attempts when a dead-letter topic is given without a count.    *)
DefaultTTL == 30 * 24 * 3600 * TU
DefaultMsgTTL == 7 * 24 * 3600 * TU
DefaultMaxAtt == 5
Dflt(c) == [c EXCEPT !.ttl = IF @ = 0 THEN DefaultTTL ELSE @,
                     !.mttl = IF @ = 0 THEN DefaultMsgTTL ELSE @,
                     !.maxAtt = IF c.dlt # "" /\ @ = 0 THEN DefaultMaxAtt ELSE @]
DeletedTopicName == "_deleted-topic_"
\* the name under which Get/List present topic id t
ShownTopic(S, t) == IF t = 0 THEN ""
                    ELSE IF TopicLive(S, t) THEN S.topics[t].name ELSE DeletedTopicName

VCreateSub(S, e, S2) ==
  LET ex == SubsNamed(S, e.name) # {}
      T == TopicsNamed(S, e.topic)
      DT == IF e.cfg.dlt = "" THEN {0} ELSE TopicsNamed(S, e.cfg.dlt) IN
  IF e.code # "OK"
  THEN VErr(S, e, S2)
       \cup Chk("C12:create-sub-code",
              \/ ex /\ e.code = "AlreadyExists"
              \/ ~ex /\ (T = {} \/ DT = {}) /\ e.code = "NotFound")
  ELSE LET new == DOMAIN S2.subs \ DOMAIN S.subs IN
    Chk("C12:create-existing-sub-ok", ~ex)
    \cup Chk("C12:create-sub-dead-topic-ok", T # {} /\ DT # {})
    \cup Chk("C12:create-sub-post",
         /\ Cardinality(new) = 1
         /\ \A s \in new : /\ S2.subs[s].name = e.name /\ S2.subs[s].live
                           /\ S2.subs[s].topic \in T /\ S2.subs[s].dlt \in DT
         /\ \A s \in DOMAIN S.subs : s \in DOMAIN S2.subs /\ S2.subs[s] = S.subs[s])
    \cup Chk("C12:recreated-sub-inherits-backlog",
         \A s \in new : \A d \in Dels(S2) : d[2] # s)
    \cup Chk("C17:create-sub-config",
         \A s \in new : /\ \A f \in CfgFields : S2.subs[s][f] = Dflt(e.cfg)[f]
                        /\ S2.subs[s].delay = 0)
    \cup Chk("C14:create-sub-expiry",
         \A s \in new : In(S2.subs[s].exp, e.t0 + Dflt(e.cfg).ttl, e.t1 + Dflt(e.cfg).ttl))
    \cup Chk("C12:create-sub-frame", RestSame(S, S2, {"topics", "msgs", "del", "snaps"}))

VDeleteSub(S, e, S2) ==
  LET X == SubsNamed(S, e.name) IN
  IF e.code # "OK"
  THEN VErr(S, e, S2) \cup Chk("C12:delete-sub-code", X = {} /\ e.code = "NotFound")
  ELSE
    Chk("C12:delete-dead-sub-ok", X # {})
    \cup Chk("C12:delete-sub-post",
         /\ SubsSameExcept(S, S2, X)
         /\ \A s \in X : /\ ~S2.subs[s].live /\ In(S2.subs[s].delAt, e.t0, e.t1)
                         /\ S2.subs[s] = [S.subs[s] EXCEPT !.live = FALSE, !.delAt = S2.subs[s].delAt])
    \cup Chk("C02:delete-sub-frame", RestSame(S, S2, {"topics", "msgs", "del", "snaps"}))

(* UpdateSubscription: exactly the masked fields change (C17).  Mask paths *)
(* are the model's field names; "dl" covers the dead-letter policy (dlt +  *)
(* maxAtt), "retry" covers minB + maxB, "ttl" also restarts the expiry.    *)
MaskFields(mask) ==   \* mask : sequence of paths
  UNION {CASE p = "retry" -> {"minB", "maxB"}
           [] p = "dl" -> {"dlt", "maxAtt"}
           [] OTHER -> {p} : p \in RangeOf(mask)}

VUpdateSub(S, e, S2) ==
  LET X == SubsNamed(S, e.name)
      DT == IF e.cfg.dlt = "" THEN {0} ELSE TopicsNamed(S, e.cfg.dlt)
      MF == MaskFields(e.mask) IN
  IF e.code # "OK"
  THEN VErr(S, e, S2)
       \cup Chk("C12:update-sub-code",
              \/ X = {} /\ e.code = "NotFound"
              \/ X # {} /\ "dl" \in RangeOf(e.mask) /\ DT = {} /\ e.code = "NotFound")
  ELSE
    Chk("C12:update-dead-sub-ok", X # {})
    \cup Chk("C17:update-mask-locality",
         /\ SubsSameExcept(S, S2, X)
         /\ \A s \in X : \A f \in DOMAIN S.subs[s] :
              \/ f \in MF \/ (f = "exp" /\ "ttl" \in MF)
              \/ S2.subs[s][f] = S.subs[s][f])
    \cup Chk("C17:update-applies-mask",
         \A s \in X : \A f \in MF :
            IF f = "dlt" THEN S2.subs[s].dlt \in DT
            ELSE S2.subs[s][f] = Dflt(e.cfg)[f])
    \cup Chk("C14:update-ttl-restarts-expiry",
         \A s \in X : "ttl" \in MF =>
            In(S2.subs[s].exp, e.t0 + Dflt(e.cfg).ttl, e.t1 + Dflt(e.cfg).ttl))
    \cup Chk("C17:update-sub-frame", RestSame(S, S2, {"topics", "msgs", "del", "snaps"}))

VSetDelay(S, e, S2) ==
  LET X == SubsNamed(S, e.name) IN
  IF e.code # "OK" THEN VErr(S, e, S2)
  ELSE Chk("C14:set-delay",
         /\ SubsSameExcept(S, S2, X)
         /\ \A s \in X : S2.subs[s] = [S.subs[s] EXCEPT !.delay = e.delay]
         /\ RestSame(S, S2, {"topics", "msgs", "del", "snaps"}))

VPublish(S, e, S2) ==
  LET T == TopicsNamed(S, e.topic) IN
  IF e.code # "OK"
  THEN VErr(S, e, S2) \cup Chk("C12:publish-code", T = {} /\ e.code = "NotFound")
  ELSE IF T = {} THEN {"C12:publish-to-dead-topic-ok"}
  ELSE
    LET t == CHOOSE x \in T : TRUE
        ids == e.ids
        N == Len(e.msgs)
        owed == {<<ids[i], s>> : i \in 1..N, s \in LiveSubsOn(S, t)}
        owedM == {p \in {<<i, s>> : i \in 1..N, s \in LiveSubsOn(S, t)} :
                     Match(S.subs[p[2]].filt, e.msgs[p[1]].attrs)}
        want == {<<ids[p[1]], p[2]>> : p \in owedM}
        ND == NewDels(S, S2)
        got == {<<d[1], d[2]>> : d \in ND}
        filtered(p) == S.subs[p[2]].filt # NoFilter
    IN
    Chk("C02:publish-ids",
        /\ Len(ids) = N
        /\ \A i, j \in 1..N : i # j => ids[i] # ids[j]
        /\ \A i \in 1..N : ids[i] \notin DOMAIN S.msgs
        /\ DOMAIN S2.msgs = DOMAIN S.msgs \cup {ids[i] : i \in 1..N}
        /\ \A m \in DOMAIN S.msgs : S2.msgs[m] = S.msgs[m])
    \cup Chk("C02:publish-content",
        \A i \in 1..N : ids[i] \in DOMAIN S2.msgs =>
           /\ S2.msgs[ids[i]].topic = t
           /\ S2.msgs[ids[i]].key = e.msgs[i].key
           /\ S2.msgs[ids[i]].attrs = e.msgs[i].attrs
           /\ In(S2.msgs[ids[i]].pub, e.t0, e.t1))
    \cup Chk("C01:publish-creates-owed", want \subseteq got)
    \cup Chk("C07:filtered-sub-missed-message", \A p \in want \ got : ~filtered(p))
    \cup Chk("C02:publish-wrongful-delivery", got \subseteq want)
    \* C12: a re-created topic inherits nothing - in particular not the subscriptions that were
    \* attached to an earlier (deleted) topic of the same name
    \cup Chk("C12:recreated-topic-inherits-subscription",
        \A p \in got : p[2] \in DOMAIN S.subs =>
           ~(S.subs[p[2]].topic # t /\ S.subs[p[2]].topic \in DOMAIN S.topics
             /\ S.topics[S.subs[p[2]].topic].name = e.topic))
    \cup Chk("C07:filtered-sub-got-nonmatching", \A p \in got \ want : p \in owed => ~filtered(p))
    \cup Chk("C02:publish-one-delivery-each", Cardinality(ND) = Cardinality(got))
    \cup Chk("C01:publish-fresh",
        \A d \in ND : d[2] \in DOMAIN S.subs => S2.del[d].done = -1 /\ S2.del[d].att = 0)
    \cup Chk("C14:publish-delay",
        \A d \in ND : d[2] \in DOMAIN S.subs =>
           In(S2.del[d].at, e.t0 + S.subs[d[2]].delay, e.t1 + S.subs[d[2]].delay))
    \cup Chk("C14:publish-retention",
        \A d \in ND : d[2] \in DOMAIN S.subs =>
           In(S2.del[d].exp, e.t0 + S.subs[d[2]].mttl, e.t1 + S.subs[d[2]].mttl))
    \cup Chk("C02:publish-frame",
        /\ \A d \in Dels(S) : SameDel(S, S2, d)
        /\ RestSame(S, S2, {"topics", "subs", "snaps"}))

VPull(S, e, S2) ==
  LET X == SubsNamed(S, e.sub) IN
  IF e.code # "OK"
  THEN VErr(S, e, S2) \cup Chk("C12:pull-code", X = {} /\ e.code = "NotFound")
  ELSE IF X = {} THEN {"C14:pull-on-dead-sub-ok"}
  ELSE
    LET s == CHOOSE x \in X : TRUE
        G == e.got
        R == {G[i].d : i \in DOMAIN G}
        D == {d \in DelsOf(S, s) : ~IsDone(S, d) /\ d \in Dels(S2) /\ IsDone(S2, d)}
        known == {i \in DOMAIN G : G[i].d \in Dels(S)}
        must == {d \in DelsOf(S, s) : MustElig(S, d, e.t0, e.t1)}
    IN
    Chk("C02:pull-returns-unknown-delivery", \A i \in DOMAIN G : i \in known)
    \cup Chk("C02:pull-foreign-subscription", \A d \in R : d[2] = s)
    \cup Chk("C02:pull-over-max", Len(G) <= e.max)
    \cup Chk("C02:pull-duplicate-in-response", Cardinality(R) = Len(G))
    \cup Chk("C02:pull-content", \A i \in DOMAIN G : G[i].ok)
    \cup Chk("C03:pull-returns-acked", \A d \in R : d \notin S.acked)
    \cup Chk("C02:pull-returns-completed", \A i \in known : ~IsDone(S, G[i].d))
    \cup Chk("C04:pull-before-deadline", \A i \in known : S.del[G[i].d].at <= e.t1)
    \cup Chk("C14:pull-after-retention", \A i \in known : S.del[G[i].d].exp >= e.t0)
    \cup Chk("C05:pull-overtakes-same-key", \A i \in known : ~BlockedX(S, G[i].d, e.t1, D))
    \cup Chk("C06:pull-over-max-attempts", \A i \in known : ~DLable(S, G[i].d))
    \cup Chk("C04:pull-attempt-number",
        \A i \in known : /\ G[i].att = S.del[G[i].d].att + 1
                         /\ G[i].d \in Dels(S2) /\ S2.del[G[i].d].att = G[i].att)
    \cup Chk("C04:pull-lease",
        \A i \in known : G[i].d \in Dels(S2) =>
           /\ S2.del[G[i].d] = [S.del[G[i].d] EXCEPT !.att = @ + 1, !.at = S2.del[G[i].d].at]
           /\ In(S2.del[G[i].d].at, e.t0 + G[i].bo, e.t1 + G[i].bo + Jit))
    \cup Chk("C06:pull-deadletters-undue",
        \A d \in D : DLable(S, d) /\ MayElig(S, d, e.t0, e.t1) /\ OnlyDone(S, S2, d))
    \cup Chk("C06:forward-exactly-once", FwdExact(S, S2, D))
    \cup Chk("C06:forward-fresh", FwdFresh(S, S2, e.t0, e.t1))
    \cup FwdRetention(S, S2, e.t0, e.t1)
    \cup Chk("C01:pull-progress", must # {} => (R \cup D) # {})
    \cup Chk("C14:pull-restarts-expiry",
        /\ SubsSameExcept(S, S2, {s})
        /\ S2.subs[s] = [S.subs[s] EXCEPT !.exp = S2.subs[s].exp]
        /\ In(S2.subs[s].exp, e.t0 + S.subs[s].ttl, e.t1 + S.subs[s].ttl))
    \cup Chk("C02:pull-frame",
        /\ \A d \in Dels(S) \ (R \cup D) : SameDel(S, S2, d)
        /\ RestSame(S, S2, {"topics", "msgs", "snaps"}))

(* A blocking pull that found nothing and was ended by the CLIENT's deadline  *)
(* (answered DeadlineExceeded / Canceled): it still counts as pull activity   *)
(* for the expiration TTL (C14: "every pull, even an empty one, restarts the  *)
(* clock") and changes nothing else.                                          *)
VPullTimeout(S, e, S2) ==
  LET X == SubsNamed(S, e.sub) IN
  IF X = {} THEN Chk("C16:error-changed-state", Core(S2) = Core(S))
  ELSE LET s == CHOOSE x \in X : TRUE IN
    Chk("C14:pull-restarts-expiry",
        /\ SubsSameExcept(S, S2, {s})
        /\ S2.subs[s] = [S.subs[s] EXCEPT !.exp = S2.subs[s].exp]
        /\ In(S2.subs[s].exp, e.t0 + S.subs[s].ttl, e.t1 + S.subs[s].ttl))
    \cup Chk("C02:pull-frame", RestSame(S, S2, {"topics", "msgs", "del", "snaps"}))

\* deliveries named by an Ack / ModAck / Nack request that (still) exist
Named(S, e) == {e.ids[i] : i \in DOMAIN e.ids} \cap Dels(S)

VAck(S, e, S2) ==
  IF e.code # "OK" THEN VErr(S, e, S2) \cup {"C03:ack-failed"}
  ELSE
    LET ids == Named(S, e) IN
    Chk("C03:ack-effect",
        \A d \in ids : \/ SameDel(S, S2, d)
                       \/ /\ ~IsDone(S, d) /\ OnlyDone(S, S2, d)
                          /\ In(S2.del[d].done, e.t0, e.t1))
    \cup Chk("C03:ack-side-effect",
        /\ \A d \in Dels(S) \ ids : SameDel(S, S2, d)
        /\ NewDels(S, S2) = {})
    \cup Chk("C03:ack-frame", RestSame(S, S2, {"topics", "subs", "msgs", "snaps"}))

VModAck(S, e, S2) ==
  IF e.code # "OK" THEN VErr(S, e, S2) \cup {"C04:modack-failed"}
  ELSE
    LET ids == Named(S, e)
        own == UNION {DelsOf(S, s) : s \in SubsNamed(S, e.sub)}
        dl == e.secs * TU
    IN
    Chk("C03:modack-resurrects", \A d \in ids : IsDone(S, d) => SameDel(S, S2, d))
    \cup Chk("C04:modack-only-deadline", \A d \in ids : OnlyAt(S, S2, d))
    \cup Chk("C04:modack-postpones",
        \A d \in ids : (~IsDone(S, d) /\ d \in Dels(S2) /\ e.secs > 0) =>
           LET a == S.del[d].at a2 == S2.del[d].at IN
           /\ a2 >= a
           /\ a2 = a \/ In(a2, e.t0 + dl, e.t1 + dl)
           /\ (d \in own /\ a < e.t0 + dl) => a2 # a)
    \cup Chk("C04:modack-zero-makes-due",
        \A d \in ids : (~IsDone(S, d) /\ d \in Dels(S2) /\ e.secs <= 0) =>
           LET a == S.del[d].at a2 == S2.del[d].at IN
           /\ a2 = a \/ In(a2, e.t0 + dl, e.t1)
           /\ d \in own => a2 <= e.t1)
    \cup Chk("C04:modack-side-effect",
        /\ \A d \in Dels(S) \ ids : SameDel(S, S2, d)
        /\ NewDels(S, S2) = {})
    \cup Chk("C04:modack-frame", RestSame(S, S2, {"topics", "subs", "msgs", "snaps"}))

(* Nack through the action layer (used by streams and HTTP push): the      *)
(* delivery is rescheduled by the backoff of its current attempt count, or *)
(* dead-lettered when it is over its attempt budget.                       *)
VNack(S, e, S2) ==
  IF e.code # "OK" THEN VErr(S, e, S2) \cup {"C04:nack-failed"}
  ELSE
    LET ids == Named(S, e)
        pos(d) == CHOOSE i \in DOMAIN e.ids : e.ids[i] = d
        D == {d \in ids : ~IsDone(S, d) /\ d \in Dels(S2) /\ IsDone(S2, d)}
    IN
    Chk("C03:nack-resurrects", \A d \in ids : IsDone(S, d) => SameDel(S, S2, d))
    \cup Chk("C06:nack-deadletters-wrongly",
        \* (a late nack for a delivery of a subscription that was deleted meanwhile may
        \* still dead-letter it: the property only excludes acknowledged and expired ones)
        \A d \in D : DLable(S, d) /\ S.del[d].exp >= e.t0 /\ OnlyDone(S, S2, d))
    \cup Chk("C06:nack-keeps-over-budget",
        \A d \in ids : (OutDef(S, d, e.t1) /\ DLable(S, d)) => d \in D)
    \cup Chk("C04:nack-reschedules",
        \A d \in ids \ D : ~IsDone(S, d) =>
           /\ OnlyAt(S, S2, d)
           /\ (OutDef(S, d, e.t1) /\ ~DLable(S, d)) =>
                In(S2.del[d].at, e.t0 + e.bo[pos(d)], e.t1 + e.bo[pos(d)] + Jit))
    \cup Chk("C06:forward-exactly-once", FwdExact(S, S2, D))
    \cup Chk("C06:forward-fresh", FwdFresh(S, S2, e.t0, e.t1))
    \cup FwdRetention(S, S2, e.t0, e.t1)
    \cup Chk("C04:nack-side-effect", \A d \in Dels(S) \ ids : SameDel(S, S2, d))
    \cup Chk("C04:nack-frame", RestSame(S, S2, {"topics", "subs", "msgs", "snaps"}))

(* One StreamingPull request carrying acknowledgements (ids) and zero       *)
(* deadlines (nids): the stream's reader runs an acknowledgement            *)
(* transaction and then a modify-deadline transaction.  As ONE model step   *)
(* (operation StreamAN of the reference model) it is judged as an           *)
(* Acknowledge followed by ModifyAckDeadline 0; the intermediate state M is *)
(* S with the acknowledged deliveries taking their final records.  (Traces  *)
(* of the real code record the two transactions as Ack and ModAck events.)  *)
EvAck(e) == [op |-> "Ack", sub |-> e.sub, ids |-> e.ids, t0 |-> e.t0, t1 |-> e.t1, code |-> "OK"]
EvMod(e) == [op |-> "ModAck", sub |-> e.sub, ids |-> e.nids, secs |-> 0, t0 |-> e.t0, t1 |-> e.t1, code |-> "OK"]
MidAN(S, e, S2) ==
  LET A == Named(S, e) IN
  [S EXCEPT !.del = [d \in DOMAIN @ |-> IF d \in A /\ d \in DOMAIN S2.del THEN S2.del[d] ELSE @[d]]]

(***************************************************************************)
(* Seek (C13)                                                              *)
(***************************************************************************)
\* what must hold of one delivery of the subscription after a seek that
\* wants it outstanding (want = TRUE) or acknowledged (want = FALSE)
SeekOne(S, e, S2, d, want) ==
  LET r == S.del[d] r2 == S2.del[d] mttl == S.subs[d[2]].mttl IN
  /\ d \in Dels(S2)
  /\ r2.n = r.n /\ r2.pub = r.pub /\ r2.att = r.att
  /\ IF want
     THEN /\ r2.done = -1
          /\ IF r.done # -1
             THEN In(r2.at, e.t0, e.t1) /\ In(r2.exp, e.t0 + mttl, e.t1 + mttl)
             ELSE /\ r2.at = r.at \/ In(r2.at, e.t0, e.t1)
                  /\ r2.exp = r.exp \/ In(r2.exp, e.t0 + mttl, e.t1 + mttl)
     ELSE /\ r2.done # -1
          /\ IF r.done # -1 THEN r2 = r
             ELSE In(r2.done, e.t0, e.t1) /\ r2 = [r EXCEPT !.done = r2.done]

\* C14: a delivery that a seek revives (acknowledged before, outstanding after) gets a fresh
\* retention period - the subscription's message retention, counted from the seek
SeekRevivedRetention(S, e, S2, s) ==
  Chk("C14:seek-revived-retention",
      \A d \in DelsOf(S, s) :
         (d \in Dels(S2) /\ IsDone(S, d) /\ ~IsDone(S2, d)) =>
            In(S2.del[d].exp, e.t0 + S.subs[s].mttl, e.t1 + S.subs[s].mttl))

VSeekTime(S, e, S2) ==
  LET X == SubsNamed(S, e.sub) IN
  IF e.code # "OK"
  THEN VErr(S, e, S2) \cup Chk("C12:seek-code", X = {} /\ e.code = "NotFound")
  ELSE IF X = {} THEN {"C12:seek-dead-sub-ok"}
  ELSE
    LET s == CHOOSE x \in X : TRUE IN
    Chk("C13:seek-time-exact",
        \A d \in DelsOf(S, s) :
           LET r == S.del[d] IN
           IF r.exp > e.t1            \* certainly retained
           \* e.le lists the deliveries published at or before the target, compared
           \* at full clock resolution by the recorder (the floored times of the
           \* state cannot decide equality)
           THEN IF d \in RangeOf(e.le) THEN SeekOne(S, e, S2, d, FALSE)
                ELSE SeekOne(S, e, S2, d, TRUE)
           ELSE IF r.exp < e.t0       \* certainly no longer retained: never revived
           THEN SameDel(S, S2, d)
           ELSE SameDel(S, S2, d) \/ SeekOne(S, e, S2, d, TRUE) \/ SeekOne(S, e, S2, d, FALSE))
    \cup Chk("C13:seek-other-subscription",
        /\ \A d \in Dels(S) \ DelsOf(S, s) : SameDel(S, S2, d)
        /\ NewDels(S, S2) = {} /\ GoneDels(S, S2) = {})
    \cup Chk("C13:seek-frame", RestSame(S, S2, {"topics", "subs", "msgs", "snaps"}))
    \cup SeekRevivedRetention(S, e, S2, s)

VCreateSnap(S, e, S2) ==
  LET X == SubsNamed(S, e.sub) ex == e.name \in DOMAIN S.snaps IN
  IF e.code # "OK"
  THEN VErr(S, e, S2)
       \cup Chk("C12:create-snap-code",
              \/ ex /\ e.code = "AlreadyExists"
              \/ ~ex /\ X = {} /\ e.code = "NotFound")
  ELSE
    Chk("C12:create-existing-snap-ok", ~ex)
    \cup Chk("C12:create-snap-dead-sub-ok", X # {})
    \cup Chk("C12:create-snap-post",
        /\ DOMAIN S2.snaps = DOMAIN S.snaps \cup {e.name}
        /\ \A n \in DOMAIN S.snaps : S2.snaps[n] = S.snaps[n]
        /\ \A s \in X : S2.snaps[e.name].topic = S.subs[s].topic)
    \cup Chk("C13:create-snap-frame", RestSame(S, S2, {"topics", "subs", "msgs", "del"}))

VDeleteSnap(S, e, S2) ==
  LET ex == e.name \in DOMAIN S.snaps IN
  IF e.code # "OK"
  THEN VErr(S, e, S2) \cup Chk("C12:delete-snap-code", ~ex /\ e.code = "NotFound")
  ELSE
    Chk("C12:delete-missing-snap-ok", ex)
    \cup Chk("C12:delete-snap-post",
        /\ DOMAIN S2.snaps = DOMAIN S.snaps \ {e.name}
        /\ \A n \in DOMAIN S2.snaps : S2.snaps[n] = S.snaps[n])
    \cup Chk("C13:delete-snap-frame", RestSame(S, S2, {"topics", "subs", "msgs", "del"}))

VSeekSnap(S, e, S2) ==
  LET X == SubsNamed(S, e.sub) ex == e.snap \in DOMAIN S.snaps IN
  IF e.code # "OK"
  THEN VErr(S, e, S2) \cup Chk("C12:seek-snap-code", (X = {} \/ ~ex) /\ e.code = "NotFound")
  ELSE IF X = {} \/ ~ex THEN {"C12:seek-snap-missing-ok"}
  ELSE IF e.snap \notin DOMAIN S.gsnap THEN {}  \* created outside any observed CreateSnap (already reported there)
  \* a snapshot of another topic: outside the property ("a snapshot of the same or a sibling subscription of the topic")
  ELSE IF \E x \in X : S.snaps[e.snap].topic # S.subs[x].topic THEN
    Chk("C13:seek-other-subscription",
        \A d \in Dels(S) : d[2] \notin X => SameDel(S, S2, d))
  ELSE
    LET s == CHOOSE x \in X : TRUE
        g == S.gsnap[e.snap]
    IN
    Chk("C13:seek-snapshot-exact",
        \A d \in DelsOf(S, s) :
           LET r == S.del[d] IN
           IF r.exp > e.t1
           THEN IF d[1] \in g.unacked \/ r.pub > g.at2 THEN SeekOne(S, e, S2, d, TRUE)
                ELSE IF d[1] \in g.seen /\ r.pub < g.at1 THEN SeekOne(S, e, S2, d, FALSE)
                ELSE SeekOne(S, e, S2, d, TRUE) \/ SeekOne(S, e, S2, d, FALSE)
           ELSE SameDel(S, S2, d) \/ SeekOne(S, e, S2, d, TRUE) \/ SeekOne(S, e, S2, d, FALSE))
    \cup Chk("C13:seek-other-subscription",
        /\ \A d \in Dels(S) \ DelsOf(S, s) : SameDel(S, S2, d)
        /\ NewDels(S, S2) = {} /\ GoneDels(S, S2) = {})
    \cup Chk("C13:seek-frame", RestSame(S, S2, {"topics", "subs", "msgs", "snaps"}))
    \cup SeekRevivedRetention(S, e, S2, s)

(***************************************************************************)
(* Background jobs (C06 sweep, C14 expiry, C15 pruning)                    *)
(***************************************************************************)
VDLSweep(S, e, S2) ==
  LET D == {d \in Dels(S) : ~IsDone(S, d) /\ d \in Dels(S2) /\ IsDone(S2, d)}
      must == {d \in Dels(S) : /\ ~IsDone(S, d) /\ DLable(S, d) /\ SubLive(S, d[2])
                               /\ S.del[d].at < e.t0 /\ S.del[d].exp > e.t1}
  IN
  IF e.code # "OK" THEN VErr(S, e, S2) \cup {"C06:sweep-failed"}
  ELSE
    Chk("C06:sweep-deadletters-wrongly",
        \A d \in D : /\ DLable(S, d) /\ SubLive(S, d[2]) /\ OnlyDone(S, S2, d)
                     /\ S.del[d].at <= e.t1 /\ S.del[d].exp >= e.t0)
    \cup Chk("C06:sweep-over-batch", Cardinality(D) <= e.max)
    \cup Chk("C06:sweep-progress", must # {} => D # {})
    \cup Chk("C06:forward-exactly-once", FwdExact(S, S2, D))
    \cup Chk("C06:forward-fresh", FwdFresh(S, S2, e.t0, e.t1))
    \cup FwdRetention(S, S2, e.t0, e.t1)
    \* C03: an acknowledgement is final for the sweep too - an acknowledged delivery is neither
    \* touched nor forwarded, however many attempts it had used and however old its deadline is
    \cup Chk("C03:sweep-touches-acknowledged", \A d \in S.acked : d \in Dels(S2) /\ SameDel(S, S2, d))
    \cup Chk("C03:sweep-forwards-acknowledged",
        \A n \in NewDels(S, S2) :
           (\E d \in S.acked : d[1] = n[1] /\ S.subs[d[2]].dlt = S.subs[n[2]].topic)
             => \E x \in D : x[1] = n[1])
    \cup Chk("C15:sweep-frame",
        /\ \A d \in Dels(S) \ D : SameDel(S, S2, d)
        /\ RestSame(S, S2, {"topics", "subs", "msgs", "snaps"}))

VExpireSubs(S, e, S2) ==
  LET E == {s \in DOMAIN S.subs : S.subs[s].live /\ s \in DOMAIN S2.subs /\ ~S2.subs[s].live}
      must == {s \in DOMAIN S.subs : S.subs[s].live /\ S.subs[s].exp < e.t0}
  IN
  IF e.code # "OK" THEN VErr(S, e, S2) \cup {"C14:expire-failed"}
  ELSE
    Chk("C14:expired-before-ttl", \A s \in E : S.subs[s].exp <= e.t1)
    \* C15: the expiry job leaves already-dead subscriptions alone (re-stamping their deletion time
    \* would keep them younger than the pruning threshold for ever)
    \cup Chk("C15:expire-touches-dead-subscription",
        \A s \in DOMAIN S.subs : ~S.subs[s].live => (s \in DOMAIN S2.subs /\ S2.subs[s] = S.subs[s]))
    \cup Chk("C14:expire-over-batch", Cardinality(E) <= e.max)
    \cup Chk("C14:expire-progress", must # {} => E # {})
    \cup Chk("C14:expire-post",
        /\ SubsSameExcept(S, S2, E)
        /\ \A s \in E : /\ In(S2.subs[s].delAt, e.t0, e.t1)
                        /\ S2.subs[s] = [S.subs[s] EXCEPT !.live = FALSE, !.delAt = S2.subs[s].delAt])
    \cup Chk("C15:expire-frame", RestSame(S, S2, {"topics", "msgs", "del", "snaps"}))

(* What a client can observe: live topics and subscriptions with their     *)
(* configuration, every outstanding delivery with all its fields, the      *)
(* messages of those deliveries, the snapshots.  A prune job may only      *)
(* remove rows; it may not add or modify any, and it may not remove any    *)
(* part of the client view.  (Rows that are acknowledged but still         *)
(* retained are NOT in the view: pruning them legitimately shrinks what a  *)
(* later seek can revive.)                                                 *)
VPrune(S, e, S2) ==
  IF e.code # "OK"
  THEN VErr(S, e, S2)   \* a failing job run must at least change nothing
  ELSE
    Chk("C15:prune-modified-row",
        /\ DOMAIN S2.topics \subseteq DOMAIN S.topics
        /\ DOMAIN S2.subs \subseteq DOMAIN S.subs
        /\ DOMAIN S2.msgs \subseteq DOMAIN S.msgs
        /\ Dels(S2) \subseteq Dels(S)
        /\ \A t \in DOMAIN S2.topics : S2.topics[t] = S.topics[t]
        \* (a dead-letter reference to a topic row that was reclaimed is cleared)
        /\ \A s \in DOMAIN S2.subs :
              \/ S2.subs[s] = S.subs[s]
              \/ /\ S.subs[s].dlt \notin DOMAIN S2.topics
                 /\ S2.subs[s] = [S.subs[s] EXCEPT !.dlt = 0]
        /\ \A m \in DOMAIN S2.msgs : S2.msgs[m] = S.msgs[m]
        /\ \A d \in Dels(S2) : S2.del[d] = S.del[d]
        /\ S2.snaps = S.snaps)
    \cup Chk("C15:prune-removed-live-topic",
        \A t \in DOMAIN S.topics : S.topics[t].live => t \in DOMAIN S2.topics)
    \cup Chk("C15:prune-removed-live-subscription",
        \A s \in DOMAIN S.subs : S.subs[s].live => s \in DOMAIN S2.subs)
    \cup Chk("C15:prune-removed-outstanding-delivery",
        \A d \in Dels(S) : OutDef(S, d, e.t1) => d \in Dels(S2))
    \cup Chk("C15:prune-removed-needed-message",
        \A d \in Dels(S2) : d[1] \in DOMAIN S2.msgs)
    \cup Chk("C15:prune-dangling-reference",
        /\ \A d \in Dels(S2) : d[2] \in DOMAIN S2.subs
        /\ \A s \in DOMAIN S2.subs : S2.subs[s].topic \in DOMAIN S2.topics
        /\ \A m \in DOMAIN S2.msgs : S2.msgs[m].topic \in DOMAIN S2.topics)

(* C15, second half: after everything was deleted through the API and the   *)
(* clock moved past every threshold, rounds of all jobs reached a fixpoint;  *)
(* nothing may be left in any table.                                         *)
VConverged(S, e, S2) ==
  Chk("C15:not-converged",
      e.left.topics = 0 /\ e.left.subs = 0 /\ e.left.msgs = 0 /\ e.left.del = 0 /\ e.left.snaps = 0)
  \cup Chk("C15:converged-changed-state", Core(S2) = Core(S))

PruneJobs == {"PruneCompletedDeliveries", "PruneExpiredDeliveries", "PruneCompletedMessages",
              "PruneDeletedSubscriptionDeliveries", "PruneDeletedSubscriptions",
              "PruneDeletedTopics"}

(***************************************************************************)
(* Get / List (C12, C17)                                                   *)
(***************************************************************************)
VGet(S, e, S2) ==
  LET live == CASE e.kind = "topic" -> TopicsNamed(S, e.name) # {}
                [] e.kind = "sub" -> SubsNamed(S, e.name) # {}
                [] e.kind = "snap" -> e.name \in DOMAIN S.snaps
  IN
  Chk("C12:get-changed-state", Core(S2) = Core(S))
  \cup Chk("C12:get-code", IF live THEN e.code = "OK" ELSE e.code = "NotFound")
  \cup Chk("C17:get-shows-config",
       (e.code = "OK" /\ live) =>
          CASE e.kind = "topic" ->
                 \A t \in TopicsNamed(S, e.name) : e.cfg.labels = S.topics[t].labels
            [] e.kind = "sub" ->
                 \A s \in SubsNamed(S, e.name) :
                    /\ \A f \in CfgFields : e.cfg[f] = S.subs[s][f]
                    /\ e.cfg.dlt = ShownTopic(S, S.subs[s].dlt)
                    /\ e.cfg.topic = ShownTopic(S, S.subs[s].topic)
            [] e.kind = "snap" ->
                 e.cfg.topic = ShownTopic(S, S.snaps[e.name].topic))

\* e.names : sequence of model names returned over all pages; e.want is not
\* logged - the specification derives the expected set itself
VList(S, e, S2) ==
  LET want == CASE e.kind = "topic" ->
                     {S.topics[t].name : t \in {x \in DOMAIN S.topics :
                         S.topics[x].live /\ S.topics[x].proj = e.proj}}
                [] e.kind = "sub" ->
                     {S.subs[s].name : s \in {x \in DOMAIN S.subs :
                         S.subs[x].live /\ S.subs[x].proj = e.proj}}
                [] e.kind = "snap" ->
                     {n \in DOMAIN S.snaps : S.snaps[n].proj = e.proj}
                \* ListTopicSubscriptions: the live subscriptions attached to the live topic e.name
                [] e.kind = "topicsubs" ->
                     {S.subs[s].name : s \in {x \in DOMAIN S.subs :
                         S.subs[x].live /\ S.subs[x].topic \in TopicsNamed(S, e.name)}}
      got == {e.names[i] : i \in DOMAIN e.names}
      noTopic == e.kind = "topicsubs" /\ TopicsNamed(S, e.name) = {}
  IN
  Chk("C12:list-changed-state", Core(S2) = Core(S))
  \cup Chk("C12:list-failed", IF noTopic THEN e.code = "NotFound" ELSE e.code = "OK")
  \cup Chk("C12:list-missing", e.code = "OK" => want \subseteq got)
  \cup Chk("C12:list-extra", e.code = "OK" => got \subseteq want)
  \cup Chk("C12:list-duplicate", e.code = "OK" => Cardinality(got) = Len(e.names))

(***************************************************************************)
(* Storage failure / cancellation in the middle of an operation (C09).     *)
(* e.of is the operation, e.k the index of the database interaction that   *)
(* failed, e.dumpSame the byte-level comparison of all five tables made by *)
(* the harness, e.woken the awaiters that fired.  A pull refreshes the     *)
(* subscription's expiry in a first transaction of its own (by design, see *)
(* C14), so that field alone may differ after a failed pull.               *)
(***************************************************************************)
NoExp(subs) == [s \in DOMAIN subs |-> [subs[s] EXCEPT !.exp = 0]]
VFailed(S, e, S2) ==
  Chk("C09:fault-not-reported", e.code # "OK")
  \cup Chk("C09:failed-operation-changed-state",
       /\ e.dumpSame
       /\ IF e.of = "Pull"
          THEN /\ RestSame(S, S2, {"topics", "msgs", "del", "snaps"})
               /\ NoExp(S2.subs) = NoExp(S.subs)
          ELSE Core(S2) = Core(S))
  \cup Chk("C09:failed-operation-woke-waiter", Len(e.woken) = 0)

(***************************************************************************)
(* Clauses that apply to EVERY step, whatever the operation.               *)
(*   C01: a delivery that is outstanding for certain only stops being      *)
(*        outstanding for one of the reasons the property lists.           *)
(*   C02: an operation addressed to one subscription leaves the deliveries *)
(*        of every other subscription alone (dead-letter forwarding only   *)
(*        ADDS deliveries elsewhere).                                      *)
(***************************************************************************)
Retired(S, e, S2, d) ==
  \/ e.op = "Ack" /\ d \in Named(S, e)
  \/ e.op = "Pull" /\ d[2] \in SubsNamed(S, e.sub) /\ DLable(S, d)
  \/ e.op = "Nack" /\ d \in Named(S, e) /\ DLable(S, d)
  \/ e.op = "DLSweep" /\ DLable(S, d)
  \/ e.op \in {"DeleteSub", "ExpireSubs"} /\ ~SubLive(S2, d[2])
  \* "a seek moves past it": only what the seek's target really leaves behind - a seek to a time
  \* retires what was published at or before it, a seek to a snapshot what the snapshot does not
  \* hold (not unacknowledged when it was taken, not published since)
  \/ /\ e.op = "SeekTime" /\ d[2] \in SubsNamed(S, e.sub)
     /\ ("le" \notin DOMAIN e \/ d \in RangeOf(e.le) \/ S.del[d].exp <= e.t1)
  \/ /\ e.op = "SeekSnap" /\ d[2] \in SubsNamed(S, e.sub)
     /\ \/ e.snap \notin DOMAIN S.gsnap \/ e.snap \notin DOMAIN S.snaps
        \/ S.snaps[e.snap].topic # S.subs[d[2]].topic
        \/ ~(d[1] \in S.gsnap[e.snap].unacked \/ S.del[d].pub > S.gsnap[e.snap].at2)

Addressed(S, e) ==   \* the subscriptions an operation is allowed to touch deliveries of
  CASE e.op \in {"Pull", "PullTimeout", "SeekTime", "SeekSnap"} -> SubsNamed(S, e.sub)
    [] e.op \in {"DeleteSub", "UpdateSub", "SetDelay"} -> SubsNamed(S, e.name)
    [] e.op \in {"Ack", "ModAck", "Nack"} -> {d[2] : d \in Named(S, e)}
    [] e.op \in {"CreateTopic", "DeleteTopic", "CreateSub", "CreateSnap", "DeleteSnap", "Get", "List", "Tick", "Converged"} -> {}
    [] OTHER -> DOMAIN S.subs      \* publish, background jobs, failed attempts: judged by their own clauses

VGeneric1(S, e, S2) ==
  Chk("C01:outstanding-delivery-lost",
      \A d \in Dels(S) :
         (OutDef(S, d, e.t1) /\ ~(d \in Dels(S2) /\ ~IsDone(S2, d) /\ S2.del[d].exp >= S.del[d].exp))
           => Retired(S, e, S2, d))
  \cup Chk("C02:other-subscription-affected",
      \A d \in Dels(S) : d[2] \notin Addressed(S, e) => SameDel(S, S2, d))

\* ONE request carrying acknowledgements and nacks (actions.MessageStreamRequest{Ack, Nack}, what
\* the HTTP pusher sends): one transaction - judged as an Acknowledge followed, with no state in
\* between visible or left behind, by a nack (backoff / dead-letter).
EvNack(e) == [op |-> "Nack", ids |-> e.nids, bo |-> e.bo, t0 |-> e.t0, t1 |-> e.t1, code |-> "OK"]
VAckNack(S, e, S2) ==
  IF e.code # "OK" THEN VErr(S, e, S2)
  ELSE LET M == MidAN(S, e, S2) IN
       VAck(S, EvAck(e), M) \cup VGeneric1(S, EvAck(e), M)
       \cup VNack(M, EvNack(e), S2) \cup VGeneric1(M, EvNack(e), S2)

VStreamAN(S, e, S2) ==
  IF e.code # "OK" THEN VErr(S, e, S2)
  ELSE LET M == MidAN(S, e, S2) IN
       VAck(S, EvAck(e), M) \cup VGeneric1(S, EvAck(e), M)
       \cup VModAck(M, EvMod(e), S2) \cup VGeneric1(M, EvMod(e), S2)

VGeneric(S, e, S2) == IF e.op \in {"StreamAN", "AckNack"} /\ e.code = "OK" THEN {} ELSE VGeneric1(S, e, S2)

(***************************************************************************)
(* Dispatch                                                                *)
(***************************************************************************)
\* C12, racing creates: n identical create requests issued concurrently (event field `codes`
\* holds every reply, `code` the winner's): together they behave like ONE create - the state
\* clauses of the create apply to `code` - and every other reply is what a create arriving
\* after the winner gets.
VRace(S, e, S2) ==
  IF "codes" \notin DOMAIN e THEN {}
  ELSE LET n == Len(e.codes)
           oks == {i \in 1..n : e.codes[i] = "OK"}
           rest == IF e.code = "OK" THEN "AlreadyExists" ELSE e.code
       IN Chk("C12:racing-creates-several-succeed", Cardinality(oks) <= 1)
          \cup Chk("C12:racing-creates-winner", (e.code = "OK") = (oks # {}))
          \cup Chk("C12:racing-creates-loser-reply", \A i \in 1..n : i \notin oks => e.codes[i] = rest)

V(S, e, S2) ==
  CASE e.op = "Tick" -> VTick(S, e, S2)
    [] e.op = "CreateTopic" -> VCreateTopic(S, e, S2) \cup VRace(S, e, S2)
    [] e.op = "DeleteTopic" -> VDeleteTopic(S, e, S2)
    [] e.op = "CreateSub" -> VCreateSub(S, e, S2) \cup VRace(S, e, S2)
    [] e.op = "DeleteSub" -> VDeleteSub(S, e, S2)
    [] e.op = "UpdateSub" -> VUpdateSub(S, e, S2)
    [] e.op = "SetDelay" -> VSetDelay(S, e, S2)
    [] e.op = "Publish" -> VPublish(S, e, S2)
    [] e.op = "Pull" -> VPull(S, e, S2)
    [] e.op = "PullTimeout" -> VPullTimeout(S, e, S2)
    [] e.op = "Ack" -> VAck(S, e, S2)
    [] e.op = "ModAck" -> VModAck(S, e, S2)
    [] e.op = "Nack" -> VNack(S, e, S2)
    [] e.op = "StreamAN" -> VStreamAN(S, e, S2)
    [] e.op = "AckNack" -> VAckNack(S, e, S2)
    [] e.op = "SeekTime" -> VSeekTime(S, e, S2)
    [] e.op = "CreateSnap" -> VCreateSnap(S, e, S2) \cup VRace(S, e, S2)
    [] e.op = "DeleteSnap" -> VDeleteSnap(S, e, S2)
    [] e.op = "SeekSnap" -> VSeekSnap(S, e, S2)
    [] e.op = "DLSweep" -> VDLSweep(S, e, S2)
    [] e.op = "ExpireSubs" -> VExpireSubs(S, e, S2)
    [] e.op \in PruneJobs -> VPrune(S, e, S2)
    [] e.op = "Get" -> VGet(S, e, S2)
    [] e.op = "List" -> VList(S, e, S2)
    [] e.op = "Failed" -> VFailed(S, e, S2)
    [] e.op = "Converged" -> VConverged(S, e, S2)
    [] OTHER -> {"C00:unknown-op"}

(***************************************************************************)
(* Ghost (history) state: a deterministic function of the step.            *)
(*   acked  : deliveries for which an acknowledgement has succeeded on     *)
(*            their own subscription and that no later seek has rewound    *)
(*   gsnap  : for each snapshot, what it denotes                           *)
(*   gord   : per subscription, the highest delivery number that existed   *)
(*            when ordering was last switched on by an update (else 0)     *)
(***************************************************************************)
GhostAcked(S, e, S2) ==
  LET base ==
    CASE e.op \in {"Ack", "StreamAN", "AckNack"} /\ e.code = "OK" ->
           S.acked \cup {d \in Named(S, e) : d[2] \in SubsNamed(S, e.sub)}
      [] e.op \in {"SeekTime", "SeekSnap"} /\ e.code = "OK" ->
           {d \in S.acked : d[2] \notin SubsNamed(S, e.sub)}
      [] OTHER -> S.acked
  IN base \cap Dels(S2)

GhostSnap(S, e, S2) ==
  LET base ==
    IF e.op = "CreateSnap" /\ e.code = "OK" /\ SubsNamed(S, e.sub) # {}
    THEN LET s == CHOOSE x \in SubsNamed(S, e.sub) : TRUE IN
         (e.name :> [src |-> s, at1 |-> e.t0, at2 |-> e.t1,
                     unacked |-> {d[1] : d \in {x \in DelsOf(S, s) : OutMay(S, x, e.t0)}},
                     seen |-> {d[1] : d \in DelsOf(S, s)}]) @@ S.gsnap
    ELSE S.gsnap
  IN [n \in DOMAIN base \cap DOMAIN S2.snaps |-> base[n]]

GhostOrd(S, e, S2) ==
  LET ns == {S2.del[x].n : x \in DOMAIN S2.del}
      top == IF ns = {} THEN 0 ELSE CHOOSE n \in ns : \A k \in ns : k <= n
  IN [s \in DOMAIN S2.subs |->
        IF s \in DOMAIN S.subs /\ ~S.subs[s].ord /\ S2.subs[s].ord THEN top
        ELSE IF s \in DOMAIN S.subs THEN OrdSince(S, s) ELSE 0]

(***************************************************************************)
(* State invariants (evaluated on every state of the model and on every    *)
(* state adopted from the implementation).                                 *)
(***************************************************************************)
Inv(S) ==
  Chk("C12:two-live-topics-one-name",
      \A a, b \in DOMAIN S.topics :
         (S.topics[a].live /\ S.topics[b].live /\ S.topics[a].name = S.topics[b].name) => a = b)
  \cup Chk("C12:two-live-subscriptions-one-name",
      \A a, b \in DOMAIN S.subs :
         (S.subs[a].live /\ S.subs[b].live /\ S.subs[a].name = S.subs[b].name) => a = b)
  \cup Chk("C03:acknowledged-delivery-outstanding",
      \A d \in S.acked : d \in Dels(S) => IsDone(S, d))
  \cup Chk("C02:delivery-of-foreign-message",
      \A d \in Dels(S) : d[1] \in DOMAIN S.msgs /\ d[2] \in DOMAIN S.subs)

=============================================================================
