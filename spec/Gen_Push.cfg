SPECIFICATION Spec
CONSTANTS
  N = 6
CHECK_DEADLOCK FALSE
