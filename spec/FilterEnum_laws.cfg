\* FilterEnum, mode "laws" (C07).  checks/filter.py rewrites Shard / NShards /
\* Seed / SampleNum / Depth2 / LawDepth per tier and runs one TLC per shard.
CONSTANTS
  Mode = "laws"
  Depth2 = 2
  Shard = 0
  NShards = 16
  SampleNum = 10
  Seed = 1
  LawDepth = 1
