SPECIFICATION Spec
CONSTANTS
  TU = 1
  Jit = 0
  NeMissing = FALSE
  PrefixPairs = {}
  TopicNames = {"t1"}
  SubNames = {"s1"}
  SnapNames = {"n1"}
  SubCfgs <- mcSubCfgs
  MsgKinds <- mcMsgKinds
  BatchMax = 2
  MaxMsgs = 2
  MaxTopics = 1
  MaxSubs = 1
  MaxDels = 4
  MaxTime = 100
  TickDs = {1}
  PullMaxes = {10}
  AckMax = 1
  ModSecs = {0}
  JobAges = {0}
  JobMaxes = {1}
  Ops <- mcOps
  Setup <- mcSetup
  ProjOfName <- mcProjOfName
  Depth = 7
  AttBound = 100
  ViewKeep = {}
  RealBackoff = FALSE
  GenBFS = TRUE
  AckAll = FALSE
  Weights <- mcWeights
ACTION_CONSTRAINT Shape
CHECK_DEADLOCK FALSE
