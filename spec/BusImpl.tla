------------------------------- MODULE BusImpl -------------------------------
(***************************************************************************)
(* Mechanism-level model: what the code actually stores and does for       *)
(* ordered delivery, seeks, snapshots, dead-lettering and pruning, checked *)
(* against the CONTRACT of module Bus (refinement: every transition of the *)
(* mechanism, with the mechanism-only fields forgotten, must satisfy every *)
(* clause V / VGeneric).                                                   *)
(*                                                                         *)
(*   - ordering: each delivery of a keyed message on an ordered            *)
(*     subscription stores `nb`, the most recent non-expired delivery of   *)
(*     that subscription whose message has the same key (after fix         *)
(*     1807263; ChainAnyKey = TRUE models the code before the fix); a      *)
(*     delivery is eligible iff nb is absent, deleted (ON DELETE SET NULL),*)
(*     completed or expired (actions/get-subscription-messages.go);        *)
(*   - snapshots store (before = publish time of the oldest unacked        *)
(*     delivery or now, acked = ids of messages of the subscription's      *)
(*     topic published at/after `before` with a completed delivery on it)  *)
(*     (actions/create-snapshot.go); seek-to-snapshot is three updates     *)
(*     (actions/seek-subscription-to-snapshot.go), the de-ack one without  *)
(*     an expiry condition;                                                *)
(*   - seek-to-time is two updates over rows with expires_at >= now;       *)
(*   - prune jobs delete rows; deleting a delivery clears nb references.   *)
(*                                                                         *)
(* A counterexample is a history in which the mechanism departs from the   *)
(* contract.  It is printed as a scenario (the `hist` variable), replayed  *)
(* on the real code by the same executor, and only what the real code does *)
(* decides (a finding) - otherwise this module is wrong and is corrected.  *)
(***************************************************************************)
EXTENDS Bus, Json

CONSTANTS
  ImplSubs,      \* sequence of subscription configs [name, topic, cfg] created at start
  ImplTopics,    \* sequence of topic names created at start
  MsgKinds, BatchMax, MaxMsgs, MaxTime, TickDs, PullMaxes,
  Ops, AttBound,
  ChainAnyKey    \* TRUE: predecessor = latest delivery of ANY key on the same topic (pre-fix code)

VARIABLES S, ev, hist
vars == <<S, ev, hist>>

Pick(X) == CHOOSE x \in X : TRUE
SetMin(X) == CHOOSE x \in X : \A y \in X : x <= y
NoNB == <<>>

\* ----- initial state: topics and subscriptions exist
TopicId(nm) == CHOOSE i \in DOMAIN ImplTopics : ImplTopics[i] = nm
Init ==
  /\ S = [now |-> 0,
          topics |-> [i \in DOMAIN ImplTopics |-> [name |-> ImplTopics[i], live |-> TRUE, delAt |-> -1, labels |-> <<>>, proj |-> "p"]],
          subs |-> [i \in DOMAIN ImplSubs |->
                      LET c == ImplSubs[i] cf == Dflt(c.cfg) IN
                      [name |-> c.name, topic |-> TopicId(c.topic), live |-> TRUE, delAt |-> -1, exp |-> cf.ttl,
                       ttl |-> cf.ttl, mttl |-> cf.mttl, ord |-> cf.ord, filt |-> cf.filt, minB |-> cf.minB,
                       maxB |-> cf.maxB, dlt |-> IF c.cfg.dlt = "" THEN 0 ELSE TopicId(c.cfg.dlt),
                       maxAtt |-> cf.maxAtt, delay |-> 0, push |-> "", labels |-> <<>>, proj |-> "p"]],
          msgs |-> <<>>, del |-> <<>>, snaps |-> <<>>, acked |-> {}, gsnap |-> <<>>, nm |-> 0, nd |-> 0]
  /\ ev = [op |-> "Init"] /\ hist = <<>>

\* forget the mechanism-only fields
AbsDel(del) == [d \in DOMAIN del |-> [f \in DOMAIN del[d] \ {"nb"} |-> del[d][f]]]
AbsSnaps(sn) == [n \in DOMAIN sn |-> [topic |-> sn[n].topic, proj |-> sn[n].proj]]
Abs(X) == [X EXCEPT !.del = AbsDel(@), !.snaps = AbsSnaps(@)]

Do(e0, C2) ==
  LET e == e0 @@ [t0 |-> S.now, t1 |-> S.now]
      A == Abs(S) A2 == Abs(C2)
      S2 == [C2 EXCEPT !.acked = GhostAcked(A, e, A2), !.gsnap = GhostSnap(A, e, A2)]
  IN S' = S2 /\ ev' = e /\ hist' = Append(hist, e)
OK(e0, C2) == Do(e0 @@ [code |-> "OK"], C2)

Backoff(s, n) == Min2(S.subs[s].maxB, S.subs[s].minB + Max2(n, 1) - 1)

\* ----- the ordering mechanism
\* the predecessor the code picks for a new delivery of message record mr on subscription s, at time `now`,
\* looking at delivery table `del` / message table `msgs`
Pred(del, msgs, s, mr) ==
  IF ~(S.subs[s].ord /\ mr.key # "") THEN NoNB
  ELSE LET C == {d \in DOMAIN del : /\ d[2] = s /\ del[d].exp > S.now
                                    /\ IF ChainAnyKey THEN msgs[d[1]].topic = mr.topic
                                       ELSE msgs[d[1]].key = mr.key}
       IN IF C = {} THEN NoNB
          ELSE CHOOSE d \in C : \A x \in C : del[x].pub < del[d].pub \/ (del[x].pub = del[d].pub /\ del[x].n <= del[d].n)

NewRec(s, n, nb) == [n |-> n, done |-> -1, att |-> 0, at |-> S.now + S.subs[s].delay,
                     exp |-> S.now + S.subs[s].mttl, pub |-> S.now, nb |-> nb]
NextK(del, m, s) == 1 + SetMax({d[3] : d \in {x \in DOMAIN del : x[1] = m /\ x[2] = s}} \cup {0})

\* deliver message id m (record mr) to every matching live subscription of topic t
RECURSIVE DeliverTo(_, _, _, _, _, _)
DeliverTo(del, msgs, m, mr, subsLeft, n) ==
  IF subsLeft = {} THEN del
  ELSE LET s == Pick(subsLeft)
           d == <<m, s, NextK(del, m, s)>>
           del2 == IF Match(S.subs[s].filt, mr.attrs)
                   THEN (d :> NewRec(s, n, Pred(del, msgs, s, mr))) @@ del ELSE del
       IN DeliverTo(del2, msgs, m, mr, subsLeft \ {s}, n)

RECURSIVE PublishAll(_, _, _, _, _)
PublishAll(del, msgs, t, batch, i) ==
  IF i > Len(batch) THEN [del |-> del, msgs |-> msgs]
  ELSE LET m == S.nm + i
           mr == [topic |-> t, pub |-> S.now, key |-> batch[i].key, attrs |-> batch[i].attrs]
           msgs2 == (m :> mr) @@ msgs
       IN PublishAll(DeliverTo(del, msgs2, m, mr, LiveSubsOn(S, t), S.nd + i), msgs2, t, batch, i + 1)

Batches == UNION {[1..n -> MsgKinds] : n \in 1..BatchMax}
Publish(tnm, batch) ==
  LET T == TopicsNamed(S, tnm) IN
  /\ T # {} /\ S.nm + Len(batch) <= MaxMsgs
  /\ LET r == PublishAll(S.del, S.msgs, Pick(T), batch, 1) IN
     OK([op |-> "Publish", topic |-> tnm, msgs |-> batch, ids |-> [i \in 1..Len(batch) |-> S.nm + i]],
        [S EXCEPT !.nm = @ + Len(batch), !.nd = @ + Len(batch), !.msgs = r.msgs, !.del = r.del])

\* eligibility as the pull query computes it
NbClear(d) ==
  LET nb == S.del[d].nb IN
  \/ ~S.subs[d[2]].ord \/ nb = NoNB \/ nb \notin Dels(S)
  \/ S.del[nb].done # -1 \/ S.del[nb].exp <= S.now
EligI(s) == {d \in DelsOf(S, s) : S.del[d].done = -1 /\ S.del[d].exp > S.now /\ S.del[d].at <= S.now /\ NbClear(d)}

\* dead-letter set D: complete them and forward through the same delivery routine
RECURSIVE Forward(_, _, _)
Forward(del, D, n) ==
  IF D = {} THEN del
  ELSE LET d == Pick(D)
           dlt == S.subs[d[2]].dlt
           del1 == [del EXCEPT ![d].done = S.now]
           del2 == IF TopicLive(S, dlt) THEN DeliverTo(del1, S.msgs, d[1], S.msgs[d[1]], LiveSubsOn(S, dlt), n) ELSE del1
       IN Forward(del2, D \ {d}, n + 1)

RECURSIVE SeqOfSet(_)
SeqOfSet(X) == IF X = {} THEN <<>> ELSE LET x == Pick(X) IN <<x>> \o SeqOfSet(X \ {x})
\* the `max` deliveries with the smallest deadlines
RECURSIVE TakeMin(_, _)
TakeMin(X, k) == IF k = 0 \/ X = {} THEN {} ELSE
  LET x == CHOOSE y \in X : \A z \in X : S.del[y].at < S.del[z].at \/ (S.del[y].at = S.del[z].at /\ S.del[y].n <= S.del[z].n)
  IN {x} \cup TakeMin(X \ {x}, k - 1)

Pull(snm, max) ==
  LET X == SubsNamed(S, snm) IN
  /\ X # {}
  /\ LET s == Pick(X)
         C == TakeMin(EligI(s), max)
         D == {d \in C : DLable(S, d)}
         R == C \ D
         Rs == SeqOfSet(R)
         got == [i \in DOMAIN Rs |-> [d |-> Rs[i], att |-> S.del[Rs[i]].att + 1, ok |-> TRUE, bo |-> Backoff(s, S.del[Rs[i]].att + 1)]]
         del1 == [d \in DOMAIN S.del |-> IF d \in R THEN [S.del[d] EXCEPT !.att = @ + 1, !.at = S.now + Backoff(s, S.del[d].att + 1)] ELSE S.del[d]]
     IN OK([op |-> "Pull", sub |-> snm, max |-> max, got |-> got],
           [S EXCEPT !.del = Forward(del1, D, S.nd + 1), !.nd = @ + Cardinality(D),
                     !.subs = [@ EXCEPT ![s].exp = S.now + S.subs[s].ttl]])

Delivered == {d \in Dels(S) : S.del[d].att > 0}
Ack(snm, d) ==
  /\ d \in Delivered
  /\ OK([op |-> "Ack", sub |-> snm, ids |-> <<d>>],
        [S EXCEPT !.del = [@ EXCEPT ![d].done = IF @ = -1 THEN S.now ELSE @]])

Nack(d) ==
  /\ d \in Delivered
  /\ LET live == S.del[d].done = -1 /\ S.del[d].exp > S.now
         dl == live /\ DLable(S, d) IN
     OK([op |-> "Nack", ids |-> <<d>>, bo |-> <<Backoff(d[2], S.del[d].att)>>],
        [S EXCEPT !.del = IF dl THEN Forward(S.del, {d}, S.nd + 1)
                          ELSE IF live THEN [S.del EXCEPT ![d].at = S.now + Backoff(d[2], S.del[d].att)] ELSE S.del,
                  !.nd = IF dl THEN @ + 1 ELSE @])

SeekTime(snm, T) ==
  LET X == SubsNamed(S, snm) IN
  /\ X # {}
  /\ LET s == Pick(X)
         le == {d \in DelsOf(S, s) : S.del[d].pub <= T}
         del2 == [d \in DOMAIN S.del |->
                    LET r == S.del[d] IN
                    IF d[2] # s \/ r.exp < S.now THEN r
                    ELSE IF r.pub <= T THEN (IF r.done = -1 THEN [r EXCEPT !.done = S.now] ELSE r)
                    ELSE (IF r.done # -1 THEN [r EXCEPT !.done = -1, !.exp = S.now + S.subs[s].mttl, !.at = S.now] ELSE r)]
     IN OK([op |-> "SeekTime", sub |-> snm, T |-> T, m |-> 0, le |-> SeqOfSet(le)], [S EXCEPT !.del = del2])

CreateSnap(nm, snm) ==
  LET X == SubsNamed(S, snm) IN
  /\ X # {} /\ nm \notin DOMAIN S.snaps
  /\ LET s == Pick(X)
         U == {d \in DelsOf(S, s) : S.del[d].done = -1 /\ S.del[d].exp > S.now}
         before == IF U = {} THEN S.now ELSE SetMin({S.del[d].pub : d \in U})
         acked == IF U = {} THEN {}
                  ELSE {m \in DOMAIN S.msgs : /\ S.msgs[m].topic = S.subs[s].topic /\ S.msgs[m].pub >= before
                                              /\ \E d \in DelsOf(S, s) : d[1] = m /\ S.del[d].done # -1}
     IN OK([op |-> "CreateSnap", name |-> nm, sub |-> snm],
           [S EXCEPT !.snaps = (nm :> [topic |-> S.subs[s].topic, proj |-> "p", before |-> before, acked |-> acked]) @@ @])

SeekSnap(snm, nm) ==
  LET X == SubsNamed(S, snm) IN
  /\ X # {} /\ nm \in DOMAIN S.snaps
  /\ LET s == Pick(X) sn == S.snaps[nm]
         del2 == [d \in DOMAIN S.del |->
                    LET r == S.del[d] IN
                    IF d[2] # s THEN r
                    ELSE IF r.exp >= S.now /\ r.done = -1 /\ (r.pub < sn.before \/ d[1] \in sn.acked) THEN [r EXCEPT !.done = S.now]
                    ELSE IF r.pub >= sn.before /\ d[1] \notin sn.acked /\ r.done # -1
                         THEN [r EXCEPT !.done = -1, !.exp = S.now + S.subs[s].mttl, !.at = S.now]
                    ELSE r]
     IN OK([op |-> "SeekSnap", sub |-> snm, snap |-> nm], [S EXCEPT !.del = del2])

\* deleting deliveries clears the nb references to them (ON DELETE SET NULL)
DropDels(X) ==
  [d \in DOMAIN S.del \ X |-> IF S.del[d].nb \in X THEN [S.del[d] EXCEPT !.nb = NoNB] ELSE S.del[d]]
PruneCompleted(age) ==
  LET X == {d \in Dels(S) : S.del[d].done # -1 /\ S.del[d].done <= S.now - age} IN
  /\ X # {} /\ OK([op |-> "PruneCompletedDeliveries", minAge |-> age, max |-> 100], [S EXCEPT !.del = DropDels(X)])
PruneExpired ==
  LET X == {d \in Dels(S) : S.del[d].exp < S.now} IN
  /\ X # {} /\ OK([op |-> "PruneExpiredDeliveries", minAge |-> 0, max |-> 100], [S EXCEPT !.del = DropDels(X)])

Tick(d) ==
  /\ S.now + d <= MaxTime
  /\ LET e == [op |-> "Tick", d |-> d, t0 |-> S.now, t1 |-> S.now + d] IN
     S' = [S EXCEPT !.now = @ + d] /\ ev' = e /\ hist' = Append(hist, e)

SubNames == {ImplSubs[i].name : i \in DOMAIN ImplSubs}
TopicNames == {ImplTopics[i] : i \in DOMAIN ImplTopics}
On(o) == o \in Ops
Next ==
  \/ On("Publish") /\ \E nm \in TopicNames, b \in Batches : Publish(nm, b)
  \/ On("Pull") /\ \E nm \in SubNames, k \in PullMaxes : Pull(nm, k)
  \/ On("Ack") /\ \E d \in Delivered : Ack(S.subs[d[2]].name, d)
  \/ On("Nack") /\ \E d \in Delivered : Nack(d)
  \/ On("SeekTime") /\ \E nm \in SubNames, T \in 0..S.now : SeekTime(nm, T)
  \/ On("CreateSnap") /\ \E nm \in SubNames : CreateSnap("n1", nm)
  \/ On("SeekSnap") /\ \E nm \in SubNames : SeekSnap(nm, "n1")
  \/ On("PruneCompletedDeliveries") /\ PruneCompleted(0)
  \/ On("PruneExpiredDeliveries") /\ PruneExpired
  \/ On("Tick") /\ \E d \in TickDs : Tick(d)

Spec == Init /\ [][Next]_vars
Bounded == \A d \in Dels(S) : S.del[d].att <= AttBound

\* refinement: every mechanism transition satisfies every contract clause
Viols == V(Abs(S), ev', Abs(S')) \cup VGeneric(Abs(S), ev', Abs(S')) \cup Inv(Abs(S'))
Refines == [][Viols = {}]_vars
\* the same, reported per clause family so that one known departure does not hide the others
RefinesExcept(props) == [][{c \in Viols : SubSeq(c, 1, 3) \notin props} = {}]_vars

\* print every violating transition as a scenario and do not explore beyond it
ReportCex == (Viols = {}) \/ (PrintT(<<"CEX", ToJson(Append(hist, ev')), ToJson(Viols)>>) /\ FALSE)

View == <<[S EXCEPT !.del = [d \in DOMAIN @ |-> [@[d] EXCEPT !.at = Max2(@, S.now)]]]>>
=============================================================================
