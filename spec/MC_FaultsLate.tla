--------------------------- MODULE MC_FaultsLate ---------------------------
(* Add() racing with Check and prune: one description present, the          *)
(* overlapping one and one for another operation are added while 3 calls    *)
(* run.  Exactness is relative to the descriptions a call could see         *)
(* (avail = added before the call first looked).                            *)
EXTENDS MC_Faults
ltKinds == <<KExact, KOtherV, KOtherOp>>
ltCallChoices == {[c \in mcCallers |-> ltKinds[f[c]]] :
                    f \in {g \in [mcCallers -> DOMAIN ltKinds] : \A c \in mcCallers : c > 1 => g[c - 1] <= g[c]}}
ltInitChoices == {<<DT(a)>> : a \in 1..2} \cup {<<DA(a)>> : a \in 1..2}
ltLatePool == {DA(1), DT(1), DO(1)}
=============================================================================
