SPECIFICATION GenSpec
CONSTANTS
  Callers <- g2Callers
  CallChoices <- g2CallChoices
  InitChoices <- g2InitChoices
  LatePool <- mcLatePool
  FirstMatch = TRUE
  RT = FALSE
  Reduce = FALSE
CHECK_DEADLOCK FALSE
