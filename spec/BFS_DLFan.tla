------------------------------ MODULE BFS_DLFan ------------------------------
(* Bounded exhaustive histories, dead-letter topologies with SHARED targets: *)
(* s1 and s3 on t1 both forward to t2 (fan-in: the dead-letter subscription  *)
(* s2 may still hold the copy it got from the other source), s4 on t1        *)
(* forwards to its own topic (self-loop: every subscription of t1 gets a     *)
(* second copy).  One message, every sequence of pulls, sweeps and clock     *)
(* steps past the backoff.                                                   *)
EXTENDS BusModel
Cfg0 == [ttl |-> 600, mttl |-> 400, ord |-> FALSE, filt |-> NoFilter, minB |-> 2, maxB |-> 3,
         dlt |-> "", maxAtt |-> 0, push |-> "", labels |-> <<>>]
C1 == [name |-> "s1", topic |-> "t1", cfg |-> [Cfg0 EXCEPT !.dlt = "t2", !.maxAtt = 1]]
C3 == [name |-> "s3", topic |-> "t1", cfg |-> [Cfg0 EXCEPT !.dlt = "t2", !.maxAtt = 1]]
C4 == [name |-> "s4", topic |-> "t1", cfg |-> [Cfg0 EXCEPT !.dlt = "t1", !.maxAtt = 1]]
C2 == [name |-> "s2", topic |-> "t2", cfg |-> Cfg0]
mcSubCfgs == {C1, C2, C3, C4}
mcSetup == << [op |-> "CreateTopic", name |-> "t1"], [op |-> "CreateTopic", name |-> "t2"],
              [op |-> "CreateSub", c |-> C1], [op |-> "CreateSub", c |-> C2],
              [op |-> "CreateSub", c |-> C3], [op |-> "CreateSub", c |-> C4],
              [op |-> "Publish", topic |-> "t1", msgs |-> << [key |-> "", attrs |-> <<>>] >>] >>
mcMsgKinds == { [key |-> "", attrs |-> <<>>] }
mcProjOfName == <<>>
mcWeights == <<>>
mcOps == {"Pull", "DLSweep", "Tick"}
Shape == TRUE
=============================================================================
