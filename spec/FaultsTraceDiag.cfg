SPECIFICATION TraceSpec
CONSTANTS
  Callers <- trCallers
  CallChoices <- trNone
  InitChoices <- trNone
  LatePool <- trNone
  FirstMatch = FALSE
  RT = FALSE
  TraceFile <- TraceFileName
  Verbose = TRUE
INVARIANT Consumed
CHECK_DEADLOCK FALSE
