----------------------------- MODULE MC_Timing -----------------------------
(* C14: retention 3, expiration TTL 4, injected delay 0 / 3, pulls (also    *)
(* empty ones), expiry sweeps and seeks that refresh retention, in every    *)
(* order with clock advances of 1 and 2.                                    *)
EXTENDS BusModel
Cfg0 == [ttl |-> 4, mttl |-> 3, ord |-> FALSE, filt |-> NoFilter, minB |-> 2, maxB |-> 2,
         dlt |-> "", maxAtt |-> 0, push |-> "", labels |-> <<>>]
C1 == [name |-> "s1", topic |-> "t1", cfg |-> Cfg0]
mcTopicNames == {"t1"}
mcSubNames == {"s1"}
mcSnapNames == {}
mcSubCfgs == {C1}
mcSetup == << [op |-> "CreateTopic", name |-> "t1"], [op |-> "CreateSub", c |-> C1] >>
mcMsgKinds == { [key |-> "", attrs |-> <<>>] }
mcPrefixPairs == {}
mcBatchMax == 1
mcTickDs == {1, 2}
mcPullMaxes == {2}
mcJobAges == {0}
mcJobMaxes == {1}
mcProjOfName == <<>>
mcWeights == <<>>
mcOps == {"Publish", "Pull", "PullWait", "SeekTime", "ExpireSubs", "SetDelay", "Tick"}
=============================================================================
