SPECIFICATION TraceSpec
CONSTANTS
  TraceFile <- TraceFileName
INVARIANT Consumed
CHECK_DEADLOCK FALSE
