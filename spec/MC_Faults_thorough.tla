------------------------- MODULE MC_Faults_thorough -------------------------
(* 4 racing callers, counts 0..3, both list orders, five call kinds.        *)
EXTENDS MC_Faults
thCallers == 1..4
thCallChoices == {[c \in thCallers |-> Kinds[f[c]]] :
                    f \in {g \in [thCallers -> DOMAIN Kinds] : \A c \in thCallers : c > 1 => g[c - 1] <= g[c]}}
thInitChoices == UNION {{<<DT(a), DA(b), DO(1)>>, <<DA(b), DT(a), DO(1)>>} : a \in 0..3, b \in 0..3}
=============================================================================
