----------------------------- MODULE BFS_Blocked -----------------------------
(* Bounded exhaustive histories executed with BLOCKING pulls: every sequence  *)
(* of retry-policy / retention updates, publishes, zero-deadline modacks and  *)
(* pulls of the given length on one subscription; the executor starts each    *)
(* pull on an idle subscription one or two steps early, so the update and the *)
(* publish happen while the pull is waiting (C04, C10, C14, C17 enforcement). *)
EXTENDS BusModel
Cfg0 == [ttl |-> 600, mttl |-> 80, ord |-> FALSE, filt |-> NoFilter, minB |-> 2, maxB |-> 3,
         dlt |-> "", maxAtt |-> 0, push |-> "", labels |-> <<>>]
C1 == [name |-> "s1", topic |-> "t1", cfg |-> Cfg0]
C2 == [name |-> "s1", topic |-> "t1", cfg |-> [Cfg0 EXCEPT !.minB = 30, !.maxB = 60, !.mttl = 200, !.ttl = 300]]
mcSubCfgs == {C1, C2}
mcSetup == << [op |-> "CreateTopic", name |-> "t1"], [op |-> "CreateSub", c |-> C1] >>
mcMsgKinds == { [key |-> "", attrs |-> <<>>] }
mcProjOfName == <<>>
mcPrefixPairs == {}
mcWeights == <<>>
mcOps == {"UpdateRetry", "UpdateTTL", "Publish", "Pull", "ModAck"}
=============================================================================
