---------------------------- MODULE FaultsTrace ----------------------------
(***************************************************************************)
(* Trace validation of black-box traces of the REAL faults.Set against the *)
(* step model Faults.tla.  A trace holds only what an observer sees:       *)
(*   Add (a description was added), Start / End of every Check call with   *)
(*   its outcome (failed by which description / passed), Current()         *)
(*   listings.                                                             *)
(* The steps inside Check (Match, Dec, Decide) and prune are INTERNAL: TLC *)
(* infers them: between two lines any number of internal steps of the      *)
(* calls in flight may happen.  A trace is accepted iff some behaviour of  *)
(* Faults.tla (Match = ANY matching description, so the choice rule of the *)
(* implementation is not prescribed) produces exactly the observed lines   *)
(* in the observed order.                                                  *)
(* Many traces are concatenated; a Reset line starts the next one.  TLC    *)
(* reaches l = Len(Trace) + 1 iff every trace is accepted; otherwise the   *)
(* last TRACE printed is the trace that is not a behaviour of the model.   *)
(* Meant for small traces (<= ~5 calls in flight); large stress traces are *)
(* validated by FaultsAgg.tla.                                             *)
(***************************************************************************)
EXTENDS Faults, Json

CONSTANTS TraceFile, Verbose
Trace == ndJsonDeserialize(TraceFile)

VARIABLES l, kinds,
          padd,   \* a Set.Add in progress: [st |-> "none" | "open" | "done", desc]
          snap    \* a Set.Current() in progress: [st |-> "none" | "open" | "reading", ids, v]; Current holds the
                  \* READ lock and loads the counts one by one: no Add / Prune (write lock) can interleave,
                  \* but the atomic decrements of racing Checks can - the listing is not an atomic snapshot
                  \* ("out of date by the time the value is returned", faults/set.go)
tvars == <<desc, count, list, pc, call, prunes, fired, hits, avail, expired, clock, startAt, endAt, l, kinds, padd, snap>>
fvars == <<desc, count, list, pc, call, prunes, fired, hits, avail, expired, clock, startAt, endAt>>
NoAdd == [st |-> "none", desc |-> <<>>]
NoSnap == [st |-> "none", ids |-> {}, v |-> <<>>, w |-> <<>>]

NoCall == [op |-> "", params |-> <<>>]
E == [desc |-> <<>>, count |-> <<>>, list |-> <<>>, fired |-> <<>>,
      pc |-> [c \in Callers |-> NoPc], call |-> [c \in Callers |-> NoCall],
      zeroes |-> [c \in Callers |-> 0], nothing |-> [c \in Callers |-> {}]]

TraceInit ==
  /\ desc = E.desc /\ count = E.count /\ list = E.list /\ fired = E.fired
  /\ pc = E.pc /\ call = E.call /\ prunes = 0 /\ expired = 0
  /\ hits = E.zeroes /\ avail = E.nothing /\ clock = 0 /\ startAt = E.zeroes /\ endAt = E.zeroes
  /\ l = 1 /\ kinds = <<>> /\ padd = NoAdd /\ snap = NoSnap

Reset(e) ==
  /\ desc' = E.desc /\ count' = E.count /\ list' = E.list /\ fired' = E.fired
  /\ pc' = E.pc /\ call' = E.call /\ prunes' = 0 /\ expired' = 0
  /\ hits' = E.zeroes /\ avail' = E.nothing /\ clock' = 0 /\ startAt' = E.zeroes /\ endAt' = E.zeroes
  /\ kinds' = e.kinds /\ padd' = NoAdd /\ snap' = NoSnap
  /\ PrintT(ToJson(<<"TRACE", e.tr>>))

\* the listing the observer read
IsListing(cur, v) ==
  /\ \A j \in DOMAIN cur : cur[j].d \in DOMAIN v /\ cur[j].k > 0
  /\ \A j1, j2 \in DOMAIN cur : cur[j1].d = cur[j2].d => j1 = j2
  /\ \A i \in DOMAIN v : v[i] = (IF \E j \in DOMAIN cur : cur[j].d = i
                                  THEN cur[CHOOSE j \in DOMAIN cur : cur[j].d = i].k ELSE 0)
\* v: the listing when Current took the read lock, w: the listing when it released it. Counts only
\* decrease (by one per decrement) and every count is loaded at its own moment in between, so any
\* value between the two is a possible reading of that description.
ObsOf(cur, i) == IF \E j \in DOMAIN cur : cur[j].d = i THEN cur[CHOOSE j \in DOMAIN cur : cur[j].d = i].k ELSE 0
IsReading(cur, sn) ==
  /\ \A j \in DOMAIN cur : cur[j].d \in sn.ids /\ cur[j].k > 0
  /\ \A j1, j2 \in DOMAIN cur : cur[j1].d = cur[j2].d => j1 = j2
  /\ \A i \in sn.ids : sn.w[i] <= ObsOf(cur, i) /\ ObsOf(cur, i) <= sn.v[i]

\* Add and Current are calls with a duration too: AddB / CurB mark their
\* invocation, Add / Current their return; the effect (append / read) is an
\* internal step in between.
Line(e) ==
  CASE e.op = "Reset" -> Reset(e)
    [] e.op = "AddB" -> /\ padd.st = "none" /\ padd' = [st |-> "open", desc |-> e.desc]
                        /\ UNCHANGED <<fvars, kinds, snap>>
    [] e.op = "Add" -> /\ padd.st = "done" /\ e.d = Len(desc) /\ padd' = NoAdd
                       /\ UNCHANGED <<fvars, kinds, snap>>
    [] e.op = "Start" -> Invoke(e.c, kinds[e.k]) /\ UNCHANGED <<kinds, padd, snap>>
    [] e.op = "End" -> /\ \/ e.out = 0 /\ Pass(e.c)
                          \/ e.out # 0 /\ pc[e.c].d = e.out /\ Finish(e.c)
                       /\ UNCHANGED <<kinds, padd, snap>>
    [] e.op = "CurB" -> /\ snap.st = "none" /\ snap' = [NoSnap EXCEPT !.st = "open"]
                        /\ UNCHANGED <<fvars, kinds, padd>>
    [] e.op = "Current" -> /\ snap.st = "read" /\ IsReading(e.cur, snap) /\ snap' = NoSnap
                           /\ UNCHANGED <<fvars, kinds, padd>>

Hidden ==
  \/ /\ \/ \E c \in Callers : Match(c) \/ Dec(c) \/ Decide(c)
        \/ (snap.st # "reading" /\ Prune)                     \* the write lock is not available while Current reads
     /\ UNCHANGED <<padd, snap>>
  \/ /\ padd.st = "open" /\ snap.st # "reading" /\ Add(padd.desc) /\ padd' = [padd EXCEPT !.st = "done"] /\ UNCHANGED snap
  \* Current takes the read lock (it sees this list, no Add / Prune until it is done) ...
  \/ /\ snap.st = "open"
     /\ snap' = [st |-> "reading", ids |-> Range(list), v |-> [i \in Range(list) |-> Listing[i]], w |-> <<>>]
     /\ UNCHANGED <<fvars, padd>>
  \* ... and releases it after loading every count
  \/ /\ snap.st = "reading"
     /\ snap' = [snap EXCEPT !.st = "read", !.w = [i \in snap.ids |-> Listing[i]]]
     /\ UNCHANGED <<fvars, padd>>

TraceNext ==
  /\ l <= Len(Trace)
  /\ \/ /\ Line(Trace[l])
        /\ l' = l + 1
        /\ (Verbose => PrintT(ToJson(<<"AT", l>>)))
     \/ /\ Trace[l].op # "Reset"
        /\ Hidden
        /\ UNCHANGED <<l, kinds>>

TraceSpec == TraceInit /\ [][TraceNext]_tvars

\* acceptance: some behaviour consumed every line
Consumed == (l = Len(Trace) + 1) => PrintT(ToJson(<<"CONSUMED", Len(Trace)>>))
=============================================================================
