SPECIFICATION Spec
CONSTANTS
  MaxMsgsSet = {1, 2, 3}
  MaxBytesSet = {15, 30, 45}
  Sizes = {10, 30}
  MaxPub = 4
  Depth = 100000
INVARIANT ModelBound
VIEW NoHist
CHECK_DEADLOCK FALSE
