------------------------------ MODULE Gen_Seek ------------------------------
(* Family "seek" (C13): publish / pull / partial ack / snapshot / more      *)
(* traffic / seek to past, present and future, to snapshots of the same and *)
(* of a sibling subscription, repeated seeks, dead-letter traffic into a    *)
(* snapshotted subscription, then drain.                                    *)
EXTENDS BusModel
F_has_a == [op |-> "has", k |-> "a"]
Cfg0 == [ttl |-> 600, mttl |-> 50, ord |-> FALSE, filt |-> NoFilter, minB |-> 2, maxB |-> 3,
         dlt |-> "", maxAtt |-> 0, push |-> "", labels |-> <<>>]
C1 == [name |-> "s1", topic |-> "t1", cfg |-> Cfg0]
C2 == [name |-> "s2", topic |-> "t1", cfg |-> [Cfg0 EXCEPT !.filt = F_has_a]]
C3 == [name |-> "s3", topic |-> "t1", cfg |-> [Cfg0 EXCEPT !.ord = TRUE, !.mttl = 20]]
C4 == [name |-> "s4", topic |-> "t2", cfg |-> [Cfg0 EXCEPT !.dlt = "t1", !.maxAtt = 1]]
mcTopicNames == {"t1", "t2"}
mcSubNames == {"s1", "s2", "s3", "s4"}
mcSnapNames == {"n1", "n2"}
mcSubCfgs == {C1, C2, C3, C4}
mcSetup == << [op |-> "CreateTopic", name |-> "t1"], [op |-> "CreateTopic", name |-> "t2"],
              [op |-> "CreateSub", c |-> C1], [op |-> "CreateSub", c |-> C2],
              [op |-> "CreateSub", c |-> C3], [op |-> "CreateSub", c |-> C4] >>
mcMsgKinds == { [key |-> "", attrs |-> <<>>], [key |-> "K", attrs |-> [a |-> "x"]], [key |-> "", attrs |-> [a |-> "xy"]] }
mcPrefixPairs == {<<"x", "">>, <<"x", "x">>, <<"xy", "">>, <<"xy", "x">>, <<"xy", "xy">>}
mcTickDs == {1, 2, 3, 7, 25}
mcProjOfName == <<>>
mcOps == {"Publish", "Pull", "Ack", "ModAck", "SeekTime", "CreateSnap", "SeekSnap", "DeleteSnap", "Tick",
          "PruneCompletedDeliveries", "PruneExpiredDeliveries", "DeleteTopic"}
W0 == [op \in mcOps |-> 1]
mcWeights == [W0 EXCEPT !["Publish"] = 7, !["Pull"] = 10, !["Ack"] = 7, !["SeekTime"] = 5, !["CreateSnap"] = 4,
                        !["SeekSnap"] = 6, !["Tick"] = 6]
=============================================================================
