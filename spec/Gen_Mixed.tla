----------------------------- MODULE Gen_Mixed -----------------------------
(* Scenario generation, family "mixed": two topics, subscriptions covering *)
(* the product filter x ordering x retry x dead-letter x retention, every  *)
(* client operation, every background job, clock advances.                 *)
EXTENDS BusModel
F_has_a == [op |-> "has", k |-> "a"]
F_cplx == [op |-> "or", xs |-> << [op |-> "eq", k |-> "a", v |-> "x"],
                                  [op |-> "not", x |-> [op |-> "has", k |-> "b"]] >>]
Cfg0 == [ttl |-> 60, mttl |-> 30, ord |-> FALSE, filt |-> NoFilter, minB |-> 2, maxB |-> 4,
         dlt |-> "", maxAtt |-> 0, push |-> "", labels |-> <<>>]
C1 == [name |-> "s1", topic |-> "t1", cfg |-> [Cfg0 EXCEPT !.dlt = "t2", !.maxAtt = 2]]
C2 == [name |-> "s2", topic |-> "t1", cfg |-> [Cfg0 EXCEPT !.filt = F_has_a, !.ord = TRUE]]
C3 == [name |-> "s3", topic |-> "t2", cfg |-> [Cfg0 EXCEPT !.mttl = 12]]
C4 == [name |-> "s4", topic |-> "t1", cfg |-> [Cfg0 EXCEPT !.filt = F_cplx, !.minB = 0, !.maxB = 0, !.ttl = 0, !.mttl = 0]]
C5 == [name |-> "s1", topic |-> "t2", cfg |-> [Cfg0 EXCEPT !.ord = TRUE, !.ttl = 20]]
\* the same names again with OTHER filters / settings: a re-created subscription must use its own
C6 == [name |-> "s2", topic |-> "t1", cfg |-> [Cfg0 EXCEPT !.filt = [op |-> "not", x |-> F_has_a]]]
C7 == [name |-> "s4", topic |-> "t2", cfg |-> [Cfg0 EXCEPT !.filt = [op |-> "pre", k |-> "a", v |-> "xy"]]]
mcSubCfgs == {C1, C2, C3, C4, C5, C6, C7}
mcSetup == << [op |-> "CreateTopic", name |-> "t1"], [op |-> "CreateTopic", name |-> "t2"],
              [op |-> "CreateSub", c |-> C1], [op |-> "CreateSub", c |-> C2],
              [op |-> "CreateSub", c |-> C3] >>
mcMsgKinds == { [key |-> "", attrs |-> <<>>], [key |-> "K", attrs |-> [a |-> "x"]],
                [key |-> "K", attrs |-> [a |-> "xy", b |-> ""]], [key |-> "L", attrs |-> [b |-> "y"]] }
mcPrefixPairs == {<<"", "">>, <<"x", "">>, <<"xy", "">>, <<"y", "">>,
                  <<"x", "x">>, <<"xy", "x">>, <<"xy", "xy">>, <<"y", "y">>}
mcProjOfName == <<>>
mcOps == {"CreateTopic", "DeleteTopic", "CreateSub", "DeleteSub", "UpdateSub", "Publish", "Pull", "Ack",
          "ModAck", "Nack", "SeekTime", "CreateSnap", "DeleteSnap", "SeekSnap", "DLSweep",
          "ExpireSubs", "Tick", "StreamAN", "RacePull", "AckNack"} \cup PruneJobs
W0 == [op \in mcOps |-> 1]
mcWeights == [W0 EXCEPT !["Publish"] = 6, !["Pull"] = 10, !["Ack"] = 4, !["ModAck"] = 3, !["Nack"] = 3, !["StreamAN"] = 3, !["RacePull"] = 3, !["AckNack"] = 3,
                        !["Tick"] = 8, !["SeekTime"] = 2, !["SeekSnap"] = 2, !["CreateSnap"] = 2,
                        !["CreateSub"] = 4, !["DeleteSub"] = 3, !["UpdateSub"] = 4, !["DLSweep"] = 2]
=============================================================================
